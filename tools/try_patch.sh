#!/bin/sh
# tools/try_patch.sh <patch.diff> <prop> [<prop>...]   -- run checks against a scratch worktree with the patch applied
# (never touches /repo's working tree or /verif/evidence)
set -e
PATCH="$1"; shift
WT=$(mktemp -d /tmp/trypatch.XXXXXX)
git -C /repo worktree add --detach "$WT" HEAD >/dev/null 2>&1
trap 'git -C /repo worktree remove --force "$WT" >/dev/null 2>&1; rm -rf "$WT.ev"' EXIT
git -C "$WT" apply "$PATCH"
mkdir -p "$WT.ev"
cd /verif
for p in "$@"; do
  VERIF_EVIDENCE_DIR="$WT.ev" VERIF_REPLAY_DIR="$WT.ev/replay" ./check "$p" --repo "$WT" | grep -v "^  " | sed "s|$WT|<wt>|g" || true
done
