#!/usr/bin/env python3
"""tools/mutate.py <relfile> <old> <new> <prop> [<prop>...] [--nth k]
Apply one textual substitution (k-th occurrence, default must be unique) to a scratch worktree of /repo,
check that the file still parses, run the given checks against it, print their verdict lines, clean up."""
import ast, os, subprocess, sys, tempfile
args = sys.argv[1:]
nth = None
if "--nth" in args:
  i = args.index("--nth"); nth = int(args[i + 1]); del args[i:i + 2]
rel, old, new, props = args[0], args[1], args[2], args[3:]
old = old.encode().decode("unicode_escape"); new = new.encode().decode("unicode_escape")
wt = tempfile.mkdtemp(prefix="mut.", dir="/tmp")
subprocess.run(["git", "-C", "/repo", "worktree", "add", "--detach", wt, "HEAD"], check=True, capture_output=True)
try:
  p = os.path.join(wt, rel)
  s = open(p).read()
  c = s.count(old)
  if c == 0 or (c > 1 and nth is None):
    print(f"MUTATE-ERROR: {c} occurrences of pattern"); sys.exit(3)
  if nth is None:
    s = s.replace(old, new)
  else:
    parts = s.split(old)
    s = old.join(parts[:nth + 1]) + new + old.join(parts[nth + 1:])
  ast.parse(s)
  open(p, "w").write(s)
  env = dict(os.environ, VERIF_EVIDENCE_DIR=wt + ".ev", VERIF_REPLAY_DIR=wt + ".ev/replay")
  rc_all = 0
  for pr in props:
    r = subprocess.run(["./check", pr, "--repo", wt], cwd="/verif", env=env, capture_output=True, text=True)
    out = [l.replace(wt, "<wt>") for l in r.stdout.splitlines() if not l.startswith("VIOLATION")]
    print(f"[{pr}] exit={r.returncode}")
    for l in out[:6]:
      print("   ", l[:300])
finally:
  subprocess.run(["git", "-C", "/repo", "worktree", "remove", "--force", wt], capture_output=True)
  subprocess.run(["rm", "-rf", wt + ".ev"])
