#!/bin/sh
# tools/run_all.sh [quick|thorough] -- run every claimed check in parallel and print one line each
TIER=${1:-quick}
cd /verif
python3 - <<PY | xargs -P 8 -I{} sh -c './check {} --tier '"$TIER"' > /tmp/runall_{}.log 2>&1; echo "{} exit=$? $(tail -1 /tmp/runall_{}.log)"' | sort
import json
for c in json.load(open('/verif/MANIFEST.json'))['checks']: print(c['property_id'])
PY
