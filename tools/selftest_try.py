#!/usr/bin/env python3
"""tools/selftest_try.py [id-substring ...] : run catalogue entries against their listed properties and print verdicts."""
import os, sys, multiprocessing as mp
sys.path.insert(0, os.path.dirname(os.path.dirname(os.path.abspath(__file__))))
sys.setrecursionlimit(10000)
from mjwstatic import selftest
from mjwstatic.tables.selftest_catalogue import CATALOGUE
pats = [a for a in sys.argv[1:] if not a.startswith("--")]
jobs = 8
ents = [e for e in CATALOGUE if not pats or any(p in e["id"] for p in pats)]
work = [(p, e, "/repo") for e in ents for p in e.get("fire", []) + e.get("silent", [])]
with mp.get_context("fork").Pool(jobs, maxtasksperchild=1) as pool:
  results = pool.map(selftest._run_one, work, chunksize=1)
bad = 0
for (p, e, _), (eid, status, keys, note) in zip(work, results):
  want = "fire" if p in e.get("fire", []) else "silent"
  got = "skipped:" + note if status == "skipped" else ("fire" if keys else "silent")
  ok = want == got
  bad += not ok
  print(("ok  " if ok else "BAD ") + f"{eid:40s} {p} want={want} got={got} {keys[:2] if keys else ''}"[:260])
print("bad:", bad)
