#!/usr/bin/env python3
"""tools/seed_prompt.py <PROP> <seed-id> [avoid text] -- create a scratch worktree and print the sub-agent prompt.
The prompt contains only the property text (nothing from /verif)."""
import json, subprocess, sys, os
prop, sid = sys.argv[1], sys.argv[2]
avoid = sys.argv[3] if len(sys.argv) > 3 else ""
rec = None
for l in open('/verif/properties.jsonl'):
  p = json.loads(l)
  if p['id'] == prop:
    rec = p
wt = f"/tmp/seedwt_{sid}"
out = f"/tmp/seed_out/{sid}"
os.makedirs(out, exist_ok=True)
if not os.path.exists(wt):
  subprocess.run(f"git -C /repo worktree add --detach {wt} HEAD", shell=True, check=True, stdout=subprocess.DEVNULL, stderr=subprocess.DEVNULL)
text = f"""You are helping to evaluate a verification tool for the open-source project google-deepmind/mujoco_warp (MuJoCo Warp: a GPU-batched rigid-body physics simulator written as NVIDIA Warp kernels in Python). Your job is to act as a realistic source of regressions: write ONE change to the library that breaks the property below while the code still compiles and the existing test-suite still passes.

THE PROPERTY (this is all the specification you get):
{json.dumps({k: rec[k] for k in ('id','title','statement','quantifier','why_tests_cant','anchors') if k in rec}, indent=1)}

YOUR WORKSPACE
- Your own scratch git worktree of the library: {wt} (detached HEAD). Work ONLY there. Never read or modify /repo or /verif, never use `git stash` (it is shared across worktrees), never commit.
- Python with all dependencies (mujoco, warp on CPU): /venv/bin/python. Always run as: `cd {wt} && PYTHONPATH={wt} /venv/bin/python ...` so that your worktree's copy of mujoco_warp is imported. TRAP: never run python with the current directory inside mujoco_warp/_src (its types.py/math.py/io.py shadow the standard library).
- No network. CPU only (Warp runs a launch's threads sequentially in ascending order on CPU).
- Test-suite: `cd {wt} && PYTHONPATH={wt} /venv/bin/python -m pytest -q -p no:cacheprovider -n 8 --timeout=900 mujoco_warp` takes about 2-3 minutes. On the unmodified tree exactly 33 tests fail (flex_test parity24-47, constraint_test test_constraints8-11, collision_driver_test test_collision20, io_test test_get_data_into_io_test_models18/19/22/23) and 1255 pass. With your change the SAME 1255 tests must still pass (same 33 failures, no new ones).

WHAT TO PRODUCE
A change (typically 1-30 lines, in mujoco_warp/_src/*.py non-test files) that a plausible developer could make (a "clean-up", "optimisation", "simplification", refactor, or feature tweak - include a plausible comment if natural) and that breaks the property. It must need something SPECIFIC to manifest - e.g. a particular thread interleaving / non-ascending schedule, more than one world with different parameters, a capacity that is exactly reached, a multi-step sequence of API calls, an unusual but accepted model or option combination, or two cooperating sites that each look fine alone - NOT something ordinary use or the existing tests would expose at once. {('IMPORTANT - for diversity, ' + avoid) if avoid else ''}

Then write a demonstration: a small stand-alone program demo.py using the public API (import mujoco_warp as mjw, mujoco, numpy, warp) that exits with status 1 (printing FAIL and the evidence) when run against the tree WITH your change and exits 0 (printing PASS) against the tree WITHOUT it. If the break needs a non-sequential thread schedule that the CPU cannot produce, emulate the other schedule faithfully through the public API (e.g. permuting the order of work items in model arrays) or demonstrate the wrong result against the MuJoCo C reference (mujoco.mj_step etc.) - explain which. It must run in under ~3 minutes.

To test "without the change" use: `git -C {wt} diff > {out}/patch.diff && git -C {wt} apply -R {out}/patch.diff` (and `git -C {wt} apply {out}/patch.diff` to re-apply). 

DELIVERABLES (write them to {out}/):
1. patch.diff  - `git -C {wt} diff` of your final change (must apply cleanly to the worktree's HEAD with `git apply`).
2. demo.py     - the demonstration (run as `cd {wt} && PYTHONPATH={wt} /venv/bin/python {out}/demo.py`).
3. notes.md    - the change and why it looks innocent; why it breaks the property; exactly what it needs in order to manifest; the commands you ran and their results (demo with/without, test-suite summary line with the change).
Leave the worktree with the change applied when you finish. Your final message should be a 5-10 line summary (files changed, what it needs to manifest, demo result with/without, test-suite result). Confirm all of this by actually running it - do not guess.
"""
print(text)
