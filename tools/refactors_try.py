import json, os, sys, multiprocessing as mp
sys.path.insert(0,'/verif'); sys.setrecursionlimit(10000)
from mjwstatic import selftest
S="mujoco_warp/_src/"
def sub(file, old, new, nth=None):
  d={"file":S+file,"old":old,"new":new}
  if nth is not None: d["nth"]=nth
  return d
R=[
 dict(id="ref:rename-local", subs=[sub("smooth.py","  mat = ximat_in[worldid, bodyid]\n","  ximat_local = ximat_in[worldid, bodyid]\n  mat = ximat_local\n")]),
 dict(id="ref:alias-address", subs=[sub("forward.py","  qpos_adr = jnt_qposadr[jntid]\n  dof_adr = jnt_dofadr[jntid]\n","  qpos_address = jnt_qposadr[jntid]\n  qpos_adr = qpos_address\n  dof_adr = jnt_dofadr[jntid]\n")]),
 dict(id="ref:row-guard-negated", subs=[sub("constraint.py","    if efcid >= njmax_in:\n      return\n","    if not (efcid < njmax_in):\n      return\n", nth=0)]),
 dict(id="ref:done-via-local", subs=[sub("solver.py","    worldid, efcid = wp.tid()\n\n    if ctx_done_in[worldid]:\n      return\n","    worldid, efcid = wp.tid()\n\n    done = ctx_done_in[worldid]\n    if done:\n      return\n", nth=0)]),
 dict(id="ref:flag-helper", subs=[sub("passive.py","  dsbl_spring = m.opt.disableflags & DisableBit.SPRING\n  dsbl_damper = m.opt.disableflags & DisableBit.DAMPER\n","  dsbl_spring = _disabled(m, DisableBit.SPRING)\n  dsbl_damper = _disabled(m, DisableBit.DAMPER)\n"), sub("passive.py","@event_scope\ndef passive(m: Model, d: Data):","def _disabled(m: Model, bit: int):\n  return m.opt.disableflags & bit\n\n\n@event_scope\ndef passive(m: Model, d: Data):")]),
 dict(id="ref:launch-inputs-local", subs=[sub("smooth.py","  wp.launch(\n    _cam_local_to_global,\n    dim=(d.nworld, m.ncam),\n    inputs=[","  cam_dim = (d.nworld, m.ncam)\n  wp.launch(\n    _cam_local_to_global,\n    dim=cam_dim,\n    inputs=[")]),
 dict(id="ref:world-modulo-helper-local", subs=[sub("passive.py","    force = -gravity * body_mass[worldid % body_mass.shape[0], bodyid] * gravcomp","    mass_row = worldid % body_mass.shape[0]\n    force = -gravity * body_mass[mass_row, bodyid] * gravcomp")]),
]
R+=[
 dict(id="ref:clear-via-helper", subs=[sub("solver.py","  d.cJ.zero_()\n","  _clear_compact_jacobian(d)\n"), sub("solver.py","def _compact_gather(","def _clear_compact_jacobian(d: types.Data):\n  d.cJ.zero_()\n\n\ndef _compact_gather(")]),
 dict(id="ref:counter-zero-order", subs=[sub("collision_driver.py","  d.ncollision.zero_()\n  if not incremental:\n    d.nacon.zero_()\n","  if not incremental:\n    d.nacon.zero_()\n  d.ncollision.zero_()\n")]),
 dict(id="ref:scratch-zeros-like", subs=[sub("set_const.py","    dof_M0 = wp.zeros((d.nworld, m.nv), dtype=float)","    dof_M0 = wp.zeros_like(d.qvel)")]),
 dict(id="ref:inverse-local-flag", subs=[sub("inverse.py","    if m.opt.disableflags & (DisableBit.EULERDAMP | DisableBit.DAMPER):","    no_implicit_damping = m.opt.disableflags & (DisableBit.EULERDAMP | DisableBit.DAMPER)\n    if no_implicit_damping:")]),
]
props=[c["property_id"] for c in json.load(open('/verif/MANIFEST.json'))["checks"]]
only=sys.argv[1:]
R=[r for r in R if not only or any(o in r['id'] for o in only)]
work=[(p,{"id":"__base__","subs":[]},"/repo") for p in props]+[(p,r,"/repo") for r in R for p in props]
with mp.get_context("fork").Pool(16, maxtasksperchild=1) as pool:
  res=pool.map(selftest._run_one, work, chunksize=1)
base={}
for (p,e,_),(eid,st,keys,note) in zip(work,res):
  if eid=="__base__": base[p]=set(keys)
bad=0
for (p,e,_),(eid,st,keys,note) in zip(work,res):
  if eid=="__base__": continue
  ks=[k for k in keys if k not in base[p]]
  if st=="skipped": print("SKIP",eid,p,note); 
  elif ks: bad+=1; print("ALARM",eid,p,ks[:2])
print("refactors:",len(R),"false alarms:",bad)
