#!/bin/sh
# tools/refactor_ingest.sh <RFid> -- copy the agent's behaviour-preserving patches into /verif/refactors/<id>/, remove its
# worktree, and run every check against each patch (scratch worktrees). Prints the checks that fire (= false alarms to fix).
ID="$1"
SRC=/tmp/refac_out/$ID
DST=/verif/refactors/$ID
mkdir -p "$DST"
cp "$SRC"/patch*.diff "$SRC"/notes.md "$SRC"/check_equal.py "$DST"/ 2>/dev/null
git -C /repo worktree remove --force /tmp/refwt_$ID >/dev/null 2>&1
rm -rf /tmp/refwt_$ID
for p in "$DST"/patch*.diff; do
  if ! git -C /repo apply --check "$p" 2>/dev/null; then echo "== $p DOES NOT APPLY"; continue; fi
  echo "== $p"
  /verif/tools/all_on_patch.sh "$p" 2>&1 | grep -v "^WARNING" | cut -c1-420
done
