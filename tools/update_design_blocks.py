#!/usr/bin/env python3
"""Refresh the generated blocks of DESIGN.md (catch matrix, self-test catalogue listing)."""
import os, re, sys
V = os.path.dirname(os.path.dirname(os.path.abspath(__file__)))
sys.path.insert(0, V)
from mjwstatic.tables.selftest_catalogue import MUTANTS, REFACTORS
p = os.path.join(V, "DESIGN.md")
s = open(p).read()
cm = open(os.path.join(V, "seeded", "CATCH_MATRIX.md")).read().strip()
rows = [l for l in cm.splitlines()[2:]]
caught = sum(1 for l in rows if "**missed**" not in l)
block = f"{caught} of {len(rows)} seeded changes are reported by at least one check.\n\n{cm}\n"
s = re.sub(r"<!-- CATCH-MATRIX-BEGIN -->.*?<!-- CATCH-MATRIX-END -->", "<!-- CATCH-MATRIX-BEGIN -->\n" + block + "<!-- CATCH-MATRIX-END -->", s, flags=re.S)
lines = ["| entry | file | must fire in | must stay silent in |", "|---|---|---|---|"]
for e in MUTANTS + REFACTORS:
  lines.append(f"| {e['id']} | {', '.join(sorted({x['file'].split('/')[-1] for x in e['subs']})) if 'subs' in e else e['patch']} | {', '.join(e.get('fire', []))} | {', '.join(e.get('silent', []))} |")
s = re.sub(r"<!-- SELFTEST-CATALOGUE-BEGIN -->.*?<!-- SELFTEST-CATALOGUE-END -->", "<!-- SELFTEST-CATALOGUE-BEGIN -->\n" + "\n".join(lines) + "\n<!-- SELFTEST-CATALOGUE-END -->", s, flags=re.S)
open(p, "w").write(s)
print("DESIGN.md blocks refreshed:", caught, "/", len(rows), "caught;", len(MUTANTS), "mutants,", len(REFACTORS), "refactors")
