#!/usr/bin/env python3
"""tools/confirm_seeded.py <seeded-id> [--jobs N] [--no-suite]

Confirms a seeded change in a scratch worktree of /repo (never in /repo itself):
  1. patch applies to HEAD;  2. demo fails WITH the change;  3. the pinned test-suite command
  still passes every stable-pass test WITH the change;  4. demo passes WITHOUT the change.
Writes seeded/<id>/meta.json. The worktree and its build output are removed afterwards.
"""
import json, os, subprocess, sys, tempfile, shutil, time, re

VERIF = os.path.dirname(os.path.dirname(os.path.abspath(__file__)))


def sh(cmd, cwd=None, env=None, timeout=None):
  p = subprocess.run(cmd, shell=True, cwd=cwd, env=env, stdout=subprocess.PIPE, stderr=subprocess.STDOUT, text=True, timeout=timeout)
  return p.returncode, p.stdout


def main():
  sid = sys.argv[1]
  jobs = 8
  suite = True
  if "--jobs" in sys.argv:
    jobs = int(sys.argv[sys.argv.index("--jobs") + 1])
  if "--no-suite" in sys.argv:
    suite = False
  sdir = os.path.join(VERIF, "seeded", sid)
  patch = os.path.join(sdir, "patch.diff")
  demo = os.path.join(sdir, "demo.py")
  meta_path = os.path.join(sdir, "meta.json")
  meta = {}
  if os.path.exists(meta_path):
    meta = json.load(open(meta_path))
  wt = tempfile.mkdtemp(prefix=f"confirm_{sid}_", dir="/tmp")
  head = sh("git -C /repo rev-parse --short HEAD")[1].strip()
  sh(f"git -C /repo worktree add --detach {wt} HEAD")
  env = dict(os.environ, PYTHONPATH=wt, PYTHONDONTWRITEBYTECODE="1")
  ran = []
  try:
    rc, out = sh(f"git -C {wt} apply {patch}")
    if rc != 0:
      print("PATCH DOES NOT APPLY", out)
      meta["confirmed"] = False
      meta["confirm_error"] = "patch does not apply to " + head
      return 1
    t0 = time.time()
    rc_with, out_with = sh(f"/venv/bin/python {demo}", cwd=wt, env=env, timeout=3600)
    ran.append({"cmd": f"cd <worktree+patch> && PYTHONPATH=<worktree> /venv/bin/python seeded/{sid}/demo.py", "exit": rc_with, "tail": out_with.strip().splitlines()[-6:], "seconds": round(time.time() - t0)})
    suite_res = None
    if suite:
      t0 = time.time()
      junit = os.path.join(wt, "junit.xml")
      rc_s, out_s = sh(
        f"/venv/bin/python -m pytest -ra -q -p no:cacheprovider --timeout=900 --continue-on-collection-errors -n {jobs} --junitxml={junit}",
        cwd=wt, env=env, timeout=4 * 3600,
      )
      rc_c, out_c = sh(f"python3 {VERIF}/tools/compare_baseline.py {junit}")
      summary = [l for l in out_s.strip().splitlines() if re.search(r"\d+ passed", l)][-1:]
      suite_res = {"cmd": f"cd <worktree+patch> && /venv/bin/python -m pytest -ra -q -p no:cacheprovider --timeout=900 --continue-on-collection-errors -n {jobs} --junitxml=...; tools/compare_baseline.py", "pytest_summary": summary, "baseline_compare": out_c.strip().splitlines()[:12], "stable_pass_intact": rc_c == 0, "seconds": round(time.time() - t0)}
      ran.append(suite_res)
    sh(f"git -C {wt} checkout -- .")
    t0 = time.time()
    rc_without, out_without = sh(f"/venv/bin/python {demo}", cwd=wt, env=env, timeout=3600)
    ran.append({"cmd": f"cd <worktree clean> && PYTHONPATH=<worktree> /venv/bin/python seeded/{sid}/demo.py", "exit": rc_without, "tail": out_without.strip().splitlines()[-4:], "seconds": round(time.time() - t0)})
    ok = rc_with != 0 and rc_without == 0 and (suite_res is None or suite_res["stable_pass_intact"])
    meta.update({
      "id": sid,
      "property": sid.split("_")[0],
      "repo_head": head,
      "confirmed": bool(ok) and suite_res is not None,
      "demo_fails_with_change": rc_with != 0,
      "demo_passes_without_change": rc_without == 0,
      "suite_stable_pass_intact_with_change": None if suite_res is None else suite_res["stable_pass_intact"],
      "ran": ran,
    })
    print(sid, "confirmed" if ok else "NOT CONFIRMED", "demo_with=", rc_with, "demo_without=", rc_without, "suite=", None if suite_res is None else suite_res["stable_pass_intact"])
    return 0 if ok else 1
  finally:
    with open(meta_path, "w") as f:
      json.dump(meta, f, indent=1)
    sh(f"git -C /repo worktree remove --force {wt}")
    shutil.rmtree(wt, ignore_errors=True)


if __name__ == "__main__":
  sys.exit(main())
