#!/bin/sh
# tools/ingest_seed.sh <seed-id> : take a sub-agent's deliverables from /tmp/seed_out/<id>, drop its worktree,
# confirm the change in a fresh scratch worktree (meta.json), and run every check against it.
ID="$1"
SRC=/tmp/seed_out/$ID
DST=/verif/seeded/$ID
mkdir -p "$DST"
for f in patch.diff demo.py notes.md; do cp "$SRC/$f" "$DST/$f" || exit 3; done
git -C /repo worktree remove --force /tmp/seedwt_$ID >/dev/null 2>&1
rm -rf /tmp/seedwt_$ID
python3 /verif/tools/confirm_seeded.py "$ID" --jobs 8
echo "--- checks that fire on $ID:"
/verif/tools/all_on_patch.sh "$DST/patch.diff" 8
