#!/bin/sh
# tools/robust_shift.sh : every check must give the same verdict when all line numbers shift and kernels get extra comments
WT=$(mktemp -d /tmp/shift.XXXXXX)
mkdir -p $WT/mujoco_warp
cp -r /repo/mujoco_warp/_src $WT/mujoco_warp/_src 2>/dev/null
cp /repo/mujoco_warp/__init__.py $WT/mujoco_warp/
rm -rf $WT/mujoco_warp/_src/__pycache__
for f in $WT/mujoco_warp/_src/*.py; do
  python3 - "$f" <<'PY'
import sys,re
p=sys.argv[1]
s=open(p).read()
# shift lines: 3 comment lines after the license header's first line, and a comment before every top-level def
s=re.sub(r"(?m)^(def |@wp\.kernel|@wp\.func|@cache_kernel|@event_scope)", r"# shifted\n\1", s)
open(p,'w').write("# line shift 1\n# line shift 2\n"+s)
PY
done
cd /verif
mkdir -p $WT.ev
python3 -c "
import json
for c in json.load(open('/verif/MANIFEST.json'))['checks']: print(c['property_id'])" | xargs -P 8 -I{} sh -c "VERIF_EVIDENCE_DIR=$WT.ev VERIF_REPLAY_DIR=$WT.ev/replay ./check {} --repo $WT > $WT.ev/{}.log 2>&1; echo \"{} exit=\$? \$(tail -1 $WT.ev/{}.log | cut -c1-100)\"" | sort
rm -rf $WT $WT.ev
