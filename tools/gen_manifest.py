#!/usr/bin/env python3
"""Regenerate /verif/MANIFEST.json from the per-property table below (keeps it valid at all times)."""
import json
import os
import sys

HERE = os.path.dirname(os.path.dirname(os.path.abspath(__file__)))
sys.path.insert(0, HERE)
from mjwstatic.manifest_data import CLAIMED, NOT_APPLICABLE, PENDING  # noqa: E402

props = [json.loads(l)["id"] for l in open(os.path.join(HERE, "properties.jsonl"))]
checks = []
for pid in props:
  if pid not in CLAIMED:
    continue
  c = CLAIMED[pid]
  checks.append(
    {
      "property_id": pid,
      "quick_cmd": f"./check {pid} --tier quick",
      "thorough_cmd": f"./check {pid} --tier thorough",
      "evidence_file": f"/verif/evidence/{pid}.json",
      "replay_cmd_template": f"./check {pid} --replay {{path}}",
      "engine": "mjwstatic",
      "level_claimed": {"category": "other", "text": c["text"], "design_ref": c.get("design_ref", "DESIGN.md section 4")},
      "level_note": c["note"],
      "technique": c["technique"],
    }
  )
na = []
for pid in props:
  if pid in CLAIMED:
    continue
  if pid in NOT_APPLICABLE:
    na.append({"property_id": pid, "reason": NOT_APPLICABLE[pid]})
  else:
    na.append({"property_id": pid, "reason": PENDING.get(pid, "static check planned in DESIGN.md but not implemented in this revision; not claimed")})
manifest = {
  "version": 1,
  "setup_cmd": "python3 -B -c \"import ast, sys; sys.path.insert(0, '/verif'); import mjwstatic.cli\"",
  "hooks": {
    "guard": "MUJOCO_WARP_VERIF",
    "enable": "none needed: every check is a static analysis of /repo's working tree; nothing is built or executed, so no hook is compiled in",
    "baseline_off_cmd": "cd /repo && /venv/bin/python -m pytest -ra -q -p no:cacheprovider --timeout=900 --continue-on-collection-errors",
    "source_commits": [],
    "add_only": True,
  },
  "engines": [
    {
      "name": "mjwstatic",
      "path": "/verif/mjwstatic",
      "serves_properties": sorted(CLAIMED),
      "kind_free_text": "repository-specific static analyser (python ast): source model of types.py schema, symbolic evaluator of Warp kernels/funcs producing resolved array accesses with path conditions, host abstract interpreter resolving every wp.launch and producing ordered effect traces; rules R-WORLD/R-BATCH/R-CAP/R-BIND/R-LIVE/... over that IR",
    }
  ],
  "checks": checks,
  "notes": "All checks are static: they parse /repo's current working tree on every run, never import or execute mujoco_warp. Exit 0 = property clause held (KNOWN-FINDING lines list recorded genuine defects), 1 = VIOLATION, 2 = ANALYSIS-ERROR (analyser lost sight of the code; fail closed).",
  "not_applicable": na,
}
with open(os.path.join(HERE, "MANIFEST.json"), "w") as f:
  json.dump(manifest, f, indent=1)
print("claimed", len(checks), "not_applicable", len(na))
