#!/usr/bin/env python3
"""tools/catch_matrix.py [--jobs N] : run every claimed check against every seeded change (scratch copies, static only)
and write seeded/CATCH_MATRIX.json + seeded/CATCH_MATRIX.md."""
import json, os, sys, multiprocessing as mp
sys.path.insert(0, os.path.dirname(os.path.dirname(os.path.abspath(__file__))))
sys.setrecursionlimit(10000)
from mjwstatic import selftest

VERIF = selftest.VERIF


def main():
  jobs = 16
  if "--jobs" in sys.argv:
    jobs = int(sys.argv[sys.argv.index("--jobs") + 1])
  props = [c["property_id"] for c in json.load(open(os.path.join(VERIF, "MANIFEST.json")))["checks"]]
  seeds = sorted(d for d in os.listdir(os.path.join(VERIF, "seeded")) if os.path.isfile(os.path.join(VERIF, "seeded", d, "patch.diff")))
  only = [a for a in sys.argv[1:] if a in seeds]
  if only:
    seeds = only
  work = [(p, {"id": "__base__", "subs": []}, "/repo") for p in props] + [(p, {"id": s, "patch": f"seeded/{s}/patch.diff"}, "/repo") for s in seeds for p in props]
  with mp.get_context("fork").Pool(jobs, maxtasksperchild=1) as pool:
    results = pool.map(selftest._run_one, work, chunksize=1)
  base = {}
  # base run on the unchanged tree to subtract (should be empty)
  matrix = {s: {} for s in seeds}
  for (p, e, _), (eid, status, keys, note) in zip(work, results):
    if eid == "__base__":
      base[p] = set(keys)
  for (p, e, _), (eid, status, keys, note) in zip(work, results):
    if eid == "__base__":
      continue
    keys = [k for k in keys if k not in base.get(p, ())]
    if status == "skipped":
      matrix[eid][p] = "SKIP:" + note
    elif keys:
      matrix[eid][p] = keys[:3]
  path = os.path.join(VERIF, "seeded", "CATCH_MATRIX.json")
  old = {}
  if only and os.path.exists(path):
    old = json.load(open(path))
  old.update(matrix)
  json.dump(old, open(path, "w"), indent=1, sort_keys=True)
  lines = ["| seeded change | own property | caught by | first finding |", "|---|---|---|---|"]
  for s in sorted(old):
    row = old[s]
    fired = [p for p, v in row.items() if isinstance(v, list)]
    first = (row[fired[0]][0] if fired else "").replace("|", "\\|")[:110]
    lines.append(f"| {s} | {s.split('_')[0]} | {', '.join(fired) if fired else '**missed**'} | {first} |")
  open(os.path.join(VERIF, "seeded", "CATCH_MATRIX.md"), "w").write("\n".join(lines) + "\n")
  caught = sum(1 for s in old if any(isinstance(v, list) for v in old[s].values()))
  print(f"{caught}/{len(old)} seeded changes caught")
  for s in sorted(old):
    fired = [p for p, v in old[s].items() if isinstance(v, list)]
    print(s, "->", ",".join(fired) if fired else "MISSED")


if __name__ == "__main__":
  main()
