#!/bin/sh
# usage: all_on_patch.sh <patch> -> runs all claimed checks on scratch worktree
PATCH="$1"
WT=$(mktemp -d /tmp/trypatch.XXXXXX)
git -C /repo worktree add --detach "$WT" HEAD >/dev/null 2>&1
trap 'git -C /repo worktree remove --force "$WT" >/dev/null 2>&1; rm -rf "$WT.ev"' EXIT
git -C "$WT" apply "$PATCH" || exit 3
mkdir -p "$WT.ev"
cd /verif
python3 -c "
import json
for c in json.load(open('/verif/MANIFEST.json'))['checks']: print(c['property_id'])" | xargs -P 8 -I{} sh -c "VERIF_EVIDENCE_DIR=$WT.ev VERIF_REPLAY_DIR=$WT.ev/replay ./check {} --repo $WT > $WT.ev/{}.log 2>&1; echo \"{} exit=\$?\"" | sort | grep -v "exit=0" | tr '\n' ' '
echo
grep -h -A1 "^VIOLATION" $WT.ev/*.log | grep -v "^VIOLATION" | grep -v "^--" | cut -c1-250 | head -${2:-6}
