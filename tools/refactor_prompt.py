#!/usr/bin/env python3
"""tools/refactor_prompt.py <id> "<area description>" -- create a scratch worktree and print a sub-agent prompt asking for
behaviour-preserving refactors (used to test the checks for false alarms). Nothing from /verif is given to the agent."""
import os, subprocess, sys
rid, area = sys.argv[1], sys.argv[2]
wt = f"/tmp/refwt_{rid}"
out = f"/tmp/refac_out/{rid}"
os.makedirs(out, exist_ok=True)
if not os.path.exists(wt):
  subprocess.run(f"git -C /repo worktree add --detach {wt} HEAD", shell=True, check=True, stdout=subprocess.DEVNULL, stderr=subprocess.DEVNULL)
print(f"""You are helping to evaluate a verification tool for the open-source project google-deepmind/mujoco_warp (MuJoCo Warp: a GPU-batched rigid-body physics simulator written as NVIDIA Warp kernels in Python). The tool must stay silent on correct code, so your job is to produce realistic BEHAVIOUR-PRESERVING changes: the kind of refactors, clean-ups and micro-optimisations a maintainer would merge, which do not change any result for any model, state, option combination, world count, thread schedule or call history.

YOUR WORKSPACE
- Your own scratch git worktree of the library: {wt} (detached HEAD). Work ONLY there. Never read or modify /repo or /verif, never use `git stash` (shared across worktrees), never commit.
- Python with all dependencies (mujoco, warp on CPU): /venv/bin/python. Always run as `cd {wt} && PYTHONPATH={wt} /venv/bin/python ...`. TRAP: never run python with the current directory inside mujoco_warp/_src (its types.py/math.py/io.py shadow the standard library).
- No network. CPU only.
- Test-suite: `cd {wt} && PYTHONPATH={wt} /venv/bin/python -m pytest -q -p no:cacheprovider -n 6 --timeout=900 mujoco_warp` (about 3-5 minutes). On the unmodified tree exactly 33 tests fail (flex_test parity24-47, constraint_test test_constraints8-11, collision_driver_test test_collision20, io_test test_get_data_into_io_test_models18/19/22/23) and 1255 pass.

WHAT TO PRODUCE
FIVE independent patches (each applies on its own to the unmodified HEAD), all in this area: {area}
Only non-test files under mujoco_warp/_src/. Each patch should be 5-60 changed lines and of a DIFFERENT kind. Kinds to draw from (use at least four different ones):
  - restructure a kernel's control flow without changing what it computes (if/else <-> early return/continue, nested ifs <-> `and`, negated guards, `wp.where` <-> if/else, merging or splitting branches, loop fusion or fission, hoisting a loop-invariant load or address computation into a local);
  - extract a helper (@wp.func or host function), or inline one; move a kernel into a @cache_kernel-style factory or out of one; rename kernels, parameters (keeping the repo's `_in`/`_out` naming convention for Data arrays) or locals;
  - reorder independent statements, independent launches or independent kernel arguments (consistently at the kernel signature and at every launch);
  - replace a host-side idiom by an equivalent (`zero_()` <-> `fill_(0)`, `wp.zeros` + launch <-> launch that writes every cell, tuple dims via a local, a flag test via a local boolean or a small helper, `a and b` nesting, `dataclasses.replace` ordering);
  - change the thread decomposition of a kernel in a way that provably writes the same cells with the same values (e.g. one launch over (nworld, n) instead of a loop over n inside a launch over nworld - only where no thread reads what another writes), or fuse two launches that touch disjoint outputs;
  - algebraically identical index arithmetic (e.g. `adr + i * dim + d` via a hoisted base), equivalent comparisons (`not (a < b)` for `a >= b` on integers), equivalent bit tests.
The changes must be REAL refactors of existing simulation code (not comments, not dead code, not test or benchmark code), and must be bit-for-bit behaviour preserving on CPU (no floating-point re-association: do not reorder float additions or replace a*b+c forms).

VERIFY each patch by running the tests of the files you touched plus at least the full test-suite ONCE with all five patches applied together (same 1255 passing, same 33 failing). Also write one script check_equal.py that, for the unmodified tree and for the tree with all five patches, runs a few steps on two or three of the repository's test models that exercise your area (see mujoco_warp/test_data) with nworld=2 and prints a digest (e.g. sha256 of the concatenated float arrays qpos, qvel, qacc, sensordata, efc.force[:nefc], contact.dist[:nacon]); the digests must be identical with and without the patches - run it both ways and report.

DELIVERABLES in {out}/ : patch1.diff ... patch5.diff (each produced with `git -C {wt} diff` from a clean tree with only that change, each must apply with `git apply` to the unmodified HEAD), check_equal.py, notes.md (one paragraph per patch: what kind, why it cannot change behaviour; the commands you ran and their results). Leave the worktree with all five applied. Your final message: a 6-10 line summary (the five patches in one line each, test-suite result, digest comparison). Confirm by actually running everything - do not guess.
""")
