#!/usr/bin/env python3
"""Regenerate tables/dispatch_baseline (run only on a tree whose dispatch was confirmed by reading)."""
import os, sys, pprint
HERE = os.path.dirname(os.path.dirname(os.path.abspath(__file__)))
sys.path.insert(0, HERE)
from mjwstatic.srcmodel import SourceModel
from mjwstatic.rules.r_dispatch import member_refs, area_of
sm = SourceModel(sys.argv[1] if len(sys.argv) > 1 else '/repo')
refs = member_refs(sm)
out = {}
for e, members in sm.enums.items():
  out[e] = {}
  for mem in members:
    out[e][mem] = sorted({area_of(m) for m in refs.get((e, mem), {})})
print("BASELINE = " + pprint.pformat(out, width=150, sort_dicts=False))
