#!/bin/sh
# tools/run_all_thorough.sh : every claimed check in the thorough tier (4 at a time; each uses up to 16 workers briefly)
cd /verif
python3 - <<PY | xargs -P 3 -I{} sh -c './check {} --tier thorough > /tmp/runall_t_{}.log 2>&1; echo "{} exit=$? $(tail -1 /tmp/runall_t_{}.log)"' | sort
import json
for c in json.load(open('/verif/MANIFEST.json'))['checks']: print(c['property_id'])
PY
