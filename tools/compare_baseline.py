#!/usr/bin/env python3
"""Compare a junit xml produced by the baseline command with /root/.vp/BASELINE.json stable_pass."""
import json, sys, xml.etree.ElementTree as ET
base = json.load(open('/root/.vp/BASELINE.json'))
stable = set(base['stable_pass'])
tree = ET.parse(sys.argv[1])
res = {}
for tc in tree.iter('testcase'):
  name = f"{tc.get('classname')}::{tc.get('name')}"
  bad = any(ch.tag in ('failure', 'error') for ch in tc)
  skipped = any(ch.tag == 'skipped' for ch in tc)
  res[name] = 'fail' if bad else 'skip' if skipped else 'pass'
missing = [n for n in stable if n not in res]
broken = [n for n in stable if res.get(n) not in ('pass',) and n in res]
print('stable', len(stable), 'passed', sum(1 for n in stable if res.get(n) == 'pass'), 'broken', len(broken), 'missing', len(missing))
for n in broken[:40]: print('BROKEN', n, res[n])
for n in missing[:10]: print('MISSING', n)
sys.exit(1 if broken or missing else 0)
