"""Thorough-tier self-test: the checker is run against mutated scratch copies of the analysed sources.

Every catalogue entry is either
  * a *seeded change* (seeded/<id>/patch.diff - written independently by a sub-agent from the property text alone and
    confirmed against the real code: demo fails with it, passes without it, test-suite intact), or
  * a *substitution mutant* (one textual replacement, applied only if the pattern is found exactly once), or
  * a *behaviour-preserving refactor* (same mechanics) that must stay silent.

Scratch copies contain only the parsed sources (mujoco_warp/**/*.py), live under $TMPDIR (never in /repo or /verif) and
are removed as soon as the verdict is known. Nothing is executed from them: the same static rules are applied.

Verdicts:  fire-entry whose new findings == base findings  -> the checker missed a known break  -> ANALYSIS-ERROR (exit 2)
           silent-entry with extra new findings             -> the checker alarms on a refactor  -> ANALYSIS-ERROR (exit 2)
           pattern / patch no longer applies (tree changed)  -> skipped, listed in the evidence
"""

from __future__ import annotations

import importlib
import os
import shutil
import subprocess
import tempfile
from typing import Dict, List, Optional, Tuple

VERIF = os.path.dirname(os.path.dirname(os.path.abspath(__file__)))


def _copy_sources(repo: str) -> str:
  dst = tempfile.mkdtemp(prefix="mjwselftest_")
  src_pkg = os.path.join(repo, "mujoco_warp")
  for root, dirs, files in os.walk(src_pkg):
    dirs[:] = [d for d in dirs if d not in ("__pycache__", "test_data")]
    rel = os.path.relpath(root, repo)
    os.makedirs(os.path.join(dst, rel), exist_ok=True)
    for f in files:
      if f.endswith(".py"):
        shutil.copy2(os.path.join(root, f), os.path.join(dst, rel, f))
  return dst


def _apply(entry: dict, scratch: str) -> Optional[str]:
  """Apply the mutation; return None on success or the reason it does not apply."""
  if "patch" in entry:
    p = os.path.join(VERIF, entry["patch"])
    r = subprocess.run(["patch", "-p1", "--forward", "--silent", "--no-backup-if-mismatch", "-i", p], cwd=scratch, capture_output=True, text=True)
    if r.returncode != 0:
      return "patch does not apply to the current tree"
    return None
  for sub in entry["subs"]:
    path = os.path.join(scratch, sub["file"])
    if not os.path.exists(path):
      return f"{sub['file']} missing"
    s = open(path).read()
    c = s.count(sub["old"])
    nth = sub.get("nth")
    if c == 0 or (c > 1 and nth is None):
      return f"pattern occurs {c} times in {sub['file']}"
    if nth is None:
      s = s.replace(sub["old"], sub["new"])
    else:
      parts = s.split(sub["old"])
      if nth >= c:
        return "nth out of range"
      s = sub["old"].join(parts[: nth + 1]) + sub["new"] + sub["old"].join(parts[nth + 1 :])
    try:
      compile(s, path, "exec")
    except SyntaxError as e:
      return f"mutant does not parse: {e}"
    open(path, "w").write(s)
  return None


def _run_one(args) -> Tuple[str, str, List[str], str]:
  from .bigframe import run as _run_big

  return _run_big(_run_one_inner, args)


def _run_one_inner(args) -> Tuple[str, str, List[str], str]:
  """(entry id, status, new finding keys, note) - executed in a worker process."""
  prop, entry, repo = args
  import gc

  gc.disable()
  import sys

  sys.setrecursionlimit(10000)
  from .db import DB
  from .report import Result, classify

  scratch = _copy_sources(repo)
  try:
    why = _apply(entry, scratch)
    if why is not None:
      return entry["id"], "skipped", [], why
    try:
      mod = importlib.import_module(f".props.{prop.lower()}", __package__)
      res = Result(prop, "quick")
      mod.run(DB(scratch), res, "quick")
      new, _ = classify(res)
      keys = sorted(f.key() for f in new)
      if res.errors:
        keys.append("ANALYSIS-ERROR:" + res.errors[0][:120])
      return entry["id"], "ran", keys, ""
    except Exception as e:  # noqa: BLE001 - an analysis error on a mutant counts as "noticed" (fail closed), reported as such
      return entry["id"], "ran", [f"ANALYSIS-ERROR:{type(e).__name__}:{str(e)[:120]}"], ""
  finally:
    shutil.rmtree(scratch, ignore_errors=True)


def entries_for(prop: str) -> List[dict]:
  from .tables.selftest_catalogue import CATALOGUE

  return [e for e in CATALOGUE if prop in e.get("fire", []) or prop in e.get("silent", [])]


def run_selftest(res, prop: str, repo: str, base_new_keys: List[str], jobs: int = 16) -> dict:
  """Run the catalogue entries of `prop`; record the outcome in res.extra and raise res.error on a wrong verdict."""
  import multiprocessing as mp

  entries = entries_for(prop)
  out = {"fired": [], "silent": [], "skipped": [], "missed": [], "false_alarm": []}
  if not entries:
    res.extra["selftest"] = {"entries": 0}
    return out
  base = set(base_new_keys)
  work = [(prop, e, repo) for e in entries]
  ctx = mp.get_context("fork")
  with ctx.Pool(min(jobs, len(work)), maxtasksperchild=1) as pool:  # fresh process per mutant: interned terms are never freed
    results = pool.map(_run_one, work, chunksize=1)
  by_id = {e["id"]: e for e in entries}
  for eid, status, keys, note in results:
    e = by_id[eid]
    extra = [k for k in keys if k not in base]
    if status == "skipped":
      out["skipped"].append({"id": eid, "why": note})
      continue
    if prop in e.get("fire", []):
      if extra:
        out["fired"].append({"id": eid, "findings": extra[:3]})
      else:
        out["missed"].append(eid)
        res.error(f"self-test: must-fire mutant {eid} was NOT reported by {prop} (the checker lost a detection it is known to have)")
    else:
      if extra:
        out["false_alarm"].append({"id": eid, "findings": extra[:3]})
        res.error(f"self-test: behaviour-preserving refactor {eid} was reported by {prop}: {extra[:2]} (false alarm)")
      else:
        out["silent"].append(eid)
  res.extra["selftest"] = {
    "entries": len(entries),
    "mutants_fired": len(out["fired"]),
    "refactors_silent": len(out["silent"]),
    "skipped": out["skipped"],
    "missed": out["missed"],
    "false_alarms": out["false_alarm"],
    "fired": out["fired"],
    "silent": out["silent"],
  }
  return out
