"""E2 - host abstract interpreter: launch resolution, argument binding and ordered effect traces.

Walks the (straight-line, python-level) host functions of mujoco_warp from an entry point,
inlining calls to other host functions of the package, and records an ordered list of events:

  launch   a wp.launch / wp.launch_tiled, resolved to its kernel with formal->actual bindings
  fill     x.zero_() / x.fill_(v)
  copy     wp.copy(dst, src)
  alloc    wp.zeros / wp.empty / wp.clone / ...
  ext      a Warp utility that reads/writes arrays (array_scan, sorts, ...)
  callback user callback invocation
  raise    an exception raised on this path
  enter/exit   host function boundaries (stage structure)

Each event carries its path condition: the host-level tests (canonical text, polarity) that
dominate it, the enclosing host loops and the call stack. Nothing is executed.
"""

from __future__ import annotations

import ast
import dataclasses
from typing import Any, Dict, List, Optional, Tuple

from .kir import dotted, parse_annotation, ParamInfo
from .srcmodel import AnalysisError, FuncInfo, SourceModel, unparse

OBJ_CLASSES = ("Model", "Data", "SolverContext", "InverseContext", "RenderContext", "Option", "Constraint", "Contact", "Statistic", "Callback", "BlockDim")
SUBOBJ = {("Model", "opt"): "Option", ("Model", "stat"): "Statistic", ("Data", "efc"): "Constraint", ("Data", "contact"): "Contact", ("Model", "callback"): "Callback", ("Model", "block_dim"): "BlockDim"}
ALLOCS = {"wp.zeros": "zeros", "wp.empty": "empty", "wp.clone": "clone", "wp.full": "full", "wp.ones": "ones", "wp.zeros_like": "zeros", "wp.empty_like": "empty", "wp.array": "array", "wp.full_like": "full", "wp.ones_like": "ones", "wp.from_numpy": "array"}


# ---------------------------------------------------------------------------- host values
class HV:
  text = "?"

  def __repr__(self):
    return f"<{type(self).__name__} {self.text}>"


class Obj(HV):
  def __init__(self, cls, text, root_cls=None, path="", overrides=None, base=None):
    self.cls, self.text = cls, text
    self.root_cls = root_cls or cls  # Model / Data for sub-objects
    self.path = path  # path prefix from the root object
    self.overrides: Dict[str, HV] = dict(overrides or {})
    self.base = base  # Obj this was dataclasses.replace()d from


class Field(HV):
  def __init__(self, owner, path, text, obj=None):
    self.owner, self.path, self.text, self.obj = owner, path, text, obj

  @property
  def key(self):
    if self.owner not in ("Model", "Data"):
      return f"ctx:{self.path.split('.')[-1]}"
    return f"{self.owner}.{self.path}"


class Temp(HV):
  def __init__(self, site, how, text, src=None, shape=None, fn="", ordinal=0):
    self.site, self.how, self.text, self.src, self.shape, self.fn = site, how, text, src, shape, fn
    self.var = None  # first local variable it is bound to
    self.ordinal = ordinal
    self.ctx_attr = None  # field name when allocated as a keyword of a context-object constructor

  @property
  def key(self):
    # stable across line shifts: function + variable name (or ordinal of the inline allocation)
    if self.ctx_attr:
      return f"ctx:{self.ctx_attr}"
    return f"temp:{self.fn}:{self.var or '#' + str(self.ordinal)}"


class View(HV):
  def __init__(self, base, text):
    self.base, self.text = base, text


class Const(HV):
  def __init__(self, v):
    self.v = v
    self.text = repr(v)


class EnumV(HV):
  def __init__(self, e, m):
    self.e, self.m = e, m
    self.text = f"{e}.{m}"


class Expr(HV):
  def __init__(self, text):
    self.text = text


class Func(HV):
  def __init__(self, fi: FuncInfo, env=None):
    self.fi = fi
    self.env = env  # defining environment (for nested defs)
    self.text = fi.key


class KernelV(HV):
  def __init__(self, fi: FuncInfo, static_vals, closure_text, via=None):
    self.fi, self.static_vals, self.closure_text, self.via = fi, static_vals, closure_text, via
    self.text = fi.key + ("(" + ",".join(f"{k}={v}" for k, v in sorted(closure_text.items())) + ")" if closure_text else "")


class ListV(HV):
  def __init__(self, items):
    self.items = list(items)
    self.text = "[" + ", ".join(i.text for i in self.items) + "]"


class TupleV(ListV):
  pass


class Phi(HV):
  def __init__(self, alts):
    self.alts = alts
    self.text = "phi(" + " | ".join(a.text for a in alts) + ")"


class Mod(HV):
  def __init__(self, kind, name):
    self.kind, self.name = kind, name
    self.text = name


class Unknown(HV):
  def __init__(self, text):
    self.text = text


def root_array(v: HV) -> HV:
  while isinstance(v, View):
    v = v.base
  return v


def hv_key(v: HV) -> str:
  v = root_array(v)
  if isinstance(v, (Field, Temp)):
    return v.key
  return "?" + v.text


# ---------------------------------------------------------------------------- events
@dataclasses.dataclass
class Event:
  kind: str
  pc: tuple  # ((text, polarity), ...)
  loops: tuple
  stack: tuple  # function keys
  loc: str
  seq: int = 0
  # launch
  kernel: Optional[KernelV] = None
  bindings: Optional[List[Tuple[ParamInfo, HV]]] = None
  dim: Optional[List[HV]] = None
  tiled: bool = False
  arity_ok: bool = True
  nin: int = 0
  # fill / copy / alloc / ext
  dst: Optional[HV] = None
  src: Optional[HV] = None
  value: Optional[HV] = None
  name: str = ""
  args: Optional[list] = None

  def where(self):
    return f"{self.loc} in {self.stack[-1] if self.stack else '?'}"


class _Ret(Exception):
  pass


class HostInterp:
  def __init__(self, sm: SourceModel, config: Optional[Dict[str, Any]] = None, max_depth=40, shallow=False):
    self.sm = sm
    self.shallow = shallow  # do not inline host functions that launch kernels (per-function launch resolution)
    self.config = dict(config or {})  # canonical condition text -> bool (specialisation)
    self.events: List[Event] = []
    self.unknown_calls: Dict[str, int] = {}
    self.unresolved_launches: List[str] = []
    self.notes: List[str] = []
    self._stack: List[str] = []
    self._loops: List[str] = []
    self._loop_n = 0
    self.max_depth = max_depth
    self._temp_n = 0
    self._fn_alloc_n: Dict[str, int] = {}

  # ------------------------------------------------------------------ entry
  def run(self, key: str, args: Optional[Dict[str, HV]] = None, **lit):
    fi = self.sm.func(key)
    env = {}
    for a in fi.params:
      ann = unparse(a.annotation) if a.annotation is not None else ""
      cls = ann.split(".")[-1]
      if args and a.arg in args:
        env[a.arg] = args[a.arg]
      elif a.arg in lit:
        env[a.arg] = Const(lit[a.arg])
      elif cls in OBJ_CLASSES:
        env[a.arg] = Obj(cls, a.arg)
      elif self.shallow:
        env[a.arg] = Expr(a.arg)  # entry parameters are unknown: explore every branch
    if self.shallow:
      for a in fi.node.args.kwonlyargs:
        env.setdefault(a.arg, Expr(a.arg))
    self._bind_defaults(fi, env)
    self._call_body(fi, env, (), f"{fi.file}:{fi.node.lineno}")
    return self

  def _bind_defaults(self, fi, env):
    params = fi.params
    defaults = fi.node.args.defaults
    for i, p in enumerate(params):
      if p.arg not in env and i >= len(params) - len(defaults):
        dn = defaults[i - (len(params) - len(defaults))]
        env[p.arg] = self._expr(dn, {}, fi, ())
    for p, dn in zip(fi.node.args.kwonlyargs, fi.node.args.kw_defaults):
      if p.arg not in env and dn is not None:
        env[p.arg] = self._expr(dn, {}, fi, ())
    for p in params:
      if p.arg not in env:
        ann = unparse(p.annotation) if p.annotation is not None else ""
        cls = ann.split(".")[-1]
        if cls in OBJ_CLASSES:
          env[p.arg] = Obj(cls, p.arg)
        else:
          env[p.arg] = Expr(p.arg)

  def _emit(self, kind, pc, loc, **kw):
    ev = Event(kind, pc, tuple(self._loops), tuple(self._stack), loc, len(self.events), **kw)
    self.events.append(ev)
    return ev

  def _call_body(self, fi: FuncInfo, env, pc, loc) -> HV:
    if fi.key in self._stack or len(self._stack) > self.max_depth:
      self.notes.append(f"recursion/depth at {fi.key}")
      return Unknown("recursion")
    self._stack.append(fi.key)
    self._emit("enter", pc, loc, name=fi.key)
    rets: List[Tuple[tuple, HV]] = []
    self._block(fi.node.body, env, fi, pc, rets)
    self._emit("exit", pc, loc, name=fi.key)
    self._stack.pop()
    vals = [v for _, v in rets if v is not None]
    if not vals:
      return Const(None)
    if len(vals) == 1:
      return vals[0]
    return self._join(vals)

  # ------------------------------------------------------------------ statements
  def _block(self, stmts, env, fi, pc, rets) -> List[Tuple[str, tuple]]:
    exits = []
    extra = ()
    for st in stmts:
      new = self._stmt(st, env, fi, pc + extra, rets)
      dead = False
      for kind, conj in new:
        exits.append((kind, extra + conj))
        if not conj:
          dead = True
        elif len(conj) == 1:
          extra = extra + ((conj[0][0], not conj[0][1]),)
        else:
          extra = extra + (("all(" + " and ".join(("" if p else "not ") + t for t, p in conj) + ")", False),)
      if dead:
        break
    return exits

  def _stmt(self, st, env, fi, pc, rets):
    loc = f"{fi.file}:{st.lineno}"
    if isinstance(st, ast.Expr):
      if not isinstance(st.value, ast.Constant):
        self._expr(st.value, env, fi, pc)
      return []
    if isinstance(st, ast.Assign):
      v = self._expr(st.value, env, fi, pc)
      for t in st.targets:
        self._assign(t, v, env, fi, pc, loc)
      return []
    if isinstance(st, ast.AnnAssign):
      if st.value is not None:
        self._assign(st.target, self._expr(st.value, env, fi, pc), env, fi, pc, loc)
      return []
    if isinstance(st, ast.AugAssign):
      if isinstance(st.target, ast.Name):
        old = env.get(st.target.id, Unknown(st.target.id))
        v = self._expr(st.value, env, fi, pc)
        if isinstance(old, ListV) and isinstance(v, ListV) and isinstance(st.op, ast.Add):
          env[st.target.id] = ListV(old.items + v.items)
        else:
          env[st.target.id] = Expr(f"({old.text} {type(st.op).__name__} {v.text})")
      else:
        self._expr(st.value, env, fi, pc)
      return []
    if isinstance(st, ast.If):
      return self._if(st, env, fi, pc, rets)
    if isinstance(st, (ast.For, ast.While)):
      return self._loop(st, env, fi, pc, rets)
    if isinstance(st, ast.Return):
      v = self._expr(st.value, env, fi, pc) if st.value is not None else None
      rets.append((pc, v))
      return [("return", ())]
    if isinstance(st, ast.Raise):
      self._emit("raise", pc, loc, name=unparse(st.exc)[:120] if st.exc else "raise")
      return [("raise", ())]
    if isinstance(st, ast.FunctionDef):
      ch = fi.children.get(st.name)
      if ch is not None:
        env[st.name] = Func(ch, env) if ch.kind in ("host", "factory") else KernelV(ch, {}, {}) if ch.kind == "kernel" else Func(ch, env)
      return []
    if isinstance(st, ast.With):
      for it in st.items:
        v = self._expr(it.context_expr, env, fi, pc)
        if it.optional_vars is not None and isinstance(it.optional_vars, ast.Name):
          env[it.optional_vars.id] = v
      return self._block(st.body, env, fi, pc, rets)
    if isinstance(st, ast.Try):
      ex = self._block(st.body, env, fi, pc, rets)
      for h in st.handlers:
        e2 = dict(env)
        self._block(h.body, e2, fi, pc + (("except@" + loc, True),), rets)
      self._block(st.finalbody, env, fi, pc, rets)
      return [e for e in ex if e[0] != "raise"]
    if isinstance(st, (ast.Pass, ast.Assert, ast.Import, ast.ImportFrom, ast.Global, ast.Nonlocal, ast.Delete)):
      return []
    if isinstance(st, (ast.Continue, ast.Break)):
      return [("continue" if isinstance(st, ast.Continue) else "break", ())]
    if isinstance(st, ast.ClassDef):
      return []
    self.notes.append(f"unsupported host statement {type(st).__name__} at {loc}")
    return []

  def _assign(self, t, v, env, fi, pc, loc):
    if isinstance(t, ast.Name):
      if isinstance(v, Temp) and v.var is None:
        v.var = t.id
      env[t.id] = v
    elif isinstance(t, (ast.Tuple, ast.List)):
      items = None
      if isinstance(v, ListV) and len(v.items) == len(t.elts):
        items = v.items
      for i, e in enumerate(t.elts):
        self._assign(e, items[i] if items else Expr(f"{v.text}[{i}]"), env, fi, pc, loc)
    elif isinstance(t, ast.Attribute):
      base = self._expr(t.value, env, fi, pc)
      if isinstance(base, Obj):
        base.overrides[t.attr] = v
        self._emit("setattr", pc, loc, dst=self._attr(base, t.attr), src=v, name=t.attr)
    elif isinstance(t, ast.Subscript):
      base = self._expr(t.value, env, fi, pc)
      self._expr(t.slice, env, fi, pc)
      if isinstance(root_array(base), (Field, Temp)):
        self._emit("hostwrite", pc, loc, dst=base, src=v)

  def truth(self, v: HV) -> Optional[bool]:
    if isinstance(v, Const):
      try:
        return bool(v.v)
      except Exception:
        return None
    if v.text in self.config:
      return self.config[v.text]
    if isinstance(v, (ListV,)):
      return bool(v.items)
    if isinstance(v, (Func, KernelV, Obj)):
      return True
    return None

  def _if(self, st, env, fi, pc, rets):
    c = self._expr(st.test, env, fi, pc)
    tv = self.truth(c)
    if tv is not None:
      return self._block(st.body if tv else st.orelse, env, fi, pc, rets)
    text = c.text
    e1, e2 = dict(env), dict(env)
    x1 = self._block(st.body, e1, fi, pc + ((text, True),), rets)
    x2 = self._block(st.orelse, e2, fi, pc + ((text, False),), rets) if st.orelse else []
    d1 = any(not cj for _, cj in x1)
    d2 = any(not cj for _, cj in x2)
    env.clear()
    if d1 and not d2:
      env.update(e2)
    elif d2 and not d1:
      env.update(e1)
    else:
      for k in set(e1) | set(e2):
        a, b = e1.get(k), e2.get(k)
        env[k] = a if b is None else b if a is None else (a if a is b or self._same(a, b) else self._join([a, b]))
    return [(k, ((text, True),) + cj) for k, cj in x1] + [(k, ((text, False),) + cj) for k, cj in x2]

  @staticmethod
  def _same(a, b):
    return type(a) is type(b) and a.text == b.text and not isinstance(a, (ListV,))

  def _join(self, vals):
    flat = []
    for v in vals:
      for x in v.alts if isinstance(v, Phi) else [v]:
        if not any(self._same(x, y) for y in flat):
          flat.append(x)
    if len(flat) == 1:
      return flat[0]
    return Phi(flat)

  def _loop(self, st, env, fi, pc, rets):
    self._loop_n += 1
    loc = f"{fi.file}:{st.lineno}"
    if isinstance(st, ast.For):
      it = self._expr(st.iter, env, fi, pc)
      lid = f"L{self._loop_n}:for {unparse(st.target)} in {it.text[:60]}"
      # iterating a literal list of known items: unroll
      if isinstance(it, ListV) and len(it.items) <= 8 and not isinstance(it, Phi):
        exits = []
        for item in it.items:
          self._assign(st.target, item, env, fi, pc, loc)
          exits += self._block(st.body, env, fi, pc, rets)
        return [e for e in exits if e[0] in ("return", "raise") and False]
      for x in ast.walk(st.target):
        if isinstance(x, ast.Name):
          env[x.id] = Expr(x.id)
    else:
      c = self._expr(st.test, env, fi, pc)
      lid = f"L{self._loop_n}:while {c.text[:60]}"
    self._loops.append(lid)
    self._emit("loop_begin", pc, loc, name=lid)
    pre = dict(env)
    self._block(st.body, env, fi, pc, rets)
    self._emit("loop_end", pc, loc, name=lid)
    self._loops.pop()
    for k in set(pre) | set(env):
      a, b = pre.get(k), env.get(k)
      if a is not None and b is not None and a is not b and not self._same(a, b):
        env[k] = self._join([a, b])
    return []

  # ------------------------------------------------------------------ expressions
  def _expr(self, node, env, fi, pc) -> HV:
    if node is None:
      return Const(None)
    if isinstance(node, ast.Constant):
      return Const(node.value)
    if isinstance(node, ast.Name):
      return self._name(node.id, env, fi)
    if isinstance(node, ast.Attribute):
      base = self._expr(node.value, env, fi, pc)
      return self._attr(base, node.attr)
    if isinstance(node, ast.Call):
      return self._call(node, env, fi, pc)
    if isinstance(node, (ast.List, ast.Tuple)):
      items = []
      for e in node.elts:
        if isinstance(e, ast.Starred):
          v = self._expr(e.value, env, fi, pc)
          if isinstance(v, ListV):
            items.extend(v.items)
          else:
            items.append(Unknown("*" + v.text))
        else:
          items.append(self._expr(e, env, fi, pc))
      return (TupleV if isinstance(node, ast.Tuple) else ListV)(items)
    if isinstance(node, ast.BinOp):
      a = self._expr(node.left, env, fi, pc)
      b = self._expr(node.right, env, fi, pc)
      if isinstance(a, ListV) and isinstance(b, ListV) and isinstance(node.op, ast.Add):
        return ListV(a.items + b.items)
      if isinstance(a, Const) and isinstance(b, Const):
        try:
          import operator as op_

          f = {ast.Add: op_.add, ast.Sub: op_.sub, ast.Mult: op_.mul, ast.BitAnd: op_.and_, ast.BitOr: op_.or_, ast.FloorDiv: op_.floordiv, ast.Mod: op_.mod, ast.LShift: op_.lshift}.get(type(node.op))
          if f:
            return Const(f(a.v, b.v))
        except Exception:
          pass
      sym = {ast.Add: "+", ast.Sub: "-", ast.Mult: "*", ast.Div: "/", ast.FloorDiv: "//", ast.Mod: "%", ast.BitAnd: "&", ast.BitOr: "|", ast.LShift: "<<", ast.RShift: ">>", ast.Pow: "**", ast.BitXor: "^", ast.MatMult: "@"}.get(type(node.op), "?")
      return Expr(f"({a.text} {sym} {b.text})")
    if isinstance(node, ast.UnaryOp):
      a = self._expr(node.operand, env, fi, pc)
      if isinstance(node.op, ast.Not):
        tv = self.truth(a)
        if tv is not None:
          return Const(not tv)
        if a.text.startswith("(not ") and a.text.endswith(")"):
          return Expr(a.text[5:-1])
        return Expr(f"(not {a.text})")
      if isinstance(node.op, ast.USub):
        if isinstance(a, Const) and isinstance(a.v, (int, float)):
          return Const(-a.v)
        return Expr(f"(-{a.text})")
      return Expr(f"(~{a.text})")
    if isinstance(node, ast.BoolOp):
      vals = [self._expr(v, env, fi, pc) for v in node.values]
      isand = isinstance(node.op, ast.And)
      keep = []
      for v in vals:
        tv = self.truth(v)
        if tv is None:
          keep.append(v)
        elif isand and not tv:
          return Const(False) if not keep else Expr("(" + " and ".join(k.text for k in keep) + " and False)")
        elif not isand and tv:
          return v if not keep else Expr("(" + " or ".join(k.text for k in keep + [v]) + ")")
      if not keep:
        return vals[-1]
      if len(keep) == 1:
        # `a or b` with a falsy-known dropped, `a and b` with truthy-known dropped
        return keep[0]
      return Expr("(" + (" and " if isand else " or ").join(k.text for k in keep) + ")")
    if isinstance(node, ast.Compare):
      left = self._expr(node.left, env, fi, pc)
      parts = []
      for op, r in zip(node.ops, node.comparators):
        rv = self._expr(r, env, fi, pc)
        sym = {ast.Eq: "==", ast.NotEq: "!=", ast.Lt: "<", ast.LtE: "<=", ast.Gt: ">", ast.GtE: ">=", ast.Is: "is", ast.IsNot: "is not", ast.In: "in", ast.NotIn: "not in"}[type(op)]
        res = None
        if isinstance(left, Const) and isinstance(rv, Const):
          try:
            res = {"==": left.v == rv.v, "!=": left.v != rv.v, "is": left.v is rv.v, "is not": left.v is not rv.v}.get(sym)
            if res is None and sym in ("<", "<=", ">", ">="):
              res = eval(f"a {sym} b", {}, {"a": left.v, "b": rv.v})
          except Exception:
            res = None
        elif isinstance(left, EnumV) and isinstance(rv, EnumV) and left.e == rv.e and sym in ("==", "!="):
          res = (left.m == rv.m) == (sym == "==")
        elif sym in ("is", "is not") and isinstance(rv, Const) and rv.v is None and isinstance(left, (Field, Temp, Obj, Func, KernelV, ListV, View)):
          res = sym == "is not"
        parts.append(Const(res) if res is not None else Expr(f"({left.text} {sym} {rv.text})"))
        left = rv
      if len(parts) == 1:
        return parts[0]
      if all(isinstance(p, Const) for p in parts):
        return Const(all(p.v for p in parts))
      return Expr("(" + " and ".join(p.text for p in parts) + ")")
    if isinstance(node, ast.IfExp):
      c = self._expr(node.test, env, fi, pc)
      tv = self.truth(c)
      if tv is not None:
        return self._expr(node.body if tv else node.orelse, env, fi, pc)
      a = self._expr(node.body, env, fi, pc + ((c.text, True),))
      b = self._expr(node.orelse, env, fi, pc + ((c.text, False),))
      return a if self._same(a, b) else self._join([a, b])
    if isinstance(node, ast.Subscript):
      base = self._expr(node.value, env, fi, pc)
      if isinstance(node.slice, ast.Slice) or (isinstance(node.slice, ast.Tuple) and any(isinstance(e, ast.Slice) for e in node.slice.elts)):
        idx_text = unparse(node.slice)
        if isinstance(root_array(base), (Field, Temp)):
          return View(base, f"{base.text}[{idx_text}]")
        if isinstance(base, ListV) and isinstance(node.slice, ast.Slice):
          lo = self._expr(node.slice.lower, env, fi, pc) if node.slice.lower else Const(None)
          hi = self._expr(node.slice.upper, env, fi, pc) if node.slice.upper else Const(None)
          if isinstance(lo, Const) and isinstance(hi, Const):
            return ListV(base.items[lo.v : hi.v])
        return Expr(f"{base.text}[{idx_text}]")
      idx = self._expr(node.slice, env, fi, pc)
      if isinstance(base, ListV) and isinstance(idx, Const) and isinstance(idx.v, int) and -len(base.items) <= idx.v < len(base.items):
        return base.items[idx.v]
      if isinstance(root_array(base), (Field, Temp)):
        return View(base, f"{base.text}[{idx.text}]")
      return Expr(f"{base.text}[{idx.text}]")
    if isinstance(node, ast.JoinedStr):
      return Const("<fstring>")
    if isinstance(node, ast.Lambda):
      return Unknown("lambda")
    if isinstance(node, (ast.ListComp, ast.GeneratorExp, ast.SetComp, ast.DictComp)):
      return Expr(unparse(node)[:80])
    if isinstance(node, ast.Dict):
      return Expr("{...}")
    if isinstance(node, ast.Starred):
      return Unknown("*")
    if isinstance(node, ast.NamedExpr):
      v = self._expr(node.value, env, fi, pc)
      env[node.target.id] = v
      return v
    if isinstance(node, ast.Set):
      return Expr("{set}")
    return Unknown(type(node).__name__)

  def _name(self, name, env, fi) -> HV:
    if name in env:
      return env[name]
    # enclosing function env (closures of nested host defs)
    e = env.get("__outer__")
    while e is not None:
      if name in e:
        return e[name]
      e = e.get("__outer__")
    if name in ("True", "False", "None"):
      return Const({"True": True, "False": False, "None": None}[name])
    r = self.sm.resolve_name(fi.module, ast.Name(id=name, ctx=ast.Load()))
    return self._resolved(r, name)

  def _resolved(self, r, text) -> HV:
    if r is None:
      return Mod("builtin", text)
    k = r[0]
    if k == "func":
      f = r[1]
      if f.kind == "kernel":
        return KernelV(f, {}, {})
      return Func(f)
    if k == "enum":
      return EnumV(r[1], r[2])
    if k in ("module", "ext", "enumcls"):
      return Mod(k, r[1])
    if k == "class":
      return Mod("class", r[2])
    if k == "const":
      node = r[3]
      v = self.sm.const_int(r[1], node)
      if v is not None:
        return Const(v)
      if isinstance(node, ast.Constant):
        return Const(node.value)
      src = unparse(node)
      if ("DisableBit." in src or "EnableBit." in src) and len(src) < 200:
        # a module-level mask of option flags (`_MASK = int(DisableBit.A | DisableBit.B)`): keep the defining expression in
        # path-condition texts so that the flag evaluator can decide tests written against the mask
        return Expr(f"({src})")
      return Expr(f"{r[1]}.{r[2]}")
    return Unknown(text)

  def _attr(self, base: HV, attr: str) -> HV:
    if isinstance(base, Obj):
      if attr in base.overrides:
        v = base.overrides[attr]
        if isinstance(v, Field) and base.base is not None:
          # dataclasses.replace(d, M=d.cM): reading `.M` of the replaced object yields d.cM under the alias M
          path = f"{base.path}.{attr}" if base.path else attr
          w = Field(v.owner, v.path, v.text, v.obj)
          w.alias = (base.root_cls, path)
          return w
        return v
      if getattr(base, "ctor_loc", None) is not None:
        # a constructed dataclass instance: unset fields carry their declared defaults
        dflt = self._dataclass_default(base.cls, attr)
        if dflt is not None:
          return dflt
      sub = SUBOBJ.get((base.cls, attr))
      path = f"{base.path}.{attr}" if base.path else attr
      if sub:
        return Obj(sub, f"{base.text}.{attr}", base.root_cls, path)
      owner = base.root_cls
      return Field(owner, path, f"{base.text}.{attr}", base)
    if isinstance(base, Mod):
      if base.kind == "module":
        return self._resolved(self.sm._symbol(base.name, attr), f"{base.name}.{attr}")
      if base.kind == "enumcls":
        return EnumV(base.name, attr)
      if base.kind == "class" and base.name in self.sm.enums:
        return EnumV(base.name, attr)
      return Mod(base.kind, f"{base.name}.{attr}")
    if isinstance(base, Phi):
      return self._join([self._attr(a, attr) for a in base.alts])
    if isinstance(base, (Field, Temp, View)) and attr in ("shape", "size", "dtype", "ndim", "device", "T"):
      return Expr(f"{base.text}.{attr}")
    return Expr(f"{base.text}.{attr}")

  # ------------------------------------------------------------------ calls
  def _call(self, node, env, fi, pc) -> HV:
    loc = f"{fi.file}:{node.lineno}"
    d = dotted(node.func)
    if d in ("wp.launch", "wp.launch_tiled"):
      return self._launch(node, env, fi, pc, loc, tiled=(d == "wp.launch_tiled"))
    if d == "wp.copy":
      a = [self._expr(x, env, fi, pc) for x in node.args]
      kw = {k.arg: self._expr(k.value, env, fi, pc) for k in node.keywords}
      dst = a[0] if a else kw.get("dest")
      src = a[1] if len(a) > 1 else kw.get("src")
      self._emit("copy", pc, loc, dst=dst, src=src)
      return Const(None)
    if d in ALLOCS:
      a = [self._expr(x, env, fi, pc) for x in node.args]
      kw = {k.arg: self._expr(k.value, env, fi, pc) for k in node.keywords}
      self._temp_n += 1
      src = a[0] if (d in ("wp.clone", "wp.zeros_like", "wp.empty_like", "wp.full_like", "wp.ones_like") and a) else None
      shape = kw.get("shape") or (a[0] if a and d not in ("wp.clone", "wp.array", "wp.from_numpy") and src is None else None)
      self._fn_alloc_n[fi.key] = self._fn_alloc_n.get(fi.key, 0) + 1
      t = Temp(loc, ALLOCS[d], f"{ALLOCS[d]}@{loc.split('/')[-1]}", src=src, shape=shape, fn=fi.key, ordinal=self._fn_alloc_n[fi.key])
      self._emit("alloc", pc, loc, dst=t, src=src, name=ALLOCS[d], value=kw.get("value"))
      return t
    if d == "wp.capture_while":
      kw = {k.arg: k.value for k in node.keywords}
      body = self._expr(kw.pop("while_body"), env, fi, pc) if "while_body" in kw else None
      cond = self._expr(node.args[0], env, fi, pc) if node.args else None
      self._loop_n += 1
      lid = f"L{self._loop_n}:capture_while {cond.text if cond else ''}"
      self._loops.append(lid)
      self._emit("device_cond", pc, loc, name="wp.capture_while", src=cond)
      self._emit("loop_begin", pc, loc, name=lid, src=cond)
      if isinstance(body, Func):
        self._invoke(body, [], {k: self._expr(v, env, fi, pc) for k, v in kw.items()}, pc, loc)
      self._emit("loop_end", pc, loc, name=lid)
      self._loops.pop()
      return Const(None)
    if d == "wp.capture_if":
      kw = {k.arg: k.value for k in node.keywords}
      cond = self._expr(node.args[0], env, fi, pc) if node.args else self._expr(kw.pop("condition", None), env, fi, pc)
      rest = {k: self._expr(v, env, fi, pc) for k, v in kw.items() if k not in ("on_true", "on_false")}
      self._emit("device_cond", pc, loc, name="wp.capture_if", src=cond)
      for key, pol in (("on_true", True), ("on_false", False)):
        if key in kw:
          f = self._expr(kw[key], env, fi, pc)
          if isinstance(f, Func):
            self._invoke(f, [], rest, pc + ((f"device:{cond.text}", pol),), loc)
      return Const(None)
    if d == "dataclasses.replace":
      base = self._expr(node.args[0], env, fi, pc)
      ov = {k.arg: self._expr(k.value, env, fi, pc) for k in node.keywords}
      if isinstance(base, Obj):
        self._temp_n += 1
        o = Obj(base.cls, f"{base.text}'{self._temp_n}", base.root_cls, base.path, dict(base.overrides), base)
        o.overrides.update(ov)
        return o
      return Unknown("replace")
    if d in ("bool", "int", "float") and len(node.args) == 1:
      v = self._expr(node.args[0], env, fi, pc)
      if isinstance(v, Const):
        try:
          return Const({"bool": bool, "int": int, "float": float}[d](v.v))
        except Exception:
          pass
      if d == "bool":
        return v if isinstance(v, Expr) else Expr(v.text)
      return Expr(f"{d}({v.text})")
    if d == "len" and len(node.args) == 1:
      v = self._expr(node.args[0], env, fi, pc)
      if isinstance(v, ListV):
        return Const(len(v.items))
      return Expr(f"len({v.text})")
    if d in ("range", "reversed", "enumerate", "zip", "sorted", "list", "tuple", "max", "min", "abs", "isinstance", "getattr", "hasattr", "any", "all", "sum", "set", "str", "print", "type", "iter", "next", "round", "dict", "id"):
      a = [self._expr(x, env, fi, pc) for x in node.args]
      if d in ("list", "tuple") and len(a) == 1 and isinstance(a[0], ListV):
        return a[0]
      if d == "getattr" and len(a) >= 2 and isinstance(a[1], Const) and isinstance(a[1].v, str):
        return self._attr(a[0], a[1].v)
      if d == "isinstance" and len(node.args) == 2:
        return Expr(f"isinstance({a[0].text}, {unparse(node.args[1])})")
      return Expr(f"{d}({', '.join(x.text for x in a)})")
    # method calls on arrays
    if isinstance(node.func, ast.Attribute):
      meth = node.func.attr
      base = self._expr(node.func.value, env, fi, pc)
      if meth in ("zero_", "fill_") and isinstance(root_array(base), (Field, Temp, Phi, View)):
        val = self._expr(node.args[0], env, fi, pc) if node.args else Const(0)
        self._emit("fill", pc, loc, dst=base, value=val, name=meth)
        return Const(None)
      if meth in ("zero_", "fill_"):
        val = self._expr(node.args[0], env, fi, pc) if node.args else Const(0)
        self._emit("fill", pc, loc, dst=base, value=val, name=meth)
        return Const(None)
      if meth in ("reshape", "view", "flatten", "contiguous", "transpose") and isinstance(root_array(base), (Field, Temp)):
        return View(base, f"{base.text}.{meth}({', '.join(unparse(a) for a in node.args)})")
      if meth == "numpy" and isinstance(root_array(base), (Field, Temp)):
        self._emit("hostread", pc, loc, src=base, name="numpy")
        return Expr(f"{base.text}.numpy()")
      if meth == "append" and isinstance(base, ListV) and len(node.args) == 1:
        base.items.append(self._expr(node.args[0], env, fi, pc))
        base.text = "[" + ", ".join(i.text for i in base.items) + "]"
        return Const(None)
      if meth == "extend" and isinstance(base, ListV) and len(node.args) == 1:
        v = self._expr(node.args[0], env, fi, pc)
        if isinstance(v, ListV):
          base.items.extend(v.items)
          return Const(None)
      if isinstance(base, Field) and base.owner == "Model" and base.path.startswith("callback."):
        a = [self._expr(x, env, fi, pc) for x in node.args]
        self._emit("callback", pc, loc, name=base.path, args=a)
        return Const(None)
    target = None
    if isinstance(node.func, (ast.Name, ast.Attribute)):
      target = self._expr(node.func, env, fi, pc)
    elif isinstance(node.func, ast.Call):
      target = self._expr(node.func, env, fi, pc)
    args = [self._expr(a, env, fi, pc) for a in node.args if not isinstance(a, ast.Starred)]
    kwargs = {k.arg: self._expr(k.value, env, fi, pc) for k in node.keywords if k.arg}
    if isinstance(target, Field) and target.owner == "Model" and target.path.startswith("callback."):
      self._emit("callback", pc, loc, name=target.path, args=args)
      return Const(None)
    if isinstance(target, Func):
      return self._invoke(target, args, kwargs, pc, loc)
    if isinstance(target, Phi):
      outs = []
      for alt in target.alts:
        if isinstance(alt, Func):
          outs.append(self._invoke(alt, args, kwargs, pc + ((f"select:{alt.text}", True),), loc))
      if outs:
        return self._join(outs)
    if isinstance(target, Mod) and target.kind == "class" and target.name not in OBJ_CLASSES and self._dataclass_fields(target.name) is not None:
      flds = self._dataclass_fields(target.name)
      self._temp_n += 1
      o = Obj(target.name, f"{target.name}#{self._temp_n}")
      for k, v in list(zip(flds, args)) + list(kwargs.items()):
        o.overrides[k] = v
        if isinstance(v, Temp) and v.var is None:
          v.var = k
          v.ctx_attr = k
      return o
    if isinstance(target, Mod) and target.kind == "class" and target.name in OBJ_CLASSES:
      self._temp_n += 1
      o = Obj(target.name, f"{target.name}#{self._temp_n}")
      # keyword-constructed dataclass: remember fields
      for k, v in kwargs.items():
        o.overrides[k] = v
        if isinstance(v, Temp) and v.var is None:
          v.var = k
          v.ctx_attr = k
      o.ctor_loc = loc
      o.ctor_fn = fi.key
      return o
    name = d or (target.text if target is not None else unparse(node.func))
    if name.startswith("wp.utils.") or name in ("wp.utils.array_scan", "wp.utils.segmented_sort_pairs", "wp.utils.radix_sort_pairs", "wp.synchronize"):
      self._emit("ext", pc, loc, name=name, args=args + list(kwargs.values()))
      return Const(None)
    arrs = [a for a in args + list(kwargs.values()) if isinstance(root_array(a), (Field, Temp))]
    if arrs and not name.startswith(("np.", "numpy.", "wp.ScopedDevice", "wp.ScopedTimer")):
      self._emit("ext", pc, loc, name=name, args=args + list(kwargs.values()))
    self.unknown_calls[name] = self.unknown_calls.get(name, 0) + 1
    return Expr(f"{name}({', '.join(a.text for a in args)})")

  def _invoke(self, f: Func, args: List[HV], kwargs: Dict[str, HV], pc, loc) -> HV:
    fi = f.fi
    if fi.kind == "factory" or (fi.kind == "host" and self._is_kernel_factory(fi)):
      return self._factory(f, args, kwargs, loc)
    if fi.kind in ("kernel", "func"):
      return KernelV(fi, {}, {})
    if self.shallow and f.env is None and self._launches_inside(fi):
      self._emit("call", pc, loc, name=fi.key, args=args + list(kwargs.values()))
      return Expr(f"{fi.key}(...)")
    env: Dict[str, Any] = {}
    if f.env is not None:
      env["__outer__"] = f.env
    params = fi.params
    for i, p in enumerate(params):
      if i < len(args):
        env[p.arg] = args[i]
      elif p.arg in kwargs:
        env[p.arg] = kwargs[p.arg]
    for p in fi.node.args.kwonlyargs:
      if p.arg in kwargs:
        env[p.arg] = kwargs[p.arg]
    self._bind_defaults(fi, env)
    return self._call_body(fi, env, pc, loc)

  _launch_memo: Dict[str, bool] = {}

  def _launches_inside(self, fi: FuncInfo, _seen=None) -> bool:
    """Does fi (transitively, within the package) launch kernels or touch arrays?"""
    if fi.key in self._launch_memo:
      return self._launch_memo[fi.key]
    _seen = _seen or set()
    if fi.key in _seen:
      return False
    _seen.add(fi.key)
    res = False
    for n in ast.walk(fi.node):
      if isinstance(n, ast.Call):
        d = dotted(n.func)
        if d in ("wp.launch", "wp.launch_tiled", "wp.copy", "wp.capture_while", "wp.capture_if") or (isinstance(n.func, ast.Attribute) and n.func.attr in ("zero_", "fill_")):
          res = True
          break
        if isinstance(n.func, (ast.Name, ast.Attribute)):
          r = self.sm.resolve_name(fi.module, n.func)
          if r and r[0] == "func" and r[1].kind == "host" and self._launches_inside(r[1], _seen):
            res = True
            break
    self._launch_memo[fi.key] = res
    return res

  def _dataclass_default(self, cname: str, attr: str):
    for m in self.sm.modules.values():
      cls = m.classes.get(cname)
      if cls is None:
        continue
      for st in cls.body:
        if isinstance(st, ast.AnnAssign) and isinstance(st.target, ast.Name) and st.target.id == attr and isinstance(st.value, ast.Constant):
          return Const(st.value.value)
    return None

  def _dataclass_fields(self, cname: str):
    for m in self.sm.modules.values():
      cls = m.classes.get(cname)
      if cls is not None and any(unparse(d).startswith("dataclasses.dataclass") for d in cls.decorator_list):
        return [st.target.id for st in cls.body if isinstance(st, ast.AnnAssign) and isinstance(st.target, ast.Name)]
    return None

  def _is_kernel_factory(self, fi: FuncInfo) -> bool:
    """A plain host function whose only job is to build and return a nested kernel/func."""
    if not fi.children:
      return False
    for st in ast.walk(fi.node):
      if isinstance(st, ast.Return) and isinstance(st.value, ast.Name) and st.value.id in fi.children:
        return fi.children[st.value.id].kind in ("kernel", "func")
    return False

  def _factory(self, f: Func, args, kwargs, loc) -> HV:
    fi = f.fi
    static_vals, closure_text = {}, {}
    params = fi.params
    defaults = fi.node.args.defaults
    for i, p in enumerate(params):
      v = None
      if i < len(args):
        v = args[i]
      elif p.arg in kwargs:
        v = kwargs[p.arg]
      elif i >= len(params) - len(defaults):
        dn = defaults[i - (len(params) - len(defaults))]
        v = Const(dn.value) if isinstance(dn, ast.Constant) else Expr(unparse(dn))
      if v is None:
        continue
      closure_text[p.arg] = v.text
      if isinstance(v, Const) and isinstance(v.v, (bool, int, float, str, type(None))):
        static_vals[p.arg] = v.v
      elif isinstance(v, EnumV):
        static_vals[p.arg] = ("enum", v.e, v.m)
    # which nested function is returned?
    ret = None
    for st in ast.walk(fi.node):
      if isinstance(st, ast.Return) and isinstance(st.value, ast.Name) and st.value.id in fi.children:
        ret = fi.children[st.value.id]
        break
    if ret is None:
      self.notes.append(f"factory {fi.key} returns no nested function ({loc})")
      return Unknown(f"factory:{fi.key}")
    return KernelV(ret, static_vals, closure_text, via=fi)

  # ------------------------------------------------------------------ launches
  def _launch(self, node, env, fi, pc, loc, tiled):
    kw = {k.arg: k.value for k in node.keywords}
    pos = list(node.args)
    kexpr = pos[0] if pos else kw.get("kernel")
    dimexpr = pos[1] if len(pos) > 1 else kw.get("dim")
    inexpr = pos[2] if len(pos) > 2 else kw.get("inputs")
    outexpr = pos[3] if len(pos) > 3 else kw.get("outputs")
    kv = self._expr(kexpr, env, fi, pc) if kexpr is not None else Unknown("nokernel")
    dimv = self._expr(dimexpr, env, fi, pc) if dimexpr is not None else Unknown("nodim")
    dims = dimv.items if isinstance(dimv, ListV) else [dimv]
    ins = self._expr(inexpr, env, fi, pc) if inexpr is not None else ListV([])
    outs = self._expr(outexpr, env, fi, pc) if outexpr is not None else ListV([])
    alts = kv.alts if isinstance(kv, Phi) else [kv]
    emitted = False
    for alt in alts:
      if not isinstance(alt, KernelV):
        continue
      sub_pc = pc if len(alts) == 1 else pc + ((f"select:{alt.text}", True),)
      self._emit_launch(alt, dims, ins, outs, sub_pc, loc, tiled)
      emitted = True
    if not emitted:
      self.unresolved_launches.append(f"{loc}: {unparse(kexpr)[:80] if kexpr is not None else '?'} -> {kv.text[:80]}")
      self._emit("launch", pc, loc, kernel=None, bindings=[], dim=dims, tiled=tiled, arity_ok=False, name=unparse(kexpr)[:80] if kexpr is not None else "?")
    return Const(None)

  def _emit_launch(self, kv: KernelV, dims, ins, outs, pc, loc, tiled):
    in_alts = ins.alts if isinstance(ins, Phi) else [ins]
    out_alts = outs.alts if isinstance(outs, Phi) else [outs]
    for ia in in_alts:
      for oa in out_alts:
        if not isinstance(ia, ListV) or not isinstance(oa, ListV):
          self.unresolved_launches.append(f"{loc}: argument list not a literal list ({ia.text[:60]})")
          self._emit("launch", pc, loc, kernel=kv, bindings=[], dim=dims, tiled=tiled, arity_ok=False, name=kv.fi.key)
          continue
        actuals = ia.items + oa.items
        formals = []
        for a in kv.fi.params:
          ann = unparse(a.annotation) if a.annotation is not None else ""
          kind, nd, dt = parse_annotation(ann, self.sm.struct_fields)
          formals.append(ParamInfo(a.arg, ann, kind, nd, dt))
        ok = len(actuals) == len(formals)
        bindings = list(zip(formals, actuals))
        self._emit("launch", pc, loc, kernel=kv, bindings=bindings, dim=dims, tiled=tiled, arity_ok=ok, nin=len(ia.items), name=kv.fi.key)


def launches(events) -> List[Event]:
  return [e for e in events if e.kind == "launch"]
