"""E0 - source model: modules, imports, functions, enums and the types.py schema.

Everything is obtained with `ast` from the files under <repo>/mujoco_warp; nothing is imported.
"""

from __future__ import annotations

import ast
import dataclasses
import hashlib
import os
from typing import Dict, List, Optional, Tuple

PKG = "mujoco_warp"
SRC = os.path.join(PKG, "_src")


class AnalysisError(Exception):
  """The analyser lost sight of the code (anchor vanished, unsupported construct...)."""


@dataclasses.dataclass
class FieldSpec:
  owner: str  # Model | Data
  cls: str  # dataclass it is declared in (Model, Option, Statistic, Data, Contact, Constraint)
  path: str  # attribute path from the owner, e.g. opt.timestep / efc.J / qpos
  flat: str  # kernel-parameter base name, e.g. opt_timestep / efc_J / qpos
  dims: Optional[Tuple]  # tuple of dim names/ints for arrays, None for scalars
  dtype: str  # source text of dtype (arrays) or annotation (scalars)
  lineno: int

  @property
  def is_array(self) -> bool:
    return self.dims is not None

  @property
  def ndim(self) -> int:
    return len(self.dims) if self.dims is not None else 0

  @property
  def first(self):
    return self.dims[0] if self.dims else None


@dataclasses.dataclass
class FuncInfo:
  module: str
  name: str
  qualname: str
  node: ast.FunctionDef
  kind: str  # kernel | func | factory | host
  parent: Optional["FuncInfo"]
  decorators: List[str]
  file: str
  children: Dict[str, "FuncInfo"] = dataclasses.field(default_factory=dict)

  @property
  def key(self) -> str:
    return f"{self.module}.{self.qualname}"

  @property
  def params(self) -> List[ast.arg]:
    a = self.node.args
    return list(a.posonlyargs) + list(a.args)

  def loc(self, node=None) -> str:
    ln = getattr(node, "lineno", None) or self.node.lineno
    return f"{self.file}:{ln}"


@dataclasses.dataclass
class ModuleInfo:
  name: str
  path: str  # relative to repo root
  tree: ast.Module
  source: str
  imports: Dict[str, tuple]
  funcs: Dict[str, FuncInfo]
  all_funcs: List[FuncInfo]
  consts: Dict[str, ast.AST]
  classes: Dict[str, ast.ClassDef]
  overloads: Dict[str, List[FuncInfo]] = dataclasses.field(default_factory=dict)


def unparse(n) -> str:
  try:
    return ast.unparse(n)
  except Exception:  # pragma: no cover
    return "<?>"


def _decorator_kind(decs: List[str]) -> str:
  for d in decs:
    if d == "wp.kernel" or d.startswith("wp.kernel(") or d == "kernel" or d.startswith("kernel("):
      return "kernel"
  for d in decs:
    if d == "wp.func" or d.startswith("wp.func("):
      return "func"
  for d in decs:
    if d in ("cache_kernel", "warp_util.cache_kernel"):
      return "factory"
  return "host"


class SourceModel:
  def __init__(self, repo: str, include_tests: bool = False):
    self.repo = os.path.abspath(repo)
    self.modules: Dict[str, ModuleInfo] = {}
    self.enums: Dict[str, Dict[str, ast.AST]] = {}
    self.enum_bases: Dict[str, str] = {}
    self.schema: Dict[str, FieldSpec] = {}  # flat name -> spec (Model/Data array + scalar fields)
    self.schema_by_path: Dict[Tuple[str, str], FieldSpec] = {}
    self.classes_fields: Dict[str, List[Tuple[str, ast.AST, int]]] = {}
    self.struct_fields: Dict[str, Dict[str, str]] = {}  # wp.struct name -> field -> annotation text
    self.digest = hashlib.sha256()
    self._load(include_tests)
    self._schema()

  # ------------------------------------------------------------------ loading
  def _load(self, include_tests: bool):
    src_dir = os.path.join(self.repo, SRC)
    if not os.path.isdir(src_dir):
      raise AnalysisError(f"anchor vanished: {src_dir}")
    files = []
    for fn in sorted(os.listdir(src_dir)):
      if not fn.endswith(".py"):
        continue
      if fn.endswith("_test.py") and not include_tests:
        continue
      files.append((fn[:-3], os.path.join(SRC, fn)))
    files.append(("__pkg__", os.path.join(PKG, "__init__.py")))
    for name, rel in files:
      p = os.path.join(self.repo, rel)
      with open(p, "r", encoding="utf-8") as f:
        source = f.read()
      self.digest.update(rel.encode())
      self.digest.update(source.encode())
      try:
        tree = ast.parse(source, filename=rel)
      except SyntaxError as e:
        raise AnalysisError(f"syntax error in {rel}:{e.lineno}: {e.msg}")
      self.modules[name] = self._module(name, rel, tree, source)

  def _module(self, name, rel, tree, source) -> ModuleInfo:
    imports: Dict[str, tuple] = {}
    consts: Dict[str, ast.AST] = {}
    classes: Dict[str, ast.ClassDef] = {}
    funcs: Dict[str, FuncInfo] = {}
    overloads: Dict[str, List[FuncInfo]] = {}
    all_funcs: List[FuncInfo] = []

    def add_func(node, parent):
      decs = [unparse(d) for d in node.decorator_list]
      kind = _decorator_kind(decs)
      qual = node.name if parent is None else parent.qualname + "." + node.name
      if parent is None and node.name in funcs:
        qual = f"{node.name}#{len(overloads[node.name]) + 1}"
      fi = FuncInfo(name, node.name, qual, node, kind, parent, decs, rel)
      all_funcs.append(fi)
      if parent is None:
        funcs[node.name] = fi
        overloads.setdefault(node.name, []).append(fi)
      else:
        parent.children[node.name] = fi
      self._nested(node, fi, add_func)
      return fi

    for st in tree.body:
      if isinstance(st, (ast.Import, ast.ImportFrom)):
        self._imports(st, imports)
      elif isinstance(st, ast.FunctionDef):
        add_func(st, None)
      elif isinstance(st, ast.ClassDef):
        classes[st.name] = st
      elif isinstance(st, ast.Assign):
        for t in st.targets:
          if isinstance(t, ast.Name):
            consts[t.id] = st.value
          elif isinstance(t, ast.Tuple) and isinstance(st.value, ast.Tuple) and len(t.elts) == len(st.value.elts):
            for a, b in zip(t.elts, st.value.elts):
              if isinstance(a, ast.Name):
                consts[a.id] = b
      elif isinstance(st, ast.AnnAssign) and isinstance(st.target, ast.Name) and st.value is not None:
        consts[st.target.id] = st.value
      elif isinstance(st, (ast.If, ast.Try)):
        # conditional imports / definitions at module level
        for sub in ast.walk(st):
          if isinstance(sub, (ast.Import, ast.ImportFrom)):
            self._imports(sub, imports)
    return ModuleInfo(name, rel, tree, source, imports, funcs, all_funcs, consts, classes, overloads)

  def _nested(self, node, fi, add_func):
    """Register function definitions nested directly in `node` (any statement depth, not inside other defs)."""

    def visit(stmts):
      for st in stmts:
        if isinstance(st, ast.FunctionDef):
          add_func(st, fi)
        else:
          for fld in ("body", "orelse", "finalbody"):
            sub = getattr(st, fld, None)
            if isinstance(sub, list):
              visit(sub)
          if isinstance(st, ast.Try):
            for h in st.handlers:
              visit(h.body)

    visit(node.body)

  @staticmethod
  def _imports(st, imports):
    if isinstance(st, ast.Import):
      for a in st.names:
        imports[a.asname or a.name.split(".")[0]] = ("ext", a.name)
    else:
      mod = st.module or ""
      for a in st.names:
        alias = a.asname or a.name
        if mod == f"{PKG}._src":
          imports[alias] = ("module", a.name)
        elif mod.startswith(f"{PKG}._src."):
          imports[alias] = ("symbol", mod[len(PKG) + 6 :], a.name)
        elif mod == PKG:
          imports[alias] = ("symbol", "__pkg__", a.name)
        elif st.level and not mod:
          imports[alias] = ("module", a.name)
        elif st.level:
          imports[alias] = ("symbol", mod.split(".")[-1], a.name)
        else:
          imports[alias] = ("ext", mod + "." + a.name)

  # ------------------------------------------------------------------ schema
  def _schema(self):
    types = self.modules.get("types")
    if types is None:
      raise AnalysisError("anchor vanished: types.py")
    for cname, cls in types.classes.items():
      bases = [unparse(b) for b in cls.bases]
      if any(b in ("enum.IntEnum", "enum.IntFlag", "enum.Enum", "enum.Flag") for b in bases):
        members = {}
        for st in cls.body:
          if isinstance(st, ast.Assign) and len(st.targets) == 1 and isinstance(st.targets[0], ast.Name):
            members[st.targets[0].id] = st.value
        self.enums[cname] = members
        self.enum_bases[cname] = bases[0]
      decs = [unparse(d) for d in cls.decorator_list]
      if any(d.startswith("dataclasses.dataclass") for d in decs):
        flds = []
        for st in cls.body:
          if isinstance(st, ast.AnnAssign) and isinstance(st.target, ast.Name):
            flds.append((st.target.id, st.annotation, st.lineno))
        self.classes_fields[cname] = flds
    # wp.struct classes anywhere
    for m in self.modules.values():
      for cname, cls in m.classes.items():
        decs = [unparse(d) for d in cls.decorator_list]
        if any(d.startswith("wp.struct") for d in decs):
          self.struct_fields[cname] = {
            st.target.id: unparse(st.annotation)
            for st in cls.body
            if isinstance(st, ast.AnnAssign) and isinstance(st.target, ast.Name)
          }
    for need in ("Model", "Data", "Option", "Statistic", "Contact", "Constraint"):
      if need not in self.classes_fields:
        raise AnalysisError(f"anchor vanished: types.{need}")

    def add(owner, cls, path, flat, ann, lineno):
      dims, dtype = self._parse_array(ann)
      spec = FieldSpec(owner, cls, path, flat, dims, dtype, lineno)
      self.schema[flat] = spec
      self.schema_by_path[(owner, path)] = spec

    nested = {"Model": {"opt": ("Option", "opt"), "stat": ("Statistic", "stat")}, "Data": {"efc": ("Constraint", "efc"), "contact": ("Contact", "contact")}}
    for owner in ("Model", "Data"):
      for name, ann, ln in self.classes_fields[owner]:
        if name in nested[owner]:
          sub, prefix = nested[owner][name]
          for sname, sann, sln in self.classes_fields[sub]:
            add(owner, sub, f"{name}.{sname}", f"{prefix}_{sname}", sann, sln)
        else:
          add(owner, owner, name, name, ann, ln)

  @staticmethod
  def _parse_array(ann) -> Tuple[Optional[tuple], str]:
    if isinstance(ann, ast.Call) and unparse(ann.func) in ("array", "types.array"):
      dims = []
      for a in ann.args[:-1]:
        if isinstance(a, ast.Constant):
          dims.append(a.value)
        else:
          dims.append(unparse(a))
      return tuple(dims), unparse(ann.args[-1])
    txt = unparse(ann)
    if txt.startswith("wp.array"):
      # direct wp.array annotation (forbidden by the repo's analyser, still model it)
      nd = 1
      import re

      m = re.match(r"wp\.array(\d)d", txt)
      if m:
        nd = int(m.group(1))
      return tuple(["?"] * nd), txt
    return None, txt

  # ------------------------------------------------------------------ lookups
  def module(self, name) -> ModuleInfo:
    if name not in self.modules:
      raise AnalysisError(f"anchor vanished: module {name}")
    return self.modules[name]

  def func(self, key: str) -> FuncInfo:
    """'module.qualname' lookup; raises AnalysisError if the anchor is gone."""
    mod, _, qual = key.partition(".")
    m = self.module(mod)
    parts = qual.split(".")
    fi = m.funcs.get(parts[0])
    for p in parts[1:]:
      fi = fi.children.get(p) if fi else None
    if fi is None:
      raise AnalysisError(f"anchor vanished: function {key}")
    return fi

  def has_func(self, key: str) -> bool:
    try:
      self.func(key)
      return True
    except AnalysisError:
      return False

  def all_funcs(self, kinds=None):
    for m in self.modules.values():
      for f in m.all_funcs:
        if kinds is None or f.kind in kinds:
          yield f

  def resolve_name(self, module: str, expr) -> Optional[tuple]:
    """Resolve a Name/Attribute used in `module` to ('func', FuncInfo) | ('enum', E, member) |
    ('const', module, name, ast) | ('module', name) | ('class', module, name) | None."""
    m = self.modules[module]
    if isinstance(expr, ast.Name):
      n = expr.id
      if n in m.funcs:
        return ("func", m.funcs[n])
      if n in m.imports:
        imp = m.imports[n]
        if imp[0] == "module":
          if imp[1] in self.modules:
            return ("module", imp[1])
          return None
        if imp[0] == "symbol":
          return self._symbol(imp[1], imp[2])
        return ("ext", imp[1])
      if n in m.consts:
        return ("const", module, n, m.consts[n])
      if n in m.classes:
        return ("class", module, n)
      return None
    if isinstance(expr, ast.Attribute):
      base = self.resolve_name(module, expr.value)
      if base is None:
        return None
      if base[0] == "module":
        return self._symbol(base[1], expr.attr)
      if base[0] == "class" and base[2] in self.enums:
        return ("enum", base[2], expr.attr)
      if base[0] == "enumcls":
        return ("enum", base[1], expr.attr)
      if base[0] == "ext":
        return ("ext", base[1] + "." + expr.attr)
      return None
    return None

  def _symbol(self, modname, sym, _depth=0):
    if modname not in self.modules or _depth > 6:
      return None
    m = self.modules[modname]
    if sym in m.funcs:
      return ("func", m.funcs[sym])
    if sym in m.classes:
      if sym in self.enums and modname == "types":
        return ("enumcls", sym)
      return ("class", modname, sym)
    if sym in m.consts:
      return ("const", modname, sym, m.consts[sym])
    if sym in m.imports:
      imp = m.imports[sym]
      if imp[0] == "module":
        return ("module", imp[1])
      if imp[0] == "symbol":
        return self._symbol(imp[1], imp[2], _depth + 1)
      return ("ext", imp[1])
    return None

  def enum_value(self, enum: str, member: str) -> Optional[int]:
    v = self.enums.get(enum, {}).get(member)
    if v is None:
      return None
    return self.const_int("types", v)

  def const_int(self, module: str, expr, _depth=0) -> Optional[int]:
    """Evaluate small integer constant expressions (ints, shifts, ors, named module consts)."""
    if _depth > 8:
      return None
    if isinstance(expr, ast.Constant) and isinstance(expr.value, (int, bool)):
      return int(expr.value)
    if isinstance(expr, ast.UnaryOp) and isinstance(expr.op, ast.USub):
      v = self.const_int(module, expr.operand, _depth + 1)
      return -v if v is not None else None
    if isinstance(expr, ast.BinOp):
      a = self.const_int(module, expr.left, _depth + 1)
      b = self.const_int(module, expr.right, _depth + 1)
      if a is None or b is None:
        return None
      ops = {ast.Add: lambda: a + b, ast.Sub: lambda: a - b, ast.Mult: lambda: a * b, ast.LShift: lambda: a << b, ast.BitOr: lambda: a | b, ast.FloorDiv: lambda: a // b if b else None}
      f = ops.get(type(expr.op))
      return f() if f else None
    if isinstance(expr, (ast.Name, ast.Attribute)):
      r = self.resolve_name(module, expr)
      if r and r[0] == "const":
        return self.const_int(r[1], r[3], _depth + 1)
      if r and r[0] == "enum":
        v = self.enums.get(r[1], {}).get(r[2])
        return self.const_int("types", v, _depth + 1) if v is not None else None
    return None
