"""CLI: ./check C16 [--tier quick|thorough] [--repo /repo] [--replay file]"""

from __future__ import annotations

import argparse
import importlib
import json
import os
import sys
import traceback

from .report import Result, finish
from .srcmodel import AnalysisError


def main(argv=None) -> int:
  import gc

  gc.disable()  # allocation-heavy, short-lived process: the cyclic GC only costs time here
  sys.setrecursionlimit(10000)
  ap = argparse.ArgumentParser()
  ap.add_argument("prop")
  ap.add_argument("--tier", default=os.environ.get("VERIF_TIER", "quick"), choices=["quick", "thorough"])
  ap.add_argument("--repo", default=os.environ.get("VERIF_REPO", "/repo"))
  ap.add_argument("--replay", default=None)
  args = ap.parse_args(argv)
  prop = args.prop.upper()
  seed = int(os.environ.get("VERIF_SEED", "0") or 0)
  if args.replay:
    with open(args.replay) as f:
      rp = json.load(f)
    print(f"replaying {rp.get('key')} : {rp.get('message')} [{rp.get('loc')}]")
  try:
    from .db import DB

    mod = importlib.import_module(f".props.{prop.lower()}", __package__)
    db = DB(args.repo)
    res = Result(prop, args.tier)
    mod.run(db, res, args.tier)
    if args.tier == "thorough" and not os.environ.get("VERIF_NO_SELFTEST"):
      from .report import classify
      from .selftest import run_selftest

      base_new, _ = classify(res)
      run_selftest(res, prop, args.repo, [f.key() for f in base_new], jobs=int(os.environ.get("VERIF_JOBS", "16")))
    return finish(res, seed)
  except AnalysisError as e:
    print(f"ANALYSIS-ERROR property={prop} {e}")
    return 2
  except Exception as e:  # noqa: BLE001
    traceback.print_exc()
    print(f"ANALYSIS-ERROR property={prop} internal error: {e!r}")
    return 2


if __name__ == "__main__":
  from .bigframe import run as _run_big

  sys.exit(_run_big(main))
