"""Hash-consed symbolic terms used by the kernel evaluator, plus an affine normal form.

A term is `T(op, *args)`; args are terms or python constants. Terms are interned, so structural
equality is identity and hashing is O(1) even on large shared DAGs.

ops:
  c v                 constant
  tid k               k-th thread index of the kernel launch
  p name              scalar (non-array) parameter of the analysed entry function
  cv name             closure / module-level value (factory parameter, host local, module constant)
  enum E M            enum member
  ld root idx...      element loaded from array parameter `root`
  at uid kind root    value returned by an atomic at site uid
  shape root k        root.shape[k]
  bin op a b          binary arithmetic
  un op a             unary
  cmp op a b          comparison
  and/or a b ...      boolean
  not a
  call name args...   pure call (wp.min, int, wp.vec3, ...)
  phi a b ...         merge of alternatives
  lv loopid name      loop variable of a `for ... in range`
  carried loopid name loop-carried unknown value of a variable assigned in a loop body
  idx base i...       component of a vector/matrix value
  attr base name      attribute of a value
  tuple a b ...       tuple value
  unk why             unknown
  all lit...          conjunction of literals (used negated as a path literal); lit = tuple term ('lit', t, pol)
"""

from __future__ import annotations

from typing import Dict, Iterable, List, Optional, Tuple

_INTERN: Dict[tuple, "T"] = {}


class T:
  __slots__ = ("op", "args", "_h", "__weakref__")

  def __new__(cls, op, *args):
    key = (op,) + tuple((id(a), "T") if isinstance(a, T) else (a, type(a).__name__) for a in args)
    t = _INTERN.get(key)
    if t is None:
      t = object.__new__(cls)
      t.op = op
      t.args = args
      t._h = len(_INTERN)
      _INTERN[key] = t
    return t

  def __hash__(self):
    return self._h

  def __eq__(self, other):
    return self is other

  def __ne__(self, other):
    return self is not other

  def __repr__(self):
    return show(self)


def C(v):
  return T("c", v)


UNK = lambda why="?": T("unk", why)  # noqa: E731


def is_const(t, v=None) -> bool:
  if not isinstance(t, T) or t.op != "c":
    return False
  return v is None or (t.args[0] == v and type(t.args[0]) is type(v))


def const_val(t):
  if isinstance(t, T) and t.op == "c":
    return t.args[0]
  return None


def show(t, depth=0) -> str:
  if not isinstance(t, T):
    return repr(t)
  if depth > 6:
    return "..."
  o, a = t.op, t.args
  s = lambda x: show(x, depth + 1)  # noqa: E731
  if o == "c":
    return repr(a[0])
  if o == "tid":
    return f"tid{a[0]}"
  if o in ("p", "cv"):
    return str(a[0])
  if o == "enum":
    return f"{a[0]}.{a[1]}"
  if o == "ld":
    return f"{a[0]}[{', '.join(s(x) for x in a[1:])}]"
  if o == "at":
    return f"atomic_{a[1]}@{a[0]}"
  if o == "shape":
    return f"{a[0]}.shape[{a[1]}]"
  if o == "bin":
    return f"({s(a[1])} {a[0]} {s(a[2])})"
  if o == "un":
    return f"({a[0]}{s(a[1])})"
  if o == "cmp":
    return f"({s(a[1])} {a[0]} {s(a[2])})"
  if o in ("and", "or"):
    return "(" + f" {o} ".join(s(x) for x in a) + ")"
  if o == "not":
    return f"(not {s(a[0])})"
  if o == "call":
    return f"{a[0]}({', '.join(s(x) for x in a[1:])})"
  if o == "phi":
    return "phi(" + ", ".join(s(x) for x in a[:4]) + (", ..." if len(a) > 4 else "") + ")"
  if o == "lv":
    return f"{a[1]}#L{a[0]}"
  if o == "carried":
    return f"{a[1]}~L{a[0]}"
  if o == "idx":
    return f"{s(a[0])}[{', '.join(s(x) for x in a[1:])}]"
  if o == "attr":
    return f"{s(a[0])}.{a[1]}"
  if o == "tuple":
    return "(" + ", ".join(s(x) for x in a) + ")"
  if o == "ret":
    return f"{a[0]}=>{s(a[1])}"
  if o == "unk":
    return f"?{a[0]}"
  if o == "lit":
    return ("" if a[1] else "not ") + s(a[0])
  if o == "all":
    return "all(" + ", ".join(s(x) for x in a) + ")"
  return f"{o}(" + ", ".join(s(x) for x in a) + ")"


def subterms(t, _seen=None) -> Iterable[T]:
  """All distinct subterms (DAG walk)."""
  if _seen is None:
    _seen = set()
  stack = [t]
  while stack:
    x = stack.pop()
    if not isinstance(x, T) or x in _seen:
      continue
    _seen.add(x)
    yield x
    for a in x.args:
      if isinstance(a, T):
        stack.append(a)
      elif isinstance(a, tuple):
        for b in a:
          if isinstance(b, T):
            stack.append(b)


def contains(t, pred) -> bool:
  for s in subterms(t):
    if pred(s):
      return True
  return False


def phi(vals) -> T:
  flat = []
  for v in vals:
    if isinstance(v, T) and v.op == "phi":
      for x in v.args:
        if x not in flat:
          flat.append(x)
    elif v not in flat:
      flat.append(v)
  if len(flat) == 1:
    return flat[0]
  if len(flat) > 12:
    # keep terms bounded: collapse wide merges, remembering the distinct leaves is not needed
    return T("phi", *flat[:12], UNK("wide-phi"))
  return T("phi", *flat)


def alternatives(t) -> Tuple[T, ...]:
  """Top-level alternatives of a value (unfolds phi)."""
  if isinstance(t, T) and t.op == "phi":
    out = []
    for a in t.args:
      for x in alternatives(a):
        if x not in out:
          out.append(x)
    return tuple(out)
  return (t,)


# ---------------------------------------------------------------------------- affine normal form
class Affine:
  """sum(coeff * atom) + const with integer coefficients; atoms are terms."""

  __slots__ = ("coef", "const")

  def __init__(self, coef=None, const=0):
    self.coef = {k: v for k, v in (coef or {}).items() if v != 0}
    self.const = const

  def __add__(self, o):
    c = dict(self.coef)
    for k, v in o.coef.items():
      c[k] = c.get(k, 0) + v
    return Affine(c, self.const + o.const)

  def scale(self, k):
    return Affine({a: v * k for a, v in self.coef.items()}, self.const * k)

  def __sub__(self, o):
    return self + o.scale(-1)

  def is_const(self):
    return not self.coef

  def key(self):
    return (tuple(sorted(((a._h, v) for a, v in self.coef.items()))), self.const)

  def __repr__(self):
    parts = [f"{v}*{show(a)}" if v != 1 else show(a) for a, v in self.coef.items()]
    if self.const or not parts:
      parts.append(str(self.const))
    return " + ".join(parts)


def affine(t) -> Affine:
  """Affine normal form of an integer term (never fails: non-affine subterms become atoms)."""
  if not isinstance(t, T):
    if isinstance(t, (int, bool)):
      return Affine({}, int(t))
    return Affine({C(t): 1}, 0)
  if t.op == "c" and isinstance(t.args[0], (int, bool)) :
    return Affine({}, int(t.args[0]))
  if t.op == "bin":
    op, a, b = t.args
    if op == "+":
      return affine(a) + affine(b)
    if op == "-":
      return affine(a) - affine(b)
    if op == "*":
      fa, fb = affine(a), affine(b)
      if fa.is_const():
        return fb.scale(fa.const)
      if fb.is_const():
        return fa.scale(fb.const)
  if t.op == "un" and t.args[0] == "-":
    return affine(t.args[1]).scale(-1)
  if t.op == "call" and t.args[0] in ("int", "wp.int32", "wp.int64") and len(t.args) == 2:
    return affine(t.args[1])
  return Affine({t: 1}, 0)


def affine_alternatives(t, bound: int = 16) -> List[Affine]:
  """Affine normal forms of every phi-alternative of an integer term: phi nodes reachable through +, -, unary minus,
  constant scaling and int() casts are distributed (bounded); phis inside other operators stay inside the atom."""
  if isinstance(t, T):
    if t.op == "phi":
      out = []
      for a in t.args:
        for x in affine_alternatives(a, bound):
          if all(x.key() != y.key() for y in out):
            out.append(x)
      return out[:bound]
    if t.op == "bin" and t.args[0] in ("+", "-"):
      op, a, b = t.args
      xs, ys = affine_alternatives(a, bound), affine_alternatives(b, bound)
      if len(xs) * len(ys) > 1:
        return [(x + y) if op == "+" else (x - y) for x in xs for y in ys][:bound]
    if t.op == "bin" and t.args[0] == "*":
      _, a, b = t.args
      fa, fb = affine(a), affine(b)
      if fa.is_const():
        return [y.scale(fa.const) for y in affine_alternatives(b, bound)]
      if fb.is_const():
        return [x.scale(fb.const) for x in affine_alternatives(a, bound)]
    if t.op == "un" and t.args[0] == "-":
      return [x.scale(-1) for x in affine_alternatives(t.args[1], bound)]
    if t.op == "call" and t.args[0] in ("int", "wp.int32", "wp.int64") and len(t.args) == 2:
      return affine_alternatives(t.args[1], bound)
  return [affine(t)]


def same_affine(a, b) -> bool:
  return affine(a).key() == affine(b).key()


def lit(t, pol=True) -> T:
  """Path-condition literal, with double negations and comparison flips normalised."""
  while isinstance(t, T) and t.op == "not":
    t = t.args[0]
    pol = not pol
  if isinstance(t, T) and t.op == "cmp" and not pol:
    neg = {"<": ">=", ">=": "<", ">": "<=", "<=": ">", "==": "!=", "!=": "=="}
    if t.args[0] in neg:
      return T("lit", T("cmp", neg[t.args[0]], t.args[1], t.args[2]), True)
  return T("lit", t, pol)


def lit_parts(l) -> Tuple[T, bool]:
  return l.args[0], l.args[1]


def neg_conj(lits) -> Optional[T]:
  """Literal equal to the negation of a conjunction of literals (None for the empty conjunction)."""
  lits = tuple(lits)
  if not lits:
    return None
  if len(lits) == 1:
    t, pol = lit_parts(lits[0])
    return lit(t, not pol)
  return T("lit", T("all", *lits), False)


def pc_literals(pc) -> Iterable[Tuple[T, bool]]:
  """Flatten a path condition into (term, polarity) pairs; positive `and` literals are split."""
  for l in pc:
    t, pol = lit_parts(l)
    if pol and t.op == "and":
      for a in t.args:
        yield from pc_literals((lit(a, True),))
    elif not pol and t.op == "or":
      for a in t.args:
        yield from pc_literals((lit(a, False),))
    else:
      yield lit_parts(lit(t, pol))
