"""mjwstatic: repository-specific static analyser for mujoco_warp (pure stdlib, ast-based).

Nothing from /repo is ever imported or executed. See /verif/DESIGN.md.
"""
