"""E1 - kernel IR: a symbolic evaluator over the structured AST of Warp kernels and funcs.

For one entry function (a @wp.kernel, or a @wp.func analysed standalone) it produces
  * the access list: every array read / write / atomic / tile access, resolved to the entry
    function's own array parameters (through row views, struct fields and inlined wp.func calls),
    with full index terms, the path condition and the enclosing loops;
  * loop table, thread-index arity, called funcs, and notes about constructs it could not model.

Nothing is executed; values are hash-consed symbolic terms (terms.py).
"""

from __future__ import annotations

import ast
import dataclasses
import re
from typing import Any, Dict, List, Optional, Tuple

from .srcmodel import AnalysisError, FuncInfo, SourceModel, unparse
from .terms import C, T, UNK, alternatives, const_val, lit, neg_conj, phi

MAX_DEPTH = 12

ATOMICS = {
  "wp.atomic_add": "add",
  "wp.atomic_sub": "sub",
  "wp.atomic_max": "max",
  "wp.atomic_min": "min",
  "wp.atomic_or": "or",
  "wp.atomic_and": "and",
  "wp.atomic_xor": "xor",
  "wp.atomic_cas": "cas",
  "wp.atomic_exch": "exch",
}
AUG_ATOMIC = {ast.Add: "add", ast.Sub: "sub", ast.BitAnd: "and", ast.BitOr: "or", ast.BitXor: "xor"}

TILE_READS = {"wp.tile_load": 1, "wp.tile_load_indexed": 1}
TILE_WRITES = {"wp.tile_store": "tile_w", "wp.tile_store_indexed": "tile_w", "wp.tile_scatter_masked": "tile_w", "wp.tile_atomic_add": "tile_atomic", "wp.tile_scatter_add": "tile_atomic", "wp.tile_atomic_add_indexed": "tile_atomic"}
# builtins that read an array passed as an argument (array, ...)
ARRAY_READ_BUILTINS = {"wp.lower_bound", "wp.upper_bound", "len"}

BINOPS = {ast.Add: "+", ast.Sub: "-", ast.Mult: "*", ast.Div: "/", ast.FloorDiv: "//", ast.Mod: "%", ast.BitAnd: "&", ast.BitOr: "|", ast.BitXor: "^", ast.LShift: "<<", ast.RShift: ">>", ast.MatMult: "@", ast.Pow: "**"}
CMPOPS = {ast.Eq: "==", ast.NotEq: "!=", ast.Lt: "<", ast.LtE: "<=", ast.Gt: ">", ast.GtE: ">=", ast.Is: "is", ast.IsNot: "is not", ast.In: "in", ast.NotIn: "not in"}


class ArrRef:
  """(Partial) view of an array parameter of the entry function."""

  __slots__ = ("root", "prefix", "ndim", "dtype")

  def __init__(self, root: str, prefix: tuple, ndim: int, dtype: str):
    self.root, self.prefix, self.ndim, self.dtype = root, prefix, ndim, dtype

  @property
  def remaining(self):
    return self.ndim - len(self.prefix)

  def __repr__(self):
    return f"ArrRef({self.root}{list(self.prefix)}/{self.ndim})"


class ShapeVal:
  __slots__ = ("arr",)

  def __init__(self, arr: ArrRef):
    self.arr = arr


class StructVal:
  def __init__(self, cls: str, fields=None):
    self.cls = cls
    self.fields: Dict[str, Any] = dict(fields or {})

  def copy(self):
    return StructVal(self.cls, self.fields)


class FuncVal:
  def __init__(self, fi: FuncInfo, closure: Optional[Dict[str, Any]] = None):
    self.fi = fi
    self.closure = closure or {}


class ModRef:
  def __init__(self, kind, name):
    self.kind, self.name = kind, name  # kind: 'module' | 'ext' | 'enumcls' | 'class'


class PyVal:
  """A compile-time python value that is not a scalar (list/dict/tuple from a closure)."""

  def __init__(self, node, scope):
    self.node, self.scope = node, scope


@dataclasses.dataclass
class Access:
  root: str
  idx: tuple  # index terms (full element index, or a prefix for tile/row accesses)
  kind: str  # r | w | atomic_<op> | tile_r | tile_w | tile_atomic | arr_read
  pc: tuple  # path condition literals
  loc: str  # file:line of the access statement
  func: str  # key of the function containing the access text
  chain: tuple  # call-site locs leading to it
  loops: tuple  # enclosing loop ids
  value: Any = None  # stored value term for writes
  uid: str = ""
  complete: bool = True  # idx covers all dimensions of the root
  ret_used: bool = False  # atomic: its return value is bound/used
  stmt: Any = None

  @property
  def is_write(self):
    return self.kind != "r" and self.kind != "tile_r" and self.kind != "arr_read"

  @property
  def is_atomic(self):
    return self.kind.startswith("atomic_") or self.kind == "tile_atomic"


@dataclasses.dataclass
class ParamInfo:
  name: str
  ann: str
  kind: str  # array | struct | scalar
  ndim: int = 0
  dtype: str = ""


def parse_annotation(ann: str, structs) -> Tuple[str, int, str]:
  ann = ann.strip()
  m = re.match(r"^wp\.array(\d?)d?\[(.*)\]$", ann)
  if m:
    return "array", int(m.group(1) or 1), m.group(2)
  m = re.match(r"^wp\.array(\d?)d?\((.*)\)$", ann)
  if m:
    nd = int(m.group(1) or 1)
    m2 = re.search(r"ndim\s*=\s*(\d)", m.group(2))
    if m2:
      nd = int(m2.group(1))
    m3 = re.search(r"dtype\s*=\s*([\w\.]+)", m.group(2))
    return "array", nd, (m3.group(1) if m3 else "?")
  if ann.split(".")[-1] in structs:
    return "struct", 0, ann.split(".")[-1]
  return "scalar", 0, ann


def dotted(node) -> Optional[str]:
  if isinstance(node, ast.Name):
    return node.id
  if isinstance(node, ast.Attribute):
    b = dotted(node.value)
    return b + "." + node.attr if b else None
  return None


class Unsupported(Exception):
  pass


class _Frame:
  def __init__(self, fi: FuncInfo, env, closure, chain, host_scope=False):
    self.host_scope = host_scope
    self.fi = fi
    self.env: Dict[str, Any] = env
    self.closure = closure  # dict name -> value for enclosing-function names
    self.chain = chain
    self.returns: List[Tuple[tuple, Any]] = []


class KernelEval:
  """Symbolically evaluate one entry function."""

  def __init__(self, sm: SourceModel, entry: FuncInfo, static_vals: Optional[Dict[str, Any]] = None, closure_bind: Optional[Dict[str, Any]] = None, param_consts: Optional[Dict[str, Any]] = None):
    self.param_consts = dict(param_consts or {})
    self.mark_returns = set()  # func keys whose inlined results are wrapped as ret(<key>, value)
    self.sm = sm
    self.entry = entry
    self.static_vals = dict(static_vals or {})  # factory-param name -> python value (bool/int/enum tuple)
    self.closure_bind = dict(closure_bind or {})
    self.accesses: List[Access] = []
    self.loops: Dict[int, dict] = {}
    self.calls: Dict[str, int] = {}
    self.notes: List[str] = []
    self.escapes: List[str] = []
    self.ntid = 0
    self.params: List[ParamInfo] = []
    self._loop_id = 0
    self._stack: List[str] = []
    self._loopstack: List[int] = []
    self._uid_count: Dict[str, int] = {}
    self.static_tests: List[Tuple[str, Any]] = []
    self.stmt_count = 0

  # ------------------------------------------------------------------ entry
  def run(self):
    fi = self.entry
    env = {}
    for a in fi.params:
      ann = unparse(a.annotation) if a.annotation is not None else ""
      kind, nd, dt = parse_annotation(ann, self.sm.struct_fields)
      self.params.append(ParamInfo(a.arg, ann, kind, nd, dt))
      if kind == "array":
        env[a.arg] = ArrRef(a.arg, (), nd, dt)
      elif kind == "struct":
        env[a.arg] = self._struct_param(a.arg, dt)
      elif a.arg in self.param_consts:
        env[a.arg] = C(self.param_consts[a.arg])
      else:
        env[a.arg] = T("p", a.arg)
    closure = self._closure_for(fi)
    fr = _Frame(fi, env, closure, ())
    self._stack.append(fi.key)
    self._block(fr, fi.node.body, ())
    self._stack.pop()
    self.returns = fr.returns
    return self

  def _struct_param(self, name, cls):
    sv = StructVal(cls)
    for f, ann in self.sm.struct_fields.get(cls, {}).items():
      kind, nd, dt = parse_annotation(ann, self.sm.struct_fields)
      if kind == "array":
        sv.fields[f] = ArrRef(f"{name}.{f}", (), nd, dt)
      else:
        sv.fields[f] = T("attr", T("p", name), f)
    return sv

  def _closure_for(self, fi: FuncInfo):
    """Closure environment for a nested function: enclosing function params (bound values if known)."""
    clo = {}
    p = fi.parent
    chain = []
    while p is not None:
      chain.append(p)
      p = p.parent
    for p in reversed(chain):
      for a in p.params:
        if a.arg in self.static_vals:
          v = self.static_vals[a.arg]
          clo[a.arg] = self._pyconst(v)
        elif a.arg in self.closure_bind:
          clo[a.arg] = self.closure_bind[a.arg]
        else:
          clo[a.arg] = T("cv", a.arg)
      clo["__scope__:" + p.key] = p
    return clo

  @staticmethod
  def _pyconst(v):
    if isinstance(v, tuple) and len(v) == 3 and v[0] == "enum":
      return T("enum", v[1], v[2])
    if isinstance(v, (bool, int, float, str)) or v is None:
      return C(v)
    return v

  # ------------------------------------------------------------------ statements
  def _block(self, fr: _Frame, stmts, pc: tuple) -> List[Tuple[str, tuple]]:
    """Evaluate statements; return exits [(kind, conj-literals relative to block entry)]."""
    exits: List[Tuple[str, tuple]] = []
    extra: tuple = ()  # literals accumulated from earlier conditional exits in this block
    for st in stmts:
      self.stmt_count += 1
      cur = pc + extra
      new = self._stmt(fr, st, cur)
      dead = False
      for kind, conj in new:
        exits.append((kind, extra + conj))
        n = neg_conj(conj)
        if n is None:
          dead = True
        else:
          extra = extra + (n,)
      if dead:
        break
    return exits

  def _stmt(self, fr: _Frame, st, pc) -> List[Tuple[str, tuple]]:
    if isinstance(st, ast.Assign):
      val = self._expr(fr, st.value, pc, bound=True)
      for tgt in st.targets:
        self._assign(fr, tgt, val, pc, st)
      return []
    if isinstance(st, ast.AnnAssign):
      if st.value is not None:
        val = self._expr(fr, st.value, pc, bound=True)
        self._assign(fr, st.target, val, pc, st)
      return []
    if isinstance(st, ast.AugAssign):
      self._augassign(fr, st, pc)
      return []
    if isinstance(st, ast.Expr):
      if isinstance(st.value, ast.Constant):
        return []  # docstring
      self._expr(fr, st.value, pc, bound=False)
      return []
    if isinstance(st, ast.If):
      return self._if(fr, st, pc)
    if isinstance(st, ast.For):
      return self._for(fr, st, pc)
    if isinstance(st, ast.While):
      return self._while(fr, st, pc)
    if isinstance(st, ast.Return):
      v = self._expr(fr, st.value, pc, bound=True) if st.value is not None else None
      fr.returns.append((pc, v))
      return [("return", ())]
    if isinstance(st, ast.Continue):
      return [("continue", ())]
    if isinstance(st, ast.Break):
      return [("break", ())]
    if isinstance(st, ast.Pass):
      return []
    if isinstance(st, ast.FunctionDef):
      fr.env[st.name] = FuncVal(self._child_func(fr.fi, st), dict(fr.env))
      return []
    if isinstance(st, ast.Assert):
      return []
    raise AnalysisError(f"unsupported-construct {fr.fi.file}:{st.lineno} statement {type(st).__name__} in {fr.fi.key}")

  def _child_func(self, fi: FuncInfo, node) -> FuncInfo:
    ch = fi.children.get(node.name)
    if ch is None:
      raise AnalysisError(f"nested def {node.name} not registered in {fi.key}")
    return ch

  # static (compile-time) evaluation -----------------------------------------------------------
  def static_eval(self, fr: _Frame, node):
    """Evaluate a compile-time expression to a python value; raise Unsupported if unknown."""
    if isinstance(node, ast.Constant):
      return node.value
    if isinstance(node, ast.Name):
      v = self._lookup(fr, node.id, node)
      return self._to_py(v)
    if isinstance(node, ast.Attribute):
      v = self._expr(fr, node, (), bound=True, quiet=True)
      return self._to_py(v)
    if isinstance(node, ast.UnaryOp):
      a = self.static_eval(fr, node.operand)
      if isinstance(node.op, ast.Not):
        return not a
      if isinstance(node.op, ast.USub):
        return -a
      raise Unsupported()
    if isinstance(node, ast.BoolOp):
      # short-circuit with partial knowledge
      vals = []
      unknown = False
      for v in node.values:
        try:
          vals.append(self.static_eval(fr, v))
        except Unsupported:
          unknown = True
          vals.append(None)
      if isinstance(node.op, ast.And):
        if any(v is not None and not v for v in vals):
          return False
        if unknown:
          raise Unsupported()
        return vals[-1] if not all(isinstance(v, bool) for v in vals) else all(vals)
      else:
        if any(v is not None and bool(v) for v in vals if v is not None):
          return True
        if unknown:
          raise Unsupported()
        return any(vals)
    if isinstance(node, ast.Compare) and len(node.ops) == 1:
      a = self.static_eval(fr, node.left)
      b = self.static_eval(fr, node.comparators[0])
      op = type(node.ops[0])
      ea = isinstance(a, tuple) and a and a[0] == "enum"
      eb = isinstance(b, tuple) and b and b[0] == "enum"
      if ea or eb:
        if ea and eb and a[1] == b[1]:
          if op is ast.Eq:
            return a[2] == b[2]
          if op is ast.NotEq:
            return a[2] != b[2]
        # enum vs int
        ia = self.sm.enum_value(a[1], a[2]) if ea else a
        ib = self.sm.enum_value(b[1], b[2]) if eb else b
        if ia is None or ib is None:
          raise Unsupported()
        a, b = ia, ib
      try:
        return {ast.Eq: lambda: a == b, ast.NotEq: lambda: a != b, ast.Lt: lambda: a < b, ast.LtE: lambda: a <= b, ast.Gt: lambda: a > b, ast.GtE: lambda: a >= b}[op]()
      except (KeyError, TypeError):
        raise Unsupported()
    if isinstance(node, ast.BinOp):
      a = self.static_eval(fr, node.left)
      b = self.static_eval(fr, node.right)
      if isinstance(a, tuple):
        a = self.sm.enum_value(a[1], a[2])
      if isinstance(b, tuple):
        b = self.sm.enum_value(b[1], b[2])
      if a is None or b is None:
        raise Unsupported()
      try:
        return {ast.Add: lambda: a + b, ast.Sub: lambda: a - b, ast.Mult: lambda: a * b, ast.Div: lambda: a / b, ast.FloorDiv: lambda: a // b, ast.BitAnd: lambda: a & b, ast.BitOr: lambda: a | b, ast.Mod: lambda: a % b, ast.LShift: lambda: a << b}[type(node.op)]()
      except Exception:
        raise Unsupported()
    if isinstance(node, ast.Call):
      d = dotted(node.func)
      if d in ("bool", "int", "float") and len(node.args) == 1:
        v = self.static_eval(fr, node.args[0])
        if isinstance(v, tuple):
          v = self.sm.enum_value(v[1], v[2])
        if v is None or isinstance(v, (list, dict, tuple)):
          raise Unsupported()
        return {"bool": bool, "int": int, "float": float}[d](v)
      if d == "wp.static" and node.args:
        return self.static_eval(fr, node.args[0])
    raise Unsupported()

  def _to_py(self, v):
    if isinstance(v, T):
      if v.op == "c":
        return v.args[0]
      if v.op == "enum":
        return ("enum", v.args[0], v.args[1])
    raise Unsupported()

  def _static_test(self, fr, test):
    """If `test` is wp.static(e) (possibly under `not`), return (known, value, text)."""
    neg = False
    node = test
    while isinstance(node, ast.UnaryOp) and isinstance(node.op, ast.Not):
      neg = not neg
      node = node.operand
    if isinstance(node, ast.Call) and dotted(node.func) == "wp.static" and node.args:
      txt = unparse(node.args[0])
      try:
        v = bool(self.static_eval(fr, node.args[0]))
        return True, (not v if neg else v), txt
      except Unsupported:
        return False, None, txt
    return None

  def _if(self, fr, st, pc):
    stt = self._static_test(fr, st.test)
    if stt is not None and stt[0]:
      self.static_tests.append((stt[2], stt[1]))
      return self._block(fr, st.body if stt[1] else st.orelse, pc)
    if stt is not None:
      self.static_tests.append((stt[2], None))
    cond = self._expr(fr, st.test, pc, bound=True)
    cv = const_val(cond) if isinstance(cond, T) else None
    if isinstance(cond, T) and cond.op == "c" and isinstance(cv, bool):
      return self._block(fr, st.body if cv else st.orelse, pc)
    env0 = fr.env
    fr.env = self._fork(env0)
    lt = lit(cond, True)
    ex1 = self._block(fr, st.body, pc + (lt,))
    env1 = fr.env
    fr.env = self._fork(env0)
    lf = lit(cond, False)
    ex2 = self._block(fr, st.orelse, pc + (lf,)) if st.orelse else []
    env2 = fr.env
    dead1 = any(not c for _, c in ex1)
    dead2 = any(not c for _, c in ex2)
    if dead1 and not dead2:
      fr.env = env2
    elif dead2 and not dead1:
      fr.env = env1
    else:
      fr.env = self._merge(env1, env2)
    return [(k, (lt,) + c) for k, c in ex1] + [(k, (lf,) + c) for k, c in ex2]

  @staticmethod
  def _fork(env):
    out = {}
    for k, v in env.items():
      out[k] = v.copy() if isinstance(v, StructVal) else v
    return out

  def _merge(self, e1, e2):
    out = {}
    for k in set(e1) | set(e2):
      a, b = e1.get(k), e2.get(k)
      if a is None:
        out[k] = b
      elif b is None:
        out[k] = a
      else:
        out[k] = self._merge_val(a, b)
    return out

  def _merge_val(self, a, b):
    if a is b:
      return a
    if isinstance(a, T) and isinstance(b, T):
      return phi([a, b])
    if isinstance(a, StructVal) and isinstance(b, StructVal):
      sv = StructVal(a.cls)
      for f in set(a.fields) | set(b.fields):
        x, y = a.fields.get(f), b.fields.get(f)
        sv.fields[f] = x if y is None else y if x is None else self._merge_val(x, y)
      return sv
    if isinstance(a, ArrRef) and isinstance(b, ArrRef):
      if a.root == b.root and a.prefix == b.prefix:
        return a
      return [a, b]
    if isinstance(a, list) or isinstance(b, list):
      la = a if isinstance(a, list) else [a]
      lb = b if isinstance(b, list) else [b]
      return la + [x for x in lb if x not in la]
    if isinstance(a, FuncVal) and isinstance(b, FuncVal) and a.fi is b.fi:
      return a
    if isinstance(a, T) or isinstance(b, T):
      return phi([a if isinstance(a, T) else UNK("mixed"), b if isinstance(b, T) else UNK("mixed")])
    return a

  @staticmethod
  def _assigned_names(stmts) -> set:
    names = set()
    for st in stmts:
      for n in ast.walk(st):
        if isinstance(n, (ast.Assign, ast.AugAssign, ast.AnnAssign, ast.For)):
          tg = n.targets if isinstance(n, ast.Assign) else [n.target]
          for t in tg:
            for x in ast.walk(t):
              if isinstance(x, ast.Name) and isinstance(x.ctx, ast.Store):
                names.add(x.id)
              elif isinstance(x, (ast.Subscript, ast.Attribute)):
                # v[i] = .. / s.f = .. on a local value mutates that local
                b = x
                while isinstance(b, (ast.Subscript, ast.Attribute)):
                  b = b.value
                if isinstance(b, ast.Name):
                  names.add(b.id)
    return names

  def _enter_loop(self, fr, body, info) -> int:
    self._loop_id += 1
    lid = self._loop_id
    self.loops[lid] = info
    info["func"] = fr.fi.key
    info["parents"] = tuple(self._loopstack)
    for n in self._assigned_names(body):
      old = fr.env.get(n)
      if isinstance(old, T):
        fr.env[n] = phi([old, T("carried", lid, n)])
      elif isinstance(old, StructVal):
        sv = StructVal(old.cls)
        for f, v in old.fields.items():
          sv.fields[f] = phi([v, T("carried", lid, n + "." + f)]) if isinstance(v, T) else v
        fr.env[n] = sv
    return lid

  def _for(self, fr, st, pc):
    it = st.iter
    args = None
    if isinstance(it, ast.Call) and dotted(it.func) == "range":
      args = it.args
    elif isinstance(it, ast.Call) and dotted(it.func) == "wp.static" and it.args and isinstance(it.args[0], ast.Call) and dotted(it.args[0].func) == "range":
      args = it.args[0].args
    if args is None or not isinstance(st.target, ast.Name):
      raise AnalysisError(f"unsupported-construct {fr.fi.file}:{st.lineno} for-loop not over range() in {fr.fi.key}")
    vals = [self._expr(fr, a, pc, bound=True) for a in args]
    if len(vals) == 1:
      lo, hi, step = C(0), vals[0], C(1)
    elif len(vals) == 2:
      lo, hi, step = vals[0], vals[1], C(1)
    else:
      lo, hi, step = vals[:3]
    env_pre = self._fork(fr.env)
    lid = self._enter_loop(fr, st.body, {"kind": "for", "var": st.target.id, "lo": lo, "hi": hi, "step": step, "loc": f"{fr.fi.file}:{st.lineno}"})
    fr.env[st.target.id] = T("lv", lid, st.target.id)
    self._loopstack.append(lid)
    exits = self._block(fr, st.body, pc)
    self._loopstack.pop()
    fr.env = self._merge(env_pre, fr.env)
    if st.orelse:
      self._block(fr, st.orelse, pc)
    return self._loop_exits(lid, exits)

  def _while(self, fr, st, pc):
    env_pre = self._fork(fr.env)
    lid = self._enter_loop(fr, st.body, {"kind": "while", "loc": f"{fr.fi.file}:{st.lineno}"})
    self._loopstack.append(lid)
    cond = self._expr(fr, st.test, pc, bound=True)
    self.loops[lid]["cond"] = cond
    exits = self._block(fr, st.body, pc + (lit(cond, True),))
    self._loopstack.pop()
    fr.env = self._merge(env_pre, fr.env)
    return self._loop_exits(lid, exits)

  @staticmethod
  def _loop_exits(lid, exits):
    out = []
    for k, c in exits:
      if k == "return":
        out.append(("return", (T("lit", T("loopexit", lid, T("all", *c)), True),)))
    return out

  # assignment -----------------------------------------------------------------------------------
  def _assign(self, fr, tgt, val, pc, st):
    if isinstance(tgt, ast.Name):
      if isinstance(val, T) and val.op == "tidtuple":
        self.ntid = max(self.ntid, 1)
        val = T("tid", 0)
      fr.env[tgt.id] = val
      return
    if isinstance(tgt, (ast.Tuple, ast.List)):
      n = len(tgt.elts)
      if isinstance(val, tuple) and len(val) == n:
        items = val
      elif isinstance(val, T) and val.op == "tuple" and len(val.args) == n:
        items = val.args
      elif isinstance(val, T) and val.op == "tidtuple":
        self.ntid = max(self.ntid, n)
        items = tuple(T("tid", k) for k in range(n))
      elif isinstance(val, T) and val.op == "phi":
        alts = [a for a in val.args if isinstance(a, T) and a.op == "tuple" and len(a.args) == n]
        if alts and len(alts) == len(val.args):
          items = tuple(phi([a.args[i] for a in alts]) for i in range(n))
        else:
          items = tuple(T("idx", val, C(i)) for i in range(n))
      elif isinstance(val, T):
        items = tuple(T("idx", val, C(i)) for i in range(n))
      else:
        items = tuple(UNK("unpack") for _ in range(n))
      for e, v in zip(tgt.elts, items):
        self._assign(fr, e, v, pc, st)
      return
    if isinstance(tgt, ast.Subscript):
      er = self._elem_ref(fr, tgt.value, pc)
      if er is not None:
        # component store into an array element: arr[i, j][k] = v  (partial write of that element)
        cidx = self._indices(fr, tgt.slice, pc)
        for ar, eidx in er:
          acc = self._access(fr, ar, eidx, "w", pc, tgt, value=val if isinstance(val, T) else UNK("component"), stmt=st)
          acc.component = True
          acc.comp_idx = cidx
        return
      base = self._expr(fr, tgt.value, pc, bound=True)
      idx = self._indices(fr, tgt.slice, pc)
      if isinstance(base, (ArrRef, list)):
        for ar in base if isinstance(base, list) else [base]:
          if isinstance(ar, ArrRef):
            self._access(fr, ar, idx, "w", pc, tgt, value=val if isinstance(val, T) else UNK("nonterm"), stmt=st)
        return
      # component store on a local vector/matrix/struct value
      root = tgt.value
      while isinstance(root, (ast.Subscript, ast.Attribute)):
        root = root.value
      if isinstance(root, ast.Name):
        old = fr.env.get(root.id)
        if isinstance(old, T) or old is None:
          fr.env[root.id] = T("call", "setitem", old if isinstance(old, T) else UNK("undef"), *idx, val if isinstance(val, T) else UNK("nonterm"))
        elif isinstance(old, StructVal):
          self._struct_store(fr, tgt.value, lambda cur: T("call", "setitem", cur if isinstance(cur, T) else UNK("x"), *idx, val if isinstance(val, T) else UNK("nonterm")))
      return
    if isinstance(tgt, ast.Attribute):
      base = self._expr(fr, tgt.value, pc, bound=True)
      if isinstance(base, StructVal):
        base.fields[tgt.attr] = val
        return
      root = tgt.value
      while isinstance(root, (ast.Subscript, ast.Attribute)):
        root = root.value
      if isinstance(root, ast.Name):
        old = fr.env.get(root.id)
        if isinstance(old, T):
          fr.env[root.id] = T("call", "setattr", old, C(tgt.attr), val if isinstance(val, T) else UNK("nonterm"))
      return
    raise AnalysisError(f"unsupported-construct {fr.fi.file}:{st.lineno} assignment target {type(tgt).__name__}")

  def _elem_ref(self, fr, node, pc):
    """If `node` is arr[...] (possibly through a row view) denoting one complete array element, return
    [(ArrRef, index tuple)] without recording a read; else None."""
    if not isinstance(node, ast.Subscript):
      return None
    b = node.value
    if not isinstance(b, (ast.Name, ast.Attribute, ast.Subscript)):
      return None
    if isinstance(b, ast.Subscript):
      # arr[w][i]: evaluate the inner view (never a complete element if the outer completes it)
      inner = self._elem_ref(fr, b, pc)
      if inner is not None:
        return None
    base = self._expr(fr, b, pc, bound=True, quiet=True)
    refs = base if isinstance(base, list) else [base]
    if not refs or not all(isinstance(r, ArrRef) for r in refs):
      return None
    idx = self._indices(fr, node.slice, pc)
    out = []
    for ar in refs:
      if len(idx) != ar.remaining:
        return None
      out.append((ar, idx))
    return out

  def _struct_store(self, fr, node, fn):
    # node is an Attribute chain ending in a struct field, e.g. pt.verts  (pt.verts[i] = v)
    if isinstance(node, ast.Attribute):
      base = self._expr(fr, node.value, (), bound=True, quiet=True)
      if isinstance(base, StructVal):
        base.fields[node.attr] = fn(base.fields.get(node.attr))

  def _augassign(self, fr, st, pc):
    tgt = st.target
    val = self._expr(fr, st.value, pc, bound=True)
    op = BINOPS.get(type(st.op), "?")
    if isinstance(tgt, ast.Name):
      old = fr.env.get(tgt.id)
      if old is None:
        old = self._lookup(fr, tgt.id, tgt)
      fr.env[tgt.id] = self._bin(op, old, val)
      return
    if isinstance(tgt, ast.Subscript):
      er = self._elem_ref(fr, tgt.value, pc)
      if er is not None:
        cidx = self._indices(fr, tgt.slice, pc)
        for ar, eidx in er:
          self._access(fr, ar, eidx, "r", pc, tgt, stmt=st)
          acc = self._access(fr, ar, eidx, "w", pc, tgt, value=UNK("component"), stmt=st, rmw=True)
          acc.component = True
          acc.comp_idx = cidx
        return
      base = self._expr(fr, tgt.value, pc, bound=True)
      idx = self._indices(fr, tgt.slice, pc)
      if isinstance(base, (ArrRef, list)):
        for ar in base if isinstance(base, list) else [base]:
          if isinstance(ar, ArrRef):
            if type(st.op) in AUG_ATOMIC and ar.dtype not in ("wp.int8", "wp.uint8", "wp.int16", "wp.uint16"):
              # Warp lowers `arr[i] op= v` to wp.atomic_<op>(arr, i, v) (codegen.emit_AugAssign)
              self._access(fr, ar, idx, "atomic_" + AUG_ATOMIC[type(st.op)], pc, tgt, value=val, stmt=st, aug=True)
            else:
              self._access(fr, ar, idx, "r", pc, tgt, stmt=st)
              self._access(fr, ar, idx, "w", pc, tgt, value=self._bin(op, UNK("self"), val), stmt=st, rmw=True)
        return
      root = tgt.value
      while isinstance(root, (ast.Subscript, ast.Attribute)):
        root = root.value
      if isinstance(root, ast.Name):
        old = fr.env.get(root.id)
        if isinstance(old, T):
          fr.env[root.id] = T("call", "setitem", old, *idx, val if isinstance(val, T) else UNK("nonterm"))
        elif isinstance(old, StructVal):
          self._struct_store(fr, tgt.value, lambda cur: T("call", "setitem", cur if isinstance(cur, T) else UNK("x"), *idx, val if isinstance(val, T) else UNK("nonterm")))
      return
    if isinstance(tgt, ast.Attribute):
      base = self._expr(fr, tgt.value, pc, bound=True)
      if isinstance(base, StructVal):
        base.fields[tgt.attr] = self._bin(op, base.fields.get(tgt.attr, UNK("undef")), val)
      return
    raise AnalysisError(f"unsupported-construct {fr.fi.file}:{st.lineno} augassign target")

  # accesses -------------------------------------------------------------------------------------
  def _uid(self, fr, node):
    base = f"{fr.fi.file}:{getattr(node, 'lineno', 0)}:{getattr(node, 'col_offset', 0)}"
    if fr.chain:
      base += "@" + "/".join(fr.chain)
    n = self._uid_count.get(base, 0)
    self._uid_count[base] = n + 1
    return base if n == 0 else f"{base}#{n}"

  def _access(self, fr, ar: ArrRef, idx, kind, pc, node, value=None, stmt=None, aug=False, rmw=False, ret_used=False):
    full = tuple(ar.prefix) + tuple(idx)
    complete = len(full) == ar.ndim
    if len(full) > ar.ndim:
      self.notes.append(f"over-indexed {ar.root} at {fr.fi.file}:{node.lineno}")
      full = full[: ar.ndim]
    uid = self._uid(fr, node)
    acc = Access(ar.root, full, kind, pc, f"{fr.fi.file}:{getattr(node, 'lineno', 0)}", fr.fi.key, fr.chain, tuple(self._loopstack), value, uid, complete, ret_used, stmt)
    acc.aug = aug
    acc.rmw = rmw
    self.accesses.append(acc)
    return acc

  def _indices(self, fr, sl, pc) -> tuple:
    if isinstance(sl, ast.Tuple):
      return tuple(self._index1(fr, e, pc) for e in sl.elts)
    return (self._index1(fr, sl, pc),)

  def _index1(self, fr, e, pc):
    if isinstance(e, ast.Slice):
      lo = self._expr(fr, e.lower, pc, bound=True) if e.lower is not None else C(None)
      hi = self._expr(fr, e.upper, pc, bound=True) if e.upper is not None else C(None)
      return T("slice", lo if isinstance(lo, T) else UNK("s"), hi if isinstance(hi, T) else UNK("s"))
    v = self._expr(fr, e, pc, bound=True)
    return v if isinstance(v, T) else UNK("nonterm-index")

  # expressions ----------------------------------------------------------------------------------
  def _lookup(self, fr, name, node):
    if name in fr.env:
      return fr.env[name]
    if name in fr.closure:
      return fr.closure[name]
    # local of an enclosing (factory / host) function?
    p = fr.fi if fr.host_scope else fr.fi.parent
    while p is not None:
      v = self._enclosing_local(fr, p, name)
      if v is not None:
        fr.closure[name] = v
        return v
      p = p.parent
    r = self.sm.resolve_name(fr.fi.module, ast.Name(id=name, ctx=ast.Load()))
    return self._resolved(fr, r, name)

  def _guarded_assignments(self, p: FuncInfo, name):
    """[(value_expr, [(test, polarity), ...])] for assignments to `name` in the body of p (not nested defs)."""
    out = []

    def visit(stmts, conds):
      for st in stmts:
        if isinstance(st, ast.FunctionDef):
          continue
        if isinstance(st, ast.Assign):
          for t in st.targets:
            if isinstance(t, ast.Name) and t.id == name:
              out.append((st.value, list(conds)))
            elif isinstance(t, ast.Tuple) and isinstance(st.value, ast.Tuple) and len(t.elts) == len(st.value.elts):
              for a, b in zip(t.elts, st.value.elts):
                if isinstance(a, ast.Name) and a.id == name:
                  out.append((b, list(conds)))
            elif isinstance(t, ast.Tuple) and any(isinstance(a, ast.Name) and a.id == name for a in t.elts):
              out.append((None, list(conds)))
        elif isinstance(st, ast.AugAssign) and isinstance(st.target, ast.Name) and st.target.id == name:
          out.append((None, list(conds)))
        elif isinstance(st, ast.If):
          visit(st.body, conds + [(st.test, True)])
          visit(st.orelse, conds + [(st.test, False)])
        elif isinstance(st, (ast.For, ast.While)):
          if isinstance(st, ast.For):
            for x in ast.walk(st.target):
              if isinstance(x, ast.Name) and x.id == name:
                out.append((None, list(conds)))
          visit(st.body, conds + [(None, True)])
          visit(st.orelse, conds)
        elif isinstance(st, ast.With):
          visit(st.body, conds)
        elif isinstance(st, ast.Try):
          visit(st.body, conds)
          for h in st.handlers:
            visit(h.body, conds)
          visit(st.finalbody, conds)

    visit(p.node.body, [])
    return out

  def _enclosing_local(self, fr, p: FuncInfo, name):
    """Value of a name bound in the body of enclosing function p (compile-time constant, function value(s),
    python container, or an opaque closure value)."""
    if name in p.children:
      clo = dict(fr.closure)
      return FuncVal(p.children[name], clo)
    assigns = self._guarded_assignments(p, name)
    if not assigns:
      return None
    pf = _Frame(p, {}, fr.closure, fr.chain, host_scope=True)
    live = []
    for value, conds in assigns:
      feasible = True
      for test, pol in conds:
        if test is None:
          continue
        try:
          tv = bool(self.static_eval(pf, test))
          if tv != pol:
            feasible = False
            break
        except (Unsupported, AnalysisError, RecursionError):
          pass
      if feasible:
        live.append(value)
    if not live:
      return T("cv", name)
    vals = []
    for value in live:
      if value is None:
        return T("cv", name)
      v = None
      try:
        v = self._pyconst(self.static_eval(pf, value))
      except (Unsupported, AnalysisError, RecursionError):
        pass
      if v is None:
        fvs = self._func_values(pf, value)
        if fvs:
          vals.extend(fvs)
          continue
        if isinstance(value, (ast.List, ast.Tuple, ast.Dict)):
          v = PyVal(value, p)
        else:
          v = T("cv", name)
      vals.append(v)
    if len(vals) == 1:
      return vals[0]
    if all(isinstance(v, FuncVal) for v in vals):
      return vals
    if all(isinstance(v, T) for v in vals):
      return phi(vals) if len({v for v in vals}) > 1 else vals[0]
    return T("cv", name)

  def _func_values(self, fr, expr) -> List[FuncVal]:
    """Function values a host-scope expression may denote ([] if it is not a function)."""
    try:
      if isinstance(expr, (ast.Name, ast.Attribute)):
        v = self._expr(fr, expr, (), quiet=True)
        if isinstance(v, FuncVal):
          return [v]
        if isinstance(v, list) and all(isinstance(x, FuncVal) for x in v):
          return v
        return []
      if isinstance(expr, ast.Call):
        if dotted(expr.func) == "wp.static" and expr.args:
          return self._func_values(fr, expr.args[0])
        if isinstance(expr.func, (ast.Name, ast.Attribute)):
          tv = self._expr(fr, expr.func, (), quiet=True)
          if isinstance(tv, FuncVal) and tv.fi.kind in ("host", "factory"):
            return self._factory_result(fr, tv, expr)
      if isinstance(expr, ast.IfExp):
        return self._func_values(fr, expr.body) + self._func_values(fr, expr.orelse)
    except AnalysisError:
      return []
    return []

  def _factory_result(self, fr, tv: FuncVal, call: ast.Call, _depth=0) -> List[FuncVal]:
    """Nested function(s) returned by calling python-level factory tv with the arguments of `call`."""
    if _depth > 4:
      return []
    fi = tv.fi
    clo = dict(tv.closure) if tv.closure else (self._closure_for(fi) if fi.parent else {})
    params = fi.params
    defaults = fi.node.args.defaults
    kw = {k.arg: k.value for k in call.keywords}
    for i, p in enumerate(params):
      actual = None
      if i < len(call.args):
        actual = call.args[i]
      elif p.arg in kw:
        actual = kw[p.arg]
      if actual is not None:
        try:
          clo[p.arg] = self._pyconst(self.static_eval(fr, actual))
        except (Unsupported, RecursionError):
          v = self._expr(fr, actual, (), quiet=True)
          clo[p.arg] = v if isinstance(v, (T, FuncVal, PyVal, list)) else T("cv", unparse(actual))
      elif i >= len(params) - len(defaults):
        dn = defaults[i - (len(params) - len(defaults))]
        clo[p.arg] = C(dn.value) if isinstance(dn, ast.Constant) else T("cv", p.arg)
      else:
        clo[p.arg] = T("cv", p.arg)
    pf = _Frame(fi, {}, clo, fr.chain, host_scope=True)
    out = []

    def rets(stmts):
      for st in stmts:
        if isinstance(st, ast.FunctionDef):
          continue
        if isinstance(st, ast.Return) and st.value is not None:
          yield st.value
        for fld in ("body", "orelse", "finalbody"):
          sub = getattr(st, fld, None)
          if isinstance(sub, list):
            yield from rets(sub)

    for rv in rets(fi.node.body):
      if isinstance(rv, ast.Name) and rv.id in fi.children:
        out.append(FuncVal(fi.children[rv.id], clo))
      elif isinstance(rv, ast.Call) and isinstance(rv.func, (ast.Name, ast.Attribute)):
        callee = self._expr(pf, rv.func, (), quiet=True)
        if isinstance(callee, FuncVal) and callee.fi.kind in ("host", "factory"):
          out.extend(self._factory_result(pf, callee, rv, _depth + 1))
      elif isinstance(rv, ast.Name):
        v = self._lookup(pf, rv.id, rv)
        if isinstance(v, FuncVal):
          out.append(v)
        elif isinstance(v, list):
          out.extend(x for x in v if isinstance(x, FuncVal))
    return out

  def _resolved(self, fr, r, text):
    if r is None:
      if text in ("True", "False", "None"):
        return C({"True": True, "False": False, "None": None}[text])
      if text in ("int", "float", "bool", "range", "len", "min", "max", "abs"):
        return ModRef("builtin", text)
      return T("cv", text)
    k = r[0]
    if k == "func":
      return FuncVal(r[1], self._closure_for(r[1]) if r[1].parent else {})
    if k == "enum":
      return T("enum", r[1], r[2])
    if k in ("module", "ext", "enumcls"):
      return ModRef(k, r[1])
    if k == "class":
      if r[2] in self.sm.struct_fields:
        return ModRef("struct", r[2])
      return ModRef("class", r[2])
    if k == "const":
      node = r[3]
      v = self.sm.const_int(r[1], node)
      if v is not None and not isinstance(node, (ast.List, ast.Dict)):
        return C(v)
      if isinstance(node, ast.Constant):
        return C(node.value)
      if isinstance(node, ast.UnaryOp) and isinstance(node.op, ast.USub) and isinstance(node.operand, ast.Constant):
        return C(-node.operand.value)
      if isinstance(node, (ast.List, ast.Tuple, ast.Dict)):
        return PyVal(node, None)
      if isinstance(node, ast.Call) and dotted(node.func) in ("wp.constant", "wp.static") and node.args:
        return self._resolved(fr, ("const", r[1], r[2], node.args[0]), text)
      if isinstance(node, (ast.Name, ast.Attribute)):
        rr = self.sm.resolve_name(r[1], node)
        if rr is not None and rr[0] == "ext":
          return T("cv", f"{r[1]}.{r[2]}")
        if rr is not None:
          return self._resolved(fr, rr, text)
      return T("cv", f"{r[1]}.{r[2]}")
    return T("cv", text)

  def _bin(self, op, a, b):
    a = a if isinstance(a, T) else UNK("nonterm")
    b = b if isinstance(b, T) else UNK("nonterm")
    va, vb = const_val(a), const_val(b)
    if a.op == "c" and b.op == "c" and isinstance(va, (int, float)) and isinstance(vb, (int, float)) and not isinstance(va, bool) and not isinstance(vb, bool):
      try:
        r = {"+": lambda: va + vb, "-": lambda: va - vb, "*": lambda: va * vb, "//": lambda: va // vb, "%": lambda: va % vb, "<<": lambda: va << vb, "|": lambda: va | vb, "&": lambda: va & vb}.get(op)
        if r is not None:
          return C(r())
      except Exception:
        pass
    return T("bin", op, a, b)

  def _expr(self, fr, node, pc, bound=True, quiet=False):
    """Evaluate an expression to a value. `bound`: the value is used (matters for atomics)."""
    if node is None:
      return C(None)
    if isinstance(node, ast.Constant):
      return C(node.value)
    if isinstance(node, ast.Name):
      return self._lookup(fr, node.id, node)
    if isinstance(node, ast.Attribute):
      return self._attribute(fr, node, pc, quiet)
    if isinstance(node, ast.Subscript):
      return self._subscript(fr, node, pc)
    if isinstance(node, ast.BinOp):
      a = self._expr(fr, node.left, pc)
      b = self._expr(fr, node.right, pc)
      return self._bin(BINOPS.get(type(node.op), "?"), a, b)
    if isinstance(node, ast.UnaryOp):
      a = self._expr(fr, node.operand, pc)
      a = a if isinstance(a, T) else UNK("nonterm")
      if isinstance(node.op, ast.Not):
        if a.op == "c" and isinstance(a.args[0], bool):
          return C(not a.args[0])
        return T("not", a)
      if isinstance(node.op, ast.USub):
        v = const_val(a)
        if a.op == "c" and isinstance(v, (int, float)) and not isinstance(v, bool):
          return C(-v)
        return T("un", "-", a)
      if isinstance(node.op, ast.Invert):
        return T("un", "~", a)
      return a
    if isinstance(node, ast.Compare):
      left = self._expr(fr, node.left, pc)
      parts = []
      for op, right in zip(node.ops, node.comparators):
        r = self._expr(fr, right, pc)
        l_ = left if isinstance(left, T) else UNK("nonterm")
        r_ = r if isinstance(r, T) else UNK("nonterm")
        parts.append(T("cmp", CMPOPS.get(type(op), "?"), l_, r_))
        left = r
      return parts[0] if len(parts) == 1 else T("and", *parts)
    if isinstance(node, ast.BoolOp):
      # short-circuit: later operands are evaluated under the earlier ones
      vals = []
      cur = pc
      isand = isinstance(node.op, ast.And)
      for v in node.values:
        x = self._expr(fr, v, cur)
        x = x if isinstance(x, T) else UNK("nonterm")
        vals.append(x)
        cur = cur + (lit(x, isand),)
      # constant folding
      keep = []
      for x in vals:
        cvv = const_val(x)
        if x.op == "c" and isinstance(cvv, bool):
          if isand and not cvv:
            return C(False)
          if not isand and cvv:
            return C(True)
          continue
        keep.append(x)
      if not keep:
        return C(isand)
      if len(keep) == 1:
        return keep[0]
      return T("and" if isand else "or", *keep)
    if isinstance(node, ast.IfExp):
      stt = self._static_test(fr, node.test)
      if stt is not None and stt[0]:
        return self._expr(fr, node.body if stt[1] else node.orelse, pc)
      c = self._expr(fr, node.test, pc)
      c = c if isinstance(c, T) else UNK("nonterm")
      a = self._expr(fr, node.body, pc + (lit(c, True),))
      b = self._expr(fr, node.orelse, pc + (lit(c, False),))
      return self._merge_val(a, b)
    if isinstance(node, ast.Tuple):
      items = [self._expr(fr, e, pc) for e in node.elts]
      if all(isinstance(i, T) for i in items):
        return T("tuple", *items)
      return tuple(items)
    if isinstance(node, ast.Call):
      return self._call(fr, node, pc, bound)
    if isinstance(node, ast.List):
      items = [self._expr(fr, e, pc) for e in node.elts]
      return T("call", "list", *[i if isinstance(i, T) else UNK("nonterm") for i in items])
    if isinstance(node, ast.JoinedStr):
      return C("<fstring>")
    raise AnalysisError(f"unsupported-construct {fr.fi.file}:{getattr(node, 'lineno', 0)} expression {type(node).__name__} in {fr.fi.key}")

  def _attribute(self, fr, node, pc, quiet=False):
    base = self._expr(fr, node.value, pc, quiet=quiet)
    attr = node.attr
    if isinstance(base, ModRef):
      if base.kind == "module":
        r = self.sm._symbol(base.name, attr)
        return self._resolved(fr, r, f"{base.name}.{attr}")
      if base.kind == "enumcls":
        return T("enum", base.name, attr)
      if base.kind == "ext":
        return ModRef("ext", base.name + "." + attr)
      if base.kind == "class":
        if base.name in self.sm.enums:
          return T("enum", base.name, attr)
        return T("cv", f"{base.name}.{attr}")
      return T("cv", f"{base.name}.{attr}")
    if isinstance(base, ArrRef):
      if attr == "shape":
        return ShapeVal(base)
      if attr in ("size",):
        return T("call", "size", T("shape", base.root, 0))
      return T("attr", UNK("array"), attr)
    if isinstance(base, list):
      return UNK("attr-of-alternatives")
    if isinstance(base, StructVal):
      if attr in base.fields:
        return base.fields[attr]
      v = T("attr", T("cv", f"struct:{base.cls}"), attr)
      return v
    if isinstance(base, T):
      return T("attr", base, attr)
    return UNK("attr")

  def _subscript(self, fr, node, pc):
    base = self._expr(fr, node.value, pc)
    if isinstance(base, ShapeVal):
      k = self._expr(fr, node.slice, pc)
      kv = const_val(k) if isinstance(k, T) else None
      if isinstance(kv, int):
        # shape of a view: dimension index shifts by the prefix length
        return T("shape", base.arr.root, kv + len(base.arr.prefix))
      return T("shape", base.arr.root, -1)
    if isinstance(base, (ArrRef, list)):
      idx = self._indices(fr, node.slice, pc)
      outs = []
      for ar in base if isinstance(base, list) else [base]:
        if not isinstance(ar, ArrRef):
          continue
        if len(idx) >= ar.remaining:
          self._access(fr, ar, idx, "r", pc, node)
          full = tuple(ar.prefix) + tuple(idx)
          outs.append(T("ld", ar.root, *full[: ar.ndim]))
        else:
          outs.append(ArrRef(ar.root, tuple(ar.prefix) + tuple(idx), ar.ndim, ar.dtype))
      if not outs:
        return UNK("subscript")
      if all(isinstance(o, T) for o in outs):
        return phi(outs)
      return outs[0] if len(outs) == 1 else outs
    if isinstance(base, PyVal):
      try:
        k = self.static_eval(fr, node.slice)
      except Unsupported:
        return PyValIndex(base, node.slice)
      return self._pyval_index(fr, base, k)
    if isinstance(base, PyValIndex):
      return PyValIndex(base, node.slice)
    idx = self._indices(fr, node.slice, pc)
    if isinstance(base, T):
      if base.op == "tuple":
        kv = const_val(idx[0]) if len(idx) == 1 else None
        if isinstance(kv, int) and -len(base.args) <= kv < len(base.args):
          return base.args[kv]
      return T("idx", base, *idx)
    if isinstance(base, tuple):
      kv = const_val(idx[0]) if len(idx) == 1 else None
      if isinstance(kv, int) and -len(base) <= kv < len(base):
        return base[kv]
      return UNK("tuple-index")
    return UNK("subscript")

  def _pyval_index(self, fr, pv: "PyVal", k):
    node = pv.node
    if isinstance(node, (ast.List, ast.Tuple)) and isinstance(k, int) and -len(node.elts) <= k < len(node.elts):
      e = node.elts[k]
      if isinstance(e, (ast.List, ast.Tuple, ast.Dict)):
        return PyVal(e, pv.scope)
      try:
        return self._pyconst(self.static_eval(fr, e))
      except Unsupported:
        return T("cv", unparse(e))
    return T("cv", "pyval-index")

  # calls ----------------------------------------------------------------------------------------
  def _call(self, fr, node, pc, bound):
    f = node.func
    d = dotted(f)
    # wp.static(X)(args): compile-time selected function
    if isinstance(f, ast.Call) and dotted(f.func) == "wp.static" and f.args:
      cands = self._static_funcs(fr, f.args[0], len(node.args))
      return self._call_candidates(fr, cands, node, pc, f"static:{unparse(f.args[0])[:40]}")
    if d == "wp.tid":
      return T("tidtuple")
    if d == "wp.static" and node.args:
      try:
        return self._pyconst(self.static_eval(fr, node.args[0]))
      except Unsupported:
        v = self._expr(fr, node.args[0], pc, quiet=True)
        if isinstance(v, (T, FuncVal, PyVal)):
          return v
        return T("cv", "static:" + unparse(node.args[0]))
    if d in ATOMICS:
      return self._atomic(fr, node, pc, ATOMICS[d], bound)
    if d in TILE_READS or d in TILE_WRITES:
      return self._tile(fr, node, pc, d)
    target = None
    if isinstance(f, ast.Name):
      target = self._lookup(fr, f.id, f)
    elif isinstance(f, ast.Attribute):
      target = self._expr(fr, f, pc, quiet=True)
    if isinstance(target, FuncVal):
      if target.fi.kind == "func":
        return self._inline(fr, target, node, pc)
      if target.fi.kind in ("factory", "host"):
        # a python-level helper called at compile time (only legal under wp.static) - not modelled here
        return T("cv", f"hostcall:{target.fi.key}")
      if target.fi.kind == "kernel":
        raise AnalysisError(f"kernel called from kernel at {fr.fi.file}:{node.lineno}")
    if isinstance(target, ModRef) and target.kind == "struct":
      return StructVal(target.name)
    if isinstance(target, list):
      fv = [t for t in target if isinstance(t, FuncVal)]
      if fv:
        return self._call_candidates(fr, fv, node, pc, "alts")
    # builtin / warp intrinsic / constructor: pure call on argument values
    name = d or (target.name if isinstance(target, ModRef) else unparse(f))
    if isinstance(target, ModRef) and target.kind == "ext":
      name = target.name.replace("warp.", "wp.") if target.name.startswith("warp.") else name
    args = []
    for a in node.args:
      if isinstance(a, ast.Starred):
        args.append(UNK("starred"))
        continue
      v = self._expr(fr, a, pc)
      if isinstance(v, (ArrRef, list)):
        for ar in v if isinstance(v, list) else [v]:
          if isinstance(ar, ArrRef):
            if name in ARRAY_READ_BUILTINS:
              self._access(fr, ar, (), "arr_read", pc, node)
            else:
              self.escapes.append(f"{name}({ar.root}) at {fr.fi.file}:{node.lineno}")
        args.append(UNK("array-arg"))
      elif isinstance(v, T):
        args.append(v)
      elif isinstance(v, StructVal):
        args.append(T("cv", f"struct:{v.cls}"))
      else:
        args.append(UNK("nonterm"))
    for kw in node.keywords:
      v = self._expr(fr, kw.value, pc)
      if isinstance(v, T):
        args.append(v)
    if name in ("int", "float", "wp.int32", "wp.float32", "bool", "wp.bool") and len(args) == 1 and args[0].op == "c":
      try:
        py = {"int": int, "wp.int32": int, "float": float, "wp.float32": float, "bool": bool, "wp.bool": bool}[name]
        return C(py(args[0].args[0]))
      except Exception:
        pass
    return T("call", name, *args)

  def _static_funcs(self, fr, expr, nargs) -> List[FuncVal]:
    """Functions a compile-time expression may denote."""
    fvs = self._func_values(fr, expr)
    if fvs:
      return fvs
    # subscript of a closure list: enumerate wp.funcs of matching arity in that list / module
    if isinstance(expr, ast.Subscript):
      base = self._expr(fr, expr.value, (), quiet=True)
      names = []
      if isinstance(base, PyVal):
        for n in ast.walk(base.node):
          if isinstance(n, ast.Name):
            names.append(n.id)
      cands = []
      mod = self.sm.modules[fr.fi.module]
      pool = [mod.funcs[n] for n in names if n in mod.funcs] or list(mod.funcs.values())
      for fi in pool:
        if fi.kind == "func" and len(fi.params) == nargs:
          cands.append(FuncVal(fi, {}))
      if cands:
        return cands
    raise AnalysisError(f"unsupported-construct {fr.fi.file}:{expr.lineno} cannot resolve wp.static function {unparse(expr)[:60]}")

  def _call_candidates(self, fr, cands, node, pc, why):
    outs = []
    if len(cands) == 1:
      return self._inline(fr, cands[0], node, pc)
    # evaluate arguments once per candidate under an opaque selector literal
    for i, fv in enumerate(cands):
      sel = lit(T("cv", f"select:{fv.fi.name}"), True)
      outs.append(self._inline(fr, fv, node, pc + (sel,)))
    if all(isinstance(o, T) for o in outs):
      return phi(outs)
    return outs[0]

  def _inline(self, fr, fv: FuncVal, node, pc):
    fi = fv.fi
    if fi.parent is None:
      ov = self.sm.modules[fi.module].overloads.get(fi.name, [])
      if len(ov) > 1:
        nargs = len(node.args) + len(node.keywords)
        match = [o for o in ov if len(o.params) - len(o.node.args.defaults) <= nargs <= len(o.params)]
        if len(match) != 1:
          raise AnalysisError(f"unsupported-construct {fr.fi.file}:{node.lineno} ambiguous overload {fi.key}")
        fi = match[0]
        fv = FuncVal(fi, fv.closure)
    self.calls[fi.key] = self.calls.get(fi.key, 0) + 1
    if fi.key in self._stack or len(self._stack) >= MAX_DEPTH:
      raise AnalysisError(f"inlining depth/recursion at {fr.fi.file}:{node.lineno} -> {fi.key}")
    params = fi.params
    env = {}
    actuals = list(node.args)
    kw = {k.arg: k.value for k in node.keywords}
    defaults = fi.node.args.defaults
    ndef = len(defaults)
    for i, p in enumerate(params):
      if i < len(actuals):
        v = self._expr(fr, actuals[i], pc)
      elif p.arg in kw:
        v = self._expr(fr, kw[p.arg], pc)
      elif i >= len(params) - ndef:
        v = self._expr(fr, defaults[i - (len(params) - ndef)], pc)
      else:
        v = UNK("missing-arg")
      if isinstance(v, StructVal):
        v = v.copy()
      env[p.arg] = v
    clo = dict(fv.closure) if fv.closure else (self._closure_for(fi) if fi.parent else {})
    site = f"{fr.fi.file}:{node.lineno}"
    nf = _Frame(fi, env, clo, fr.chain + (site,))
    self._stack.append(fi.key)
    saved_loops = self._loopstack
    self._block(nf, fi.node.body, pc)
    self._stack.pop()
    rets = [v for _, v in nf.returns if v is not None]
    if not rets:
      return C(None)
    out = rets[0] if len(rets) == 1 else self._merge_returns(rets)
    if fi.key in self.mark_returns and isinstance(out, T):
      return T("ret", fi.key, out)
    return out

  def _merge_returns(self, rets):
    # tuple-wise merge when all returns are tuples of equal arity
    def as_items(v):
      if isinstance(v, tuple):
        return list(v)
      if isinstance(v, T) and v.op == "tuple":
        return list(v.args)
      return None

    items = [as_items(r) for r in rets]
    if all(i is not None for i in items) and len({len(i) for i in items}) == 1:
      n = len(items[0])
      merged = []
      for k in range(n):
        col = [i[k] for i in items]
        out = col[0]
        for c in col[1:]:
          out = self._merge_val(out, c)
        merged.append(out)
      if all(isinstance(m, T) for m in merged):
        return T("tuple", *merged)
      return tuple(merged)
    out = rets[0]
    for r in rets[1:]:
      out = self._merge_val(out, r)
    return out

  def _atomic(self, fr, node, pc, op, bound):
    args = node.args
    if not args:
      return UNK("atomic")
    base = self._expr(fr, args[0], pc)
    rest = [self._expr(fr, a, pc) for a in args[1:]]
    rest = [r if isinstance(r, T) else UNK("nonterm") for r in rest]
    res = []
    for ar in base if isinstance(base, list) else [base]:
      if not isinstance(ar, ArrRef):
        self.notes.append(f"atomic on non-array at {fr.fi.file}:{node.lineno}")
        continue
      nidx = ar.remaining
      nval = 2 if op == "cas" else 1
      if len(rest) < nidx + nval:
        nidx = max(0, len(rest) - nval)
      idx = tuple(rest[:nidx])
      val = rest[nidx] if len(rest) > nidx else UNK("noval")
      acc = self._access(fr, ar, idx, "atomic_" + op, pc, node, value=val, ret_used=bound)
      res.append(T("at", acc.uid, op, ar.root))
    if not res:
      return UNK("atomic")
    return phi(res)

  def _tile(self, fr, node, pc, d):
    args = node.args
    base = self._expr(fr, args[0], pc) if args else None
    kws = {k.arg: self._expr(fr, k.value, pc) for k in node.keywords}
    others = [self._expr(fr, a, pc) for a in args[1:]]
    kind = "tile_r" if d in TILE_READS else TILE_WRITES[d]
    off = kws.get("offset")
    for ar in base if isinstance(base, list) else [base]:
      if isinstance(ar, ArrRef):
        acc = self._access(fr, ar, (), kind, pc, node, value=None)
        acc.tile_offset = off
        acc.tile_shape = kws.get("shape")
        acc.tile_args = others
    return T("call", d, *[o for o in others if isinstance(o, T)])


class PyValIndex:
  """Subscript of a compile-time container with a non-constant (loop) index."""

  def __init__(self, base, index):
    self.base, self.index = base, index


def returned_function(fi: FuncInfo) -> Optional[FuncInfo]:
  """For a factory: the nested kernel/func it returns (by `return <name>`)."""
  rets = []
  for st in ast.walk(fi.node):
    if isinstance(st, ast.Return) and isinstance(st.value, ast.Name) and st.value.id in fi.children:
      rets.append(fi.children[st.value.id])
  if len({r.key for r in rets}) == 1:
    return rets[0]
  if len(fi.children) == 1 and not rets:
    return None
  return rets[0] if rets else None


def evaluate(sm: SourceModel, fi: FuncInfo, static_vals=None, closure_bind=None, param_consts=None, mark_returns=None) -> KernelEval:
  ke = KernelEval(sm, fi, static_vals, closure_bind, param_consts)
  ke.mark_returns = set(mark_returns or ())
  return ke.run()
