"""Per-property manifest entries (source of MANIFEST.json; see tools/gen_manifest.py)."""

STATIC_NOTE = "Trusted: the analyser's model of the Warp DSL subset used by the repo, the types.py schema and _in/_out naming convention, hand-confirmed tables in mjwstatic/tables (listed in the evidence). Decides a structural necessary condition of the behavioural statement, not the numeric behaviour."

CLAIMED = {
  "C09": {
    "text": "Static decision that no kernel reachable from the public simulation entry points reads or writes a cell of another world: every first index of every per-world array has world provenance; world-tag arrays are only assigned world ids (inductive, package-wide); cross-world counters are written atomically. Also: the condition array of wp.capture_if/capture_while is a batch-wide scalar, never per-world; with a reset mask given, reset_data writes per-world Data only through kernels that take the mask.",
    "note": STATIC_NOTE,
    "technique": "dataflow: world-provenance of index terms over a symbolic kernel IR + launch bindings (R-WORLD) + device-condition shape check + symbolic-mask host trace (R-WORLD.6, R-RESET.5)",
    "design_ref": "DESIGN.md section 4 C09, section 3 R-WORLD",
  },
  "C10": {
    "text": "Static decision of the mechanism the property names: every access to a batchable Model field uses the thread's world id modulo that field's own batch size (through funcs, row views and closure constants), package-wide over all 312 launch sites. Also: a Data field that make_data seeds from the unbatched MjModel and that a step kernel recomputes from batched fields is recomputed for every element unless the model-determined skip requires those fields to be unbatched.",
    "note": STATIC_NOTE,
    "technique": "custom lint over resolved kernel IR: batched-index normal form (R-BATCH) + host-seeded-vs-batched agreement (R-BATCH.4)",
    "design_ref": "DESIGN.md section 4 C10, section 3 R-BATCH",
  },
}

CLAIMED["C16"] = {
  "text": "Static decision that no capacity guard can drop a contact / broadphase pair / constraint-row / Jacobian-non-zero / CCD / flex-candidate block silently: every slot allocated from an atomic counter is bounded by a capacity comparison that is exactly `slot + n <= cap`, an overflow-flagging statement compares the same counter with the same capacity, and no allocation is pre-gated by a plain read of its own counter.",
  "note": STATIC_NOTE,
  "technique": "path-condition dataflow + linear normal forms of capacity guards over the kernel IR (R-CAP O1-O4)",
  "design_ref": "DESIGN.md section 4 C16, section 3 R-CAP",
}


_FAMILY_A = {
  "C01": "kinematics (kinematics, com_pos, camlight, flex, tendon)",
  "C02": "smooth dynamics (crb, factor/solve, com_vel, passive, rne, fwd_acceleration)",
  "C03": "actuation (transmission, actuator force, activation integration)",
  "C04": "collision (broadphase, narrowphase, contact writer) plus agreement of the collision routing tables",
  "C05": "constraint assembly (row builders)",
  "C07": "sensor stages and energy",
  "C08": "integrators and state advance",
  "C22": "the Jacobian kernels (support.jac, constraint-row Jacobians, tendon and actuator-moment Jacobians) - only their binding, index-space, batching and com-frame discipline; the derivative identity J*qvel = velocity is numeric and NOT decided",
  "C27": "the velocity-derivative kernels of derivative.py (actuation, damping, fluid, tendon, Coriolis) - binding, index-space, batching and com-frame discipline only; correctness of the derivative values is numeric and NOT decided (their flag gating is decided under C32)",
  "C39": "the contact wrench decode kernel; plus: every efc.force cell it reads lies in world contact.worldid[cid] at a row of contact.efc_address[cid, .] of the same requested contact (R-RECORD.2). The decode arithmetic (pyramid/elliptic formulas, frame rotation) is NOT decided",
  "C40": "the flex kernels (flex vertex/edge kinematics, flex passive forces, flex constraint rows, flex collision) - 33 kernels; plus complete, unconditional contact-slot and constraint-row records in the flex writers",
}
for _p, _w in _FAMILY_A.items():
  CLAIMED[_p] = {
    "text": f"Structural necessary conditions only, for {_w}: every launch reachable from the stage binds each schema-named kernel parameter to the same-named Model/Data field (argument-order conformance over all bindings), read-only Data parameters are not written, index spaces are not mixed, batched fields are indexed by the world modulo their own size, no enum member the stage dispatches on lost its handler relative to the confirmed baseline, com-based quantities are shifted about subtree_com[body_rootid[.]] only, quaternions assembled from qpos are normalised before use, plus the property-specific structural clauses named under `technique`. Numerical agreement with MuJoCo is NOT decided (no static argument bounds float results).",
    "note": STATIC_NOTE,
    "technique": "launch-binding conformance over resolved call sites + index-space typing + batched-index normal form + enum-handler exhaustiveness against a confirmed baseline + reference-offset and com-frame agreement + must-pass-through normalisation of state quaternions, plus per-property clauses (C03 clamp-last, path-sensitive clamp on every return of next_act, gain/bias parameter families; C04 routing tables and contact-slot record completeness; C05 row-class launch order and constraint-row record completeness; C07 cutoff-last, object-type frame families, slot-record permutation, either-order writers commute, tagged-id comparisons pinned to one index space; C08 RK4 save/restore, advance order, integrator workspaces initialised before partial writes) (R-BIND, R-SORT, R-BATCH, R-DISPATCH, R-REF, R-FRAME, R-NORM.5, R-CLAMP, R-FAMILY, R-SEQ, R-RECORD, R-PAIR, R-LIVE.5/.5b/.7)",
    "design_ref": "DESIGN.md section 4 Family A",
  }

CLAIMED["C14"] = {
  "text": "Static decision of the field-set, source, extent, masking, ordering and rejection clauses: the keyframe copy writes exactly mj_resetDataKeyframe's fields from the same-named key_* arrays at [key_in[worldid]] over their full extents, every access is dominated by the validity mask 0 <= key < nkey, reset_data(mask) precedes the copy, and scalar keys out of range raise before any launch. Also: the validity mask is a scratch array of the call, written by a validity launch that dominates reset_data and the keyframe copy (R-GATE.7); no undeclared attribute is hung on Model/Data (R-GLOBAL.9).",
  "note": STATIC_NOTE,
  "technique": "kernel IR value/extent matching against a MuJoCo layout oracle + dominance of the world mask + host event ordering (R-LAYOUT, R-GATE)",
  "design_ref": "DESIGN.md section 4 C14",
}
CLAIMED["C15"] = {
  "text": "Static decision of the state layout for all 2^14 signatures: per State bit the (field, size, offsets) extracted from the ASTs of _get_state/_set_state equals MuJoCo's mj_stateSize table, bits are visited in ascending order, get and set are mirror images (float()/bool() cast pairs), every access is dominated by the active mask, signatures >= 2^NSTATE raise before the launch. The rejecting guard accepts exactly sig < 2^NSTATE (decided symbolically in NSTATE).",
  "note": STATIC_NOTE,
  "technique": "syntax-directed layout extraction compared with an oracle table + mask dominance on the kernel IR (R-LAYOUT, R-GATE)",
  "design_ref": "DESIGN.md section 4 C15",
}
CLAIMED["C36"] = {
  "text": "Static decision that no simulation result can flow through process-global python state: run-time mutations of module-level bindings are confined to the kernel cache and the profiling stack; the kernel-cache key is complete (unique factory names, no captured module-level mutable, size-hashed parameters used only through .size, no keyword calls, nested kernels module=unique). Also: the memoising wrapper builds its key from every positional argument plus the factory identity, accepts no unhashed keyword arguments and returns the cached entry.",
  "note": STATIC_NOTE,
  "technique": "who-may-mutate analysis of module-level bindings + closure capture analysis of @cache_kernel factories (R-GLOBAL)",
  "design_ref": "DESIGN.md section 4 C36",
}

CLAIMED["C12"] = {
  "text": "Static decision that step() and forward() read nothing but the integration state: the live-in set of the ordered field-level effect trace (fields read or accumulated into with no earlier possible definition in the same call) contains only Model fields, State.INTEGRATION fields, tabled sticky diagnostics / make_data constants and, with sleeping enabled, the persistent sleep state; no scratch array is read before definition. Also: every kernel that allocates a slot of the flat contact buffer redefines every Contact field of the slot over its full extent; for every single disable/enable flag and tested flag pair no read of a non-state field stays reachable while all earlier definitions become unreachable (three-valued, with single-atom case split); loop scratch filled by sparse scatter is cleared per iteration. Also: constraint-row and contact-slot records are written completely and unconditionally by their allocators; a kernel that skips worlds with a zero counter runs only where the tree's complement writer of the same field is enabled (R-LIVE.9); no function stores an undeclared attribute on a Model/Data object (R-GLOBAL.9).",
  "note": STATIC_NOTE + " May-define counts as a kill (under-reporting only).",
  "technique": "interprocedural def-use (live-in) analysis over host effect traces with per-kernel read/write summaries (R-LIVE) + three-valued flag-conditioned liveness + slot-record completeness (R-LIVE.4-.6)",
  "design_ref": "DESIGN.md section 4 C12, section 3 R-LIVE",
}
CLAIMED["C37"] = {
  "text": "Static decision that for Euler/implicitfast/implicit x sleeping on/off the resolved operation sequence of step() equals step1();step2() modulo the tabled factor/solve equivalence (same contributions to the inertia matrix before factorisation, nothing modifies it before the solve), that forward() writes no integration-state field and reads no non-state field that it also writes.",
  "note": STATIC_NOTE,
  "technique": "comparison of configuration-specialised host effect traces + write-set / live-in sets (R-SEQ, R-PURE)",
  "design_ref": "DESIGN.md section 4 C37",
}

CLAIMED["C13"] = {
  "text": "Static decision of the coverage, extent, value-family and mask-gating clauses: reset_data writes every State.INTEGRATION field and every Data field step() reads from before the call, each write covers the declared extent of its dimension, state fields get the value family of a fresh Data, every write of the masked kernels is dominated by reset_in[world] and none touches a cell without a world dimension. Also: the reset mask is value-cast (never reinterpreted), and with a mask given no host-level fill/copy and no unmasked launch (besides the tabled sleep bookkeeping) writes per-world Data.",
  "note": STATIC_NOTE,
  "technique": "write-set vs live-in set comparison on host effect traces + symbolic extent reasoning over loop/launch bounds and guards (R-RESET, R-GATE, R-WORLD.5) + symbolic-mask host trace (R-RESET.5, R-VALID.5)",
  "design_ref": "DESIGN.md section 4 C13",
}

CLAIMED["C25"] = {
  "text": "Static decision of the transparency and reporting clauses: inside the solver iteration every write to a Data field (and to context arrays read after the loop) is dominated by an early return on the array bound to ctx.done for that world; solver_niter only ever += 1 under that gate; done becomes True on every path where niter == opt.iterations; the ITERATIONS bit is set only by the two sibling finalisers exactly under (not converged and niter == iterations); graph-conditional and plain loops launch the same body.",
  "note": STATIC_NOTE,
  "technique": "binding-resolved dominance (must-guard) checks on path conditions of the solver-loop trace + sibling agreement (R-GATE)",
  "design_ref": "DESIGN.md section 4 C25",
}

CLAIMED["C24"] = {
  "text": "Static, path-sensitive decision of the sign/zero clauses: every return of the constraint force law carries an admissible (state, force form, path condition) triple (SATISFIED => 0; LINEARNEG/LINEARPOS => +/-frictionloss beyond +/-rf; friction QUADRATIC => -D*jaref strictly inside; limit/contact QUADRATIC => -D*jaref under jaref < 0 with D stored as x/max(., MINVAL) > 0); efc.force/state have a single writer fed by that law; qfrc_constraint pairs J[r, j] with force[r] on dof j. Also: the change counters of the incremental solver path are incremented under exactly the change condition of the value they track. The sparse qfrc_constraint rebuild, which skips worlds without rows, runs only where the init kernel's complement write is enabled (R-LIVE.9).",
  "note": STATIC_NOTE,
  "technique": "path-condition analysis of a decision tree (values touched only through comparisons) + who-may-write + index pairing on the kernel IR + residual path-condition matching of change counters (R-TRACK)",
  "design_ref": "DESIGN.md section 4 C24",
}

CLAIMED["C23"] = {
  "text": "Static decision of the normalisation barrier (first clause): every quaternion component the integrators store into qpos is a component of quat_integrate's result, all of whose returns are wp.normalize(...); every store to xquat is wp.normalize(...); every orientation matrix is quat_to_mat of quaternions assembled only from xquat and Model quaternions (or a Model reference matrix). Every quaternion assembled from qpos passes through wp.normalize before any other use, in all kernels (R-NORM.5).",
  "note": STATIC_NOTE,
  "technique": "must-pass-through (value provenance through marked calls) on the kernel IR (R-NORM)",
  "design_ref": "DESIGN.md section 4 C23",
}

CLAIMED["C11"] = {
  "text": "Static decision that every launch reachable from step/forward/reset_data/get_state/set_state is free of write-write and read-write conflicts between distinct threads except through atomics and tabled idioms: plain writes land on thread-determined cells (or store thread-invariant values), arrays written in a launch are read only at owned cells (aliased parameters included), plain reads of atomically updated shared cells are rejected, atomic results flow only into integer address arrays. Also: dimensions filled through atomically allocated slots are never read at a fixed non-zero offset from a loop/thread position; in the sleep-waking kernels decisions about foreign trees are dominated by a snapshot-array test (the cycle walkers themselves remain an unverified idiom, listed as an assumption).",
  "note": STATIC_NOTE + " Tabled idioms (branch-redundant kinematics, level-scheduled tree passes, data-partitioned flex filters) carry written arguments that are not mechanised; sleep-cycle waking is listed as unverified.",
  "technique": "injectivity classification of index terms in thread space + alias-aware read/write conflict analysis over the kernel IR (R-RACE) + slot-ordered-list and snapshot-dominance checks (R-RACE.5/.6)",
  "design_ref": "DESIGN.md section 4 C11, section 3 R-RACE",
}
CLAIMED["C17"] = {
  "text": "Static decision of necessary conditions for memory safety: every write through an atomically allocated slot is dominated by a capacity comparison covering the whole block; (start, count) block descriptors never describe rows beyond the capacity; every launch binding the conditionally allocated compact workspace is guarded by at least the flags of the allocation predicate; each documented configuration constraint is rejected by a raise before any launch. Also: the DOF compaction maps only hold compact indices below nvmax (path guard or loop bound).",
  "note": STATIC_NOTE + " Bounds that depend on model-data invariants and Warp tile internals are assumed.",
  "technique": "linear normal forms of capacity guards + allocation/use condition agreement (contradiction rule) on host traces + validation presence (R-CAP, R-COND, R-VALID)",
  "design_ref": "DESIGN.md section 4 C17",
}

CLAIMED["C32"] = {
  "text": "Static decision that flag tests are wired to the contributions they should remove and only to those: under the sole assumption that a flag is set/clear, every write of its own contribution in step()/forward() is unreachable (three-valued evaluation of host- and kernel-level path conditions, flags resolved through launch bindings) or stores zero, sibling contributions stay reachable, and every flag is still consulted in the feature areas of the confirmed baseline. Also: force kernels and their velocity-derivative siblings are gated consistently in both directions and for both implicit integrators; a flag (pair) that switches off the stage defining a field leaves no reachable reader of the stale value. No stage module tests an option flag it does not test on the confirmed tree (R-FLAGS.6: flags are stage-scoped).",
  "note": STATIC_NOTE,
  "technique": "three-valued path-condition evaluation over effect traces under a single-flag assumption (R-FLAGS) + reference baseline (R-DISPATCH) + sibling gating both ways (R-FLAGS.3/.4) + flag-conditioned liveness (R-LIVE.6)",
  "design_ref": "DESIGN.md section 4 C32",
}
CLAIMED["C38"] = {
  "text": "Static decision of the structural clauses: the sequential DOF compaction guards its map writes by count < nvmax, sets the NVMAX bit under count > nvmax on the same counter and clamps ncdof; scatter kernels write x_c[dof_cdof[i]] for active and 0.0 for frozen DOFs; gather kernels read x[cdof_dof[ci]] into compact slot ci. Also: the running count is a demand counter (no increment or loop exit conditioned on the capacity). A gather written as a scatter over full-space dofs is accepted only when a full definition of the compact vector dominates it in the same call.",
  "note": STATIC_NOTE,
  "technique": "guard / value-form matching on the kernel IR (R-CAP, R-GATE)",
  "design_ref": "DESIGN.md section 4 C38",
}

CLAIMED["C33"] = {
  "text": "Static decision of the state-restoration and batched-indexing clauses: set_const_0 / set_const_spring / set_const restore every integration-state field they overwrite on every path as the last write; with restore=True every Data field computed at the temporary state is recomputed after the restore; every batched field the set_const kernels read or write is indexed by the thread's batch index modulo that field's own size; launch bindings conform. Also: the composed set_const(restore=True) recomputes after the last restore everything nested helpers evaluated at a temporary state (case split on configuration atoms); reference offsets are decoded against the base cells they were encoded against; per-object scratch vectors are cleared per iteration.",
  "note": STATIC_NOTE,
  "technique": "save/restore pairing and write-set inclusion on host effect traces (R-PAIR) + R-BATCH + R-BIND + R-PAIR.3, R-REF.1, R-LIVE.4",
  "design_ref": "DESIGN.md section 4 C33",
}

CLAIMED["C19"] = {
  "text": "Narrow structural claim: the all-pairs broadphase iterates the pre-filtered pair tables; the sweep-and-prune broadphase tests the pair-id exclusion code before every store into the pair list; explicit pairs read only pair_* parameters (indexed by the pair id) and generated pairs only geom_* parameters. On the host side only the order of the stores into the pair-id table is decided (explicit pairs are written after every filter store, so they override all geom-level filters); the boolean filter formula itself is NOT decided. In the contact writer, every statement that sets ContactType.CONSTRAINT is under a condition that is definitely false for the filter code -2 (R-GATE.8).",
  "note": STATIC_NOTE,
  "technique": "must-guard dominance on path conditions + field-family discipline per branch (R-GATE)",
  "design_ref": "DESIGN.md section 4 C19",
}
CLAIMED["C30"] = {
  "text": "Static decision of the layout and initialisation clauses: every access to the history buffer (through inlined read/insert functions, resolved by binding) has one of the canonical affine forms off+0, off+1, off+2+p, off+2+n+p*dim+d with off and n from the same element's tables; the buffer is written only by history.py and set_state; make_data/put_data must initialise it (make_data does not: recorded finding). For hoisted wrap-around addresses the alternatives differ by the ring size in address units (n*dim in strided sections).",
  "note": STATIC_NOTE,
  "technique": "affine normal forms of index terms matched against the MuJoCo buffer layout (R-LAYOUT)",
  "design_ref": "DESIGN.md section 4 C30",
}
CLAIMED["C31"] = {
  "text": "Static decision of coverage clauses: put_model validates membership for every typed field whose enum the kernels dispatch on; every types.Model field is an MjModel attribute (copied by name) or assigned in put_model and every symbolic array dimension is defined; get_data_into copies each MjData field from the same-named Data field at [world_id]. Also: every host access to MjData's efc_J sparse structure is control-dependent on mujoco.mj_isSparse() and every access to Data.efc's on is_sparse() (layout-predicate ownership). put_data still computes body_awake / solver_niter / tree_asleep from the same-named MjData attribute (R-LAYOUT.15).",
  "note": STATIC_NOTE + " Oracle: attribute names of the installed mujoco module, frozen in tables/mujoco_attrs.py.",
  "technique": "schema-vs-populator agreement over the AST of put_model / get_data_into (R-LAYOUT, R-VALID) + control-dependence of layout accesses on the owning predicate (R-LAYOUT.14)",
  "design_ref": "DESIGN.md section 4 C31",
}

CLAIMED["C26"] = {
  "text": "Structural necessary conditions of forward/inverse consistency: the force sums on the two sides of the equation of motion (forward's qfrc_smooth, inverse's qfrc_inverse) use the same fields with opposite unit coefficients, qfrc_constraint enters the inverse sum with -1, the M*qacc term is the buffer support.mul_m filled from Data.qacc, no input force is consumed by the inverse sum; inverse() runs the same position/velocity stages as forward() in the same order and evaluates constraint forces with constraint-update kernels the forward solver also uses; with INVDISCRETE the discrete-time qacc is restored on every path. Equality up to solver residual is NOT decided (numeric). Sibling gating: for Euler damping (both directions) and for IMPLICITFAST (whenever forward.implicit reaches deriv_smooth_vel under an ACTUATION/SPRING/DAMPER assignment, inverse() does too); inverse.py consults no option flag beyond the confirmed set (R-FLAGS.5/.6).",
  "note": STATIC_NOTE,
  "technique": "sibling agreement: affine normal forms (signed term sets) of two kernels' stored values + stage-call sequence on host traces + save/restore pairing (R-SIGN.9, R-SEQ.3, R-PAIR)",
  "design_ref": "DESIGN.md section 4 C26",
}

NOT_APPLICABLE = {
  "C06": "optimality of an iterative float solve is a runtime quantity; no structural necessary condition beyond what C24/C25 decide",
  "C18": "equivalence of broadphases depends on geometric conservativeness of numeric filters and sort/scan arithmetic; a sibling text-diff of the NXN/SAP kernels would alarm on harmless refactors",
  "C20": "orthonormality, signed distance and midpoint are numeric results of closed-form/GJK code; no static argument bounds them",
  "C21": "SPD-ness and Mx=b residuals are numeric; layout sentinels of the factor are covered structurally under C02",
  "C28": "correctness of a flood fill over a runtime graph; exhaustive small-graph enumeration would be model checking/testing, a different family",
  "C29": "temporal sleep/wake behaviour over histories and thread interleavings of _wake_tree; R-RACE lists those kernels as an unverified idiom but cannot decide that every interleaving yields MuJoCo's wake set",
  "C34": "nearest-hit ray geometry is numeric",
  "C35": "per-pixel agreement of render and ray is numeric",
}

PENDING = {}
