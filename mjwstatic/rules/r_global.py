"""R-GLOBAL - process-global state (C36).

(a) every run-time mutation of a module-level binding inside a function is in the confirmed table;
(b) @cache_kernel factories: names unique package-wide (the cache key ends in hash(func.__name__)); the nested
    kernel/func captures only factory parameters, factory locals, functions, classes, enums and immutable module
    constants - never a module-level mutable container; parameters that the key reduces to `.size`
    (arrays, TileSet) are used by the factory body only through `.size`; no call site passes keyword arguments;
    nested kernels are module="unique".
"""

from __future__ import annotations

import ast
from typing import Dict, List, Set

from ..kir import dotted
from ..report import Finding, Result
from ..srcmodel import SourceModel, unparse
from ..tables import global_tables

MUTATORS = {"append", "extend", "insert", "pop", "remove", "clear", "update", "setdefault", "add", "discard", "popitem", "sort", "reverse"}


def module_mutables(sm: SourceModel) -> Dict[str, Dict[str, str]]:
  """module -> {name: kind} for module-level bindings that are mutable containers or rebinding targets."""
  out = {}
  for mn, m in sm.modules.items():
    d = {}
    for name, node in m.consts.items():
      if isinstance(node, (ast.List, ast.Dict, ast.Set, ast.ListComp, ast.DictComp)):
        d[name] = type(node).__name__
      elif isinstance(node, ast.Call) and dotted(node.func) in ("list", "dict", "set", "collections.defaultdict", "defaultdict"):
        d[name] = "call:" + dotted(node.func)
      elif isinstance(node, ast.Constant) and node.value is None:
        d[name] = "None"
    out[mn] = d
  return out


def _local_names(fn: ast.FunctionDef) -> Set[str]:
  names = {a.arg for a in fn.args.args + fn.args.kwonlyargs + fn.args.posonlyargs}
  if fn.args.vararg:
    names.add(fn.args.vararg.arg)
  if fn.args.kwarg:
    names.add(fn.args.kwarg.arg)
  globs = set()
  for n in ast.walk(fn):
    if isinstance(n, ast.Global):
      globs |= set(n.names)
  for n in ast.walk(fn):
    if isinstance(n, ast.Name) and isinstance(n.ctx, ast.Store) and n.id not in globs:
      names.add(n.id)
    elif isinstance(n, (ast.FunctionDef, ast.ClassDef)) and n is not fn:
      names.add(n.name)
    elif isinstance(n, ast.arg):
      names.add(n.arg)
    elif isinstance(n, (ast.Import, ast.ImportFrom)):
      for a in n.names:
        names.add((a.asname or a.name).split(".")[0])
  return names - globs


def global_mutations(sm: SourceModel):
  """[(module, function key, global name, how, lineno)] for mutations of module-level names inside functions."""
  muts = module_mutables(sm)
  out = []
  for mn, m in sm.modules.items():
    if mn in ("__pkg__",):
      continue
    for fi in m.all_funcs:
      if fi.parent is not None and fi.kind in ("kernel", "func"):
        continue
      fn = fi.node
      locals_ = _local_names(fn)
      globs = set()
      for n in ast.walk(fn):
        if isinstance(n, ast.Global):
          globs |= set(n.names)

      def is_global(name):
        return (name in globs) or (name not in locals_ and name in m.consts)

      def resolve(expr):
        """(module, name) of a module-level binding denoted by expr (own module or imported)."""
        if isinstance(expr, ast.Name) and is_global(expr.id):
          return (mn, expr.id)
        if isinstance(expr, ast.Name) and expr.id not in locals_ and expr.id in m.imports and m.imports[expr.id][0] == "symbol":
          imp = m.imports[expr.id]
          if imp[1] in sm.modules and imp[2] in sm.modules[imp[1]].consts:
            return (imp[1], imp[2])
        if isinstance(expr, ast.Attribute) and isinstance(expr.value, ast.Name) and expr.value.id not in locals_:
          imp = m.imports.get(expr.value.id)
          if imp and imp[0] == "module" and imp[1] in sm.modules and expr.attr in sm.modules[imp[1]].consts:
            return (imp[1], expr.attr)
        return None

      for n in ast.walk(fn):
        # nested defs are visited through their own FuncInfo only when they are host functions; kernels cannot mutate python globals
        if isinstance(n, (ast.Assign, ast.AugAssign, ast.AnnAssign)):
          tgts = n.targets if isinstance(n, ast.Assign) else [n.target]
          for t in tgts:
            if isinstance(t, ast.Name) and t.id in globs:
              out.append((mn, fi.key, (mn, t.id), "rebind", n.lineno))
            elif isinstance(t, ast.Subscript):
              r = resolve(t.value)
              if r:
                out.append((mn, fi.key, r, "setitem", n.lineno))
            elif isinstance(t, ast.Attribute):
              r = resolve(t.value)
              if r:
                out.append((mn, fi.key, r, "setattr", n.lineno))
        elif isinstance(n, ast.Call) and isinstance(n.func, ast.Attribute) and n.func.attr in MUTATORS:
          r = resolve(n.func.value)
          if r:
            out.append((mn, fi.key, r, n.func.attr, n.lineno))
        elif isinstance(n, ast.Delete):
          for t in n.targets:
            if isinstance(t, ast.Subscript):
              r = resolve(t.value)
              if r:
                out.append((mn, fi.key, r, "delitem", n.lineno))
  # de-duplicate nested walks (a nested host def is walked with its parent and on its own)
  seen = set()
  uniq = []
  for x in out:
    k = (x[0], x[2], x[3], x[4])
    if k not in seen:
      seen.add(k)
      uniq.append(x)
  return uniq


def _complete_key_memo(sm: SourceModel, fkey: str, gname: str, ln: int) -> bool:
  """Is the `setitem` at line ln the store of a memo idiom with a complete key?

      k = K(params)                     # single assignment (or K used directly)
      if k in D: return D[k]            # the only read of D
      def g(...): ...                   # nested definition built on a miss
      D[k] = g

  complete key: every name of the enclosing function that g captures is either k itself or occurs in g only inside
  sub-expressions identical to K - so two calls with the same key build the same g, and the cache cannot make a result
  depend on which call came first (same argument as the repo's own cache_kernel wrapper, R-GLOBAL.7)."""
  try:
    fn = sm.func(fkey).node
  except Exception:
    return False
  store = None
  for n in ast.walk(fn):
    if isinstance(n, ast.Assign) and n.lineno == ln and len(n.targets) == 1 and isinstance(n.targets[0], ast.Subscript):
      t = n.targets[0]
      if isinstance(t.value, ast.Name) and t.value.id == gname:
        store = n
  if store is None or not isinstance(store.value, ast.Name):
    return False
  kexpr = store.targets[0].slice
  K = kexpr
  if isinstance(kexpr, ast.Name):
    asg = [st for st in ast.walk(fn) if isinstance(st, ast.Assign) and len(st.targets) == 1 and isinstance(st.targets[0], ast.Name) and st.targets[0].id == kexpr.id]
    if len(asg) != 1:
      return False
    K = asg[0].value
  kdump, kname = ast.dump(K), (kexpr.id if isinstance(kexpr, ast.Name) else None)
  # early return on a hit
  hit = False
  for st in fn.body:
    if isinstance(st, ast.If) and isinstance(st.test, ast.Compare) and len(st.test.ops) == 1 and isinstance(st.test.ops[0], ast.In) and ast.dump(st.test.left) == ast.dump(kexpr) and isinstance(st.test.comparators[0], ast.Name) and st.test.comparators[0].id == gname:
      if any(isinstance(x, ast.Return) and isinstance(x.value, ast.Subscript) and isinstance(x.value.value, ast.Name) and x.value.value.id == gname and ast.dump(x.value.slice) == ast.dump(kexpr) for x in st.body):
        hit = True
  if not hit:
    return False
  g = next((st for st in fn.body if isinstance(st, (ast.FunctionDef,)) and st.name == store.value.id), None)
  if g is None:
    return False
  outer = {a.arg for a in fn.args.args + fn.args.kwonlyargs} | {t.id for st in ast.walk(fn) if isinstance(st, ast.Assign) and not any(st is x for x in ast.walk(g)) for t in st.targets if isinstance(t, ast.Name)}
  own = {a.arg for a in g.args.args} | {t.id for st in ast.walk(g) if isinstance(st, (ast.Assign, ast.AugAssign, ast.For)) for t in (st.targets if isinstance(st, ast.Assign) else [st.target]) for t in ast.walk(t) if isinstance(t, ast.Name)}
  covered = set()
  for x in ast.walk(g):
    if ast.dump(x) == kdump:
      covered |= {id(y) for y in ast.walk(x)}
  for x in ast.walk(g):
    if isinstance(x, ast.Name) and x.id in outer and x.id not in own and x.id != kname and id(x) not in covered:
      return False
  return True


def check_global_mutations(res: Result, sm: SourceModel):
  n = 0
  for mn, fkey, (gm, gname), how, ln in global_mutations(sm):
    n += 1
    tab = global_tables.ALLOWED_GLOBAL_MUTATIONS.get((gm, gname))
    ok = tab is not None and (tab[0] == "*" or fkey.split(".")[0] + "." + fkey.split(".")[1] in tab[0] or fkey in tab[0])
    if not ok and how == "setitem" and gm == mn and _complete_key_memo(sm, fkey, gname, ln):
      ok = True
    res.ob(
      ok,
      f"{gm}.{gname}|{fkey}|{how}",
      Finding("R-GLOBAL.1", f"{gm}.{gname}|{fkey}|{how}", f"module-level `{gm}.{gname}` is mutated at run time ({how}) in {fkey}: results can depend on what ran earlier in the process", f"{sm.modules[mn].path}:{ln}"),
      sample={"global": f"{gm}.{gname}", "function": fkey, "how": how, "allowed": tab[1] if tab else None},
    )
  return n


def check_factories(res: Result, sm: SourceModel, launch_events):
  muts = module_mutables(sm)
  facs = [f for f in sm.all_funcs(kinds=("factory",))]
  # (1) unique names
  byname: Dict[str, List[str]] = {}
  for f in facs:
    byname.setdefault(f.name, []).append(f.key)
  for name, keys in byname.items():
    res.ob(len(keys) == 1, f"factory|{name}|unique", Finding("R-GLOBAL.2", f"cache_kernel|{name}|name-clash", f"@cache_kernel factories {keys} share the name `{name}`: the cache key ends in hash(func.__name__), so equal argument tuples return the other factory's kernel", sm.func(keys[0]).file))
  n = 0
  for f in facs:
    fn = f.node
    params = [a.arg for a in f.params]
    fac_locals = _local_names(fn)
    m = sm.modules[f.module]
    for ch in f.children.values():
      if ch.kind not in ("kernel", "func"):
        continue
      n += 1
      # nested kernels are module="unique"
      if ch.kind == "kernel":
        dec = " ".join(ch.decorators)
        res.ob('module="unique"' in dec or "module='unique'" in dec, f"{ch.key}|unique-module", Finding("R-GLOBAL.3", f"{ch.key}|module-unique", "nested kernel is not module=\"unique\": specialisations of different models share one Warp module", ch.loc()))
      klocals = _local_names(ch.node)
      for x in ast.walk(ch.node):
        if isinstance(x, ast.Name) and isinstance(x.ctx, ast.Load) and x.id not in klocals:
          name = x.id
          if name in fac_locals or name in params:
            continue
          # module-level: mutable container?
          kind = muts.get(f.module, {}).get(name)
          imp = m.imports.get(name)
          if kind is None and imp and imp[0] == "symbol" and imp[1] in muts:
            kind = muts[imp[1]].get(imp[2])
          bad = kind is not None and kind != "None" and (f.module, name) not in global_tables.IMMUTABLE_BY_CONVENTION
          res.ob(not bad, f"{ch.key}|capture|{name}", Finding("R-GLOBAL.4", f"{ch.key}|captures|{name}", f"cached kernel captures module-level mutable `{name}` ({kind}); the cache key does not include its contents", f"{ch.file}:{x.lineno}"))
  # (2) size-hashed parameters: arrays / TileSets passed to factories
  size_params: Dict[str, Set[str]] = {}
  kw_sites = []
  for e in launch_events:
    kv = e.kernel
    if kv is None or kv.via is None:
      continue
    for pname, txt in kv.closure_text.items():
      fld = None
      t = txt.strip()
      if t.startswith(("m.", "d.")) and "(" not in t and "[" not in t:
        spec = sm.schema_by_path.get(("Model" if t[0] == "m" else "Data", t[2:]))
        if spec is not None and spec.is_array:
          fld = t
      if t in ("tile", "tileset") or t.endswith("_tile") or "tiles[" in t or fld:
        size_params.setdefault(kv.via.key, set()).add(pname)
  for fkey, pnames in size_params.items():
    f = sm.func(fkey)
    for pn in pnames:
      uses = []
      for x in ast.walk(f.node):
        if isinstance(x, ast.Name) and x.id == pn and isinstance(x.ctx, ast.Load):
          uses.append(x)
      # find attribute parents
      bad = []
      attr_ok = set()
      for x in ast.walk(f.node):
        if isinstance(x, ast.Attribute) and isinstance(x.value, ast.Name) and x.value.id == pn:
          if x.attr in ("size",):
            attr_ok.add(id(x.value))
          else:
            bad.append(x.attr)
      plain = [u for u in uses if id(u) not in attr_ok and not any(isinstance(p, ast.Attribute) and p.value is u for p in ast.walk(f.node))]
      res.ob(not bad and not plain, f"{fkey}|{pn}|size-only", Finding("R-GLOBAL.5", f"{fkey}|{pn}|beyond-size", f"factory parameter `{pn}` is hashed by `.size` only but the factory also uses {sorted(set(bad)) or 'the value itself'}: two models with equal sizes would share a kernel specialised for the first", f.loc()))
  # (3) keyword arguments at factory call sites
  for mn, m in sm.modules.items():
    for x in ast.walk(m.tree):
      if isinstance(x, ast.Call) and x.keywords and isinstance(x.func, (ast.Name, ast.Attribute)):
        r = sm.resolve_name(mn, x.func)
        if r and r[0] == "func" and r[1].kind == "factory":
          res.ob(False, f"{r[1].key}|kwargs|{mn}", Finding("R-GLOBAL.6", f"{r[1].key}|keyword-call|{mn}", "cache_kernel's wrapper accepts positional arguments only; keyword arguments bypass the cache key", f"{m.path}:{x.lineno}"))
  return n, len(facs)


def check_cache_wrapper(res: Result, sm: SourceModel) -> int:
  """R-GLOBAL.7: the memoising wrapper itself. Every other cache-key clause (unique factory names, `.size`-reduced
  parameters, no keyword calls) presupposes that the key is built from *all* positional arguments plus the identity of
  the factory, and that keyword arguments cannot bypass it. Checked on the AST of warp_util.cache_kernel."""
  fi = sm.func("warp_util.cache_kernel")
  wrappers = [n for n in ast.walk(fi.node) if isinstance(n, ast.FunctionDef) and n is not fi.node and any(isinstance(x, ast.Subscript) and isinstance(x.value, ast.Name) and x.value.id == "_KERNEL_CACHE" for x in ast.walk(n))]
  if not wrappers:
    res.error("anchor vanished: no memoising wrapper using _KERNEL_CACHE inside warp_util.cache_kernel")
    return 0
  w = wrappers[0]
  factory_param = fi.node.args.args[0].arg if fi.node.args.args else "func"
  n = 0
  keys = [a for a in ast.walk(w) if isinstance(a, ast.Assign) and any(isinstance(t, ast.Name) and t.id == "key" for t in a.targets)]
  loc = f"{fi.file}:{w.lineno}"
  n += 1
  res.ob(len(keys) >= 1, "cache_kernel|key-assignment", Finding("R-GLOBAL.7", "warp_util.cache_kernel|key|missing", "the wrapper no longer builds a `key` for _KERNEL_CACHE", loc))
  if keys:
    val = keys[-1].value
    vararg = w.args.vararg.arg if w.args.vararg else None
    # (a) all positional arguments: a comprehension / tuple() over the *args name
    over_args = vararg is not None and any(isinstance(g, ast.comprehension) and isinstance(g.iter, ast.Name) and g.iter.id == vararg for g in ast.walk(val)) or any(isinstance(c, ast.Call) and isinstance(c.func, ast.Name) and c.func.id == "tuple" and c.args and isinstance(c.args[0], ast.Name) and c.args[0].id == vararg for c in ast.walk(val))
    n += 1
    res.ob(bool(over_args), "cache_kernel|key-all-args", Finding("R-GLOBAL.7", "warp_util.cache_kernel|key|not-all-arguments", f"the cache key `{ast.unparse(val)[:80]}` is not built from every positional argument of the factory call", loc))
    # (b) identity of the factory
    has_func = any(isinstance(x, ast.Name) and x.id == factory_param for x in ast.walk(val))
    n += 1
    res.ob(has_func, "cache_kernel|key-factory-identity", Finding("R-GLOBAL.7", "warp_util.cache_kernel|key|no-factory-identity", f"the cache key `{ast.unparse(val)[:80]}` does not include the factory (`{factory_param}.__name__`): two factories called with equal argument tuples would share one cached kernel", loc))
    # (c) keyword arguments either impossible or part of the key
    kw = w.args.kwarg.arg if w.args.kwarg else None
    kwonly = [a.arg for a in w.args.kwonlyargs]
    n += 1
    ok_kw = (kw is None and not kwonly) or all(any(isinstance(x, ast.Name) and x.id == k for x in ast.walk(val)) for k in ([kw] if kw else []) + kwonly)
    res.ob(ok_kw, "cache_kernel|key-kwargs", Finding("R-GLOBAL.7", "warp_util.cache_kernel|key|keyword-arguments-not-hashed", "the wrapper accepts keyword arguments that do not enter the cache key", loc))
    # (d) the kernel returned is the one stored under that key
    nested = {id(x) for d in ast.walk(w) if isinstance(d, (ast.FunctionDef, ast.Lambda)) and d is not w for x in ast.walk(d)}
    rets = [r for r in ast.walk(w) if isinstance(r, ast.Return) and r.value is not None and id(r) not in nested]
    n += 1
    res.ob(all(isinstance(r.value, ast.Subscript) and isinstance(r.value.value, ast.Name) and r.value.value.id == "_KERNEL_CACHE" and isinstance(r.value.slice, ast.Name) and r.value.slice.id == "key" for r in rets) and bool(rets), "cache_kernel|return", Finding("R-GLOBAL.7", "warp_util.cache_kernel|return|not-from-cache", "the wrapper does not return _KERNEL_CACHE[key]", loc))
  return n


IMMUTABLE_ANN = {"int", "bool", "float", "str"}


def check_memoised_functions(res: Result, sm: SourceModel) -> int:
  """R-GLOBAL.8: `functools.lru_cache` / `functools.cache` is process-global state keyed by the arguments' hash. It is
  only history-free when every parameter is an immutable value (int / bool / float / str / enum member): then the key IS
  the value. A parameter of any other type (MjModel, Model, Data, arrays, un-annotated) is hashed by identity, so an
  object edited in place and passed again returns the result computed for its earlier contents."""
  n = 0
  for fi in sm.all_funcs():
    decs = [d for d in fi.decorators if d.split("(")[0].split(".")[-1] in ("lru_cache", "cache")]
    if not decs:
      continue
    n += 1
    bad = []
    for a in fi.node.args.posonlyargs + fi.node.args.args + fi.node.args.kwonlyargs:
      ann = ast.unparse(a.annotation) if a.annotation is not None else ""
      base = ann.split(".")[-1]
      if base in IMMUTABLE_ANN or base in sm.enums:
        continue
      bad.append(f"{a.arg}: {ann or '<no annotation>'}")
    if fi.node.args.vararg or fi.node.args.kwarg:
      bad.append("*args/**kwargs")
    res.ob(
      not bad,
      f"{fi.key}|memoised|immutable-params",
      Finding("R-GLOBAL.8", f"{fi.key}|lru_cache|identity-hashed-parameter", f"{fi.key} is memoised with {decs[0]} but takes {bad}: the cache is keyed by object identity, so results computed for an object's earlier contents are returned after it was edited in place (process-history dependence)", fi.loc()),
      sample={"function": fi.key, "decorator": decs[0]},
    )
  return n


# ------------------------------------------------------------------------------------------------ R-GLOBAL.9
_STASH_CANARY = '''
def f(m: types.Model, d: Data):
  mask = getattr(d, "_cached_mask", None)
  d._cached_mask = mask
  setattr(m, "extra", 1)
  d.qpos = mask
'''


def _object_stashes(tree, schema_attrs) -> list:
  """(node, text) for every access that creates / reads hidden per-object state on a Model or Data parameter: assignment
  to an attribute the dataclass does not declare, or getattr/setattr/hasattr/delattr/vars/__dict__ on the object."""
  import ast

  out = []
  for fn in ast.walk(tree):
    if not isinstance(fn, (ast.FunctionDef, ast.AsyncFunctionDef)):
      continue
    typed = {}
    for a in fn.args.posonlyargs + fn.args.args + fn.args.kwonlyargs:
      if a.annotation is not None:
        an = ast.unparse(a.annotation).replace("Optional[", "").rstrip("]")
        for c in ("Model", "Data"):
          if an.split(".")[-1] == c:
            typed[a.arg] = c
    if not typed:
      continue
    for n in ast.walk(fn):
      if isinstance(n, (ast.Assign, ast.AugAssign, ast.AnnAssign)):
        for x in n.targets if isinstance(n, ast.Assign) else [n.target]:
          if isinstance(x, ast.Attribute) and isinstance(x.value, ast.Name) and x.value.id in typed and x.attr not in schema_attrs[typed[x.value.id]]:
            out.append((n, f"{fn.name}: {ast.unparse(x)} = ..."))
      elif isinstance(n, ast.Call) and isinstance(n.func, ast.Name) and n.func.id in ("setattr", "getattr", "hasattr", "delattr", "vars") and n.args and isinstance(n.args[0], ast.Name) and n.args[0].id in typed:
        name = n.args[1].value if len(n.args) > 1 and isinstance(n.args[1], ast.Constant) else None
        if n.func.id in ("getattr", "hasattr") and name in schema_attrs[typed[n.args[0].id]]:
          continue
        out.append((n, f"{fn.name}: {ast.unparse(n)[:70]}"))
      elif isinstance(n, ast.Attribute) and n.attr == "__dict__" and isinstance(n.value, ast.Name) and n.value.id in typed:
        out.append((n, f"{fn.name}: {ast.unparse(n)}"))
  return out


def check_object_stashes(res: Result, sm: SourceModel) -> int:
  """R-GLOBAL.9: Model and Data are closed records - every piece of simulation state is a declared dataclass field (which
  make_data / reset_data / put_data initialise and the state rules account for). A function that hangs an undeclared
  attribute on the Model/Data it is given (`d._cache = ...`, setattr, getattr with a default) creates state that survives
  between calls and that no reset, copy or comparison of the record knows about."""
  import ast

  attrs = {"Model": set(), "Data": set()}
  for spec in sm.schema.values():
    if spec.cls in attrs:
      attrs[spec.cls].add(spec.path.split(".")[0])
  # sub-records are declared fields too
  attrs["Model"] |= {"opt", "stat", "block_dim", "callback"}
  attrs["Data"] |= {"efc", "contact"}
  if len(attrs["Model"]) < 300 or len(attrs["Data"]) < 100:
    res.error(f"anchor vanished: schema lists {len(attrs['Model'])} Model / {len(attrs['Data'])} Data attributes")
  canary = _object_stashes(ast.parse(_STASH_CANARY), attrs)
  if len(canary) != 3:
    res.error(f"canary: the hidden-attribute matcher reports {len(canary)} of the 3 positive examples (and must not report the declared field)")
  n = 0
  for mod in sm.modules.values():
    if mod.name.endswith("_test") or mod.name in ("cli",):
      continue
    n += 1
    for node, text in _object_stashes(mod.tree, attrs):
      res.ob(
        False,
        f"{mod.name}|stash|{text}",
        Finding("R-GLOBAL.9", f"{mod.name}|{text.split(':')[0]}|hidden-attribute|{text.split(':', 1)[1].strip()[:40]}", f"`{text}` keeps state in an attribute that the Model/Data dataclass does not declare: it survives between calls and is unknown to make_data / reset_data / put_data and to every comparison of the record", f"{mod.path}:{node.lineno}"),
      )
    res.ob(True, f"{mod.name}|no-hidden-attributes")
  return n
