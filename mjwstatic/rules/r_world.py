"""R-WORLD - world-index discipline (C09, also used by C13/C15).

(1) first subscript of every access to an array whose schema first dimension is `nworld` has
    world provenance;
(3) arrays whose loaded values are used as world ids ("world tags") are only ever assigned
    world-valued terms - checked over every writer in the package (inductive argument);
(4) Data arrays without a world dimension that kernels write (global counters) are written
    only by atomics or by stores of constants, and their values flow only into comparisons,
    launch-bound clamps and slot computations.
"""

from __future__ import annotations

from typing import Dict, List, Set

from ..db import DB, LaunchCtx
from ..report import Finding, Result
from ..tables import world_tables
from ..terms import T, show, subterms
from .world import Prov, array_key


def discover_tags(lcs: List[LaunchCtx]) -> Set[str]:
  """Host arrays whose elements are used as the first index of an nworld array somewhere."""
  tags: Set[str] = set()
  for lc in lcs:
    for a in lc.keval.accesses:
      spec = lc.field(a.root)
      if spec is None or not spec.is_array or spec.first != "nworld" or not a.idx:
        continue
      for s in subterms(a.idx[0]):
        if s.op == "ld":
          # only the index term itself (or phi/int wrappers of it) counts, not nested arithmetic
          pass
      i0 = a.idx[0]
      stack = [i0]
      while stack:
        t = stack.pop()
        if t.op == "ld":
          tags.add(array_key(lc, t.args[0]))
        elif t.op == "phi":
          stack.extend(x for x in t.args if isinstance(x, T))
        elif t.op == "call" and t.args[0] in ("int", "wp.int32") and len(t.args) == 2:
          stack.append(t.args[1])
        elif t.op == "bin" and t.args[0] == "%" and isinstance(t.args[1], T):
          stack.append(t.args[1])
  return tags


def check_tag_writers(res: Result, all_lcs: List[LaunchCtx], tags: Set[str]):
  """(3) every store into a world-tag array stores a world-valued term."""
  nw = 0
  for lc in all_lcs:
    prov = Prov(lc, tags)
    for a in lc.keval.accesses:
      if not a.is_write or a.kind.startswith("tile"):
        continue
      key = array_key(lc, a.root)
      if key not in tags:
        continue
      nw += 1
      v = a.value
      kind = prov.of(v) if isinstance(v, T) else "unknown"
      exc = world_tables.TAG_WRITE_EXCEPTIONS.get((lc.name, key))
      ok = kind in ("W", "unknown") or exc is not None
      res.ob(
        ok,
        f"{lc.name}|{key}|tagwrite",
        Finding("R-WORLD.3", f"{lc.name}|{key}|tag-write", f"world-tag array {key} is assigned a non-world value `{show(v)}` ({kind}); readers use its elements as world ids", a.loc),
        sample={"kernel": lc.name, "tag": key, "stored": show(v), "kind": kind, "loc": a.loc} if nw <= 3 else None,
      )
  return nw


def check_world_index(res: Result, lcs: List[LaunchCtx], tags: Set[str]):
  """(1) first index of nworld arrays is a world id."""
  n = 0
  unknown = 0
  for lc in lcs:
    prov = Prov(lc, tags)
    for a in lc.keval.accesses:
      spec = lc.field(a.root)
      if spec is None or not spec.is_array or spec.first != "nworld":
        continue
      if not a.idx:
        # whole-array tile access in a kernel launched per world is checked by the tile offset rule
        continue
      n += 1
      kind = prov.of(a.idx[0])
      exc = world_tables.WORLD_INDEX_EXCEPTIONS.get((lc.name, a.root)) or world_tables.WORLD_INDEX_EXCEPTIONS.get((lc.name, "*"))
      if kind == "unknown":
        unknown += 1
      ok = kind in ("W", "unknown") or (kind == "B" and lc.fi.module in world_tables.BATCH_INDEX_MODULES) or exc is not None
      res.ob(
        ok,
        f"{lc.name}|{a.root}",
        Finding(
          "R-WORLD.1",
          f"{lc.name}|{a.root}|{a.kind[0]}|{kind}",
          f"per-world array `{a.root}` ({spec.owner}.{spec.path}) is {'written' if a.is_write else 'read'} at first index `{show(a.idx[0])}` which is not the thread's world id ({kind})",
          a.loc,
          {"launch": lc.ev.loc, "dim": [d.text for d in lc.ev.dim]},
        ),
        sample={"kernel": lc.name, "array": a.root, "index0": show(a.idx[0]), "provenance": kind, "loc": a.loc} if n % 400 == 1 else None,
      )
  return n, unknown


GLOBAL_COUNTER_OK_WRITES = ("atomic_add", "atomic_sub", "atomic_max", "atomic_min")


def check_global_counters(res: Result, lcs: List[LaunchCtx]):
  """(4) worldless Data arrays: atomic or constant writes only; values used only in comparisons/slots."""
  n = 0
  for lc in lcs:
    for a in lc.keval.accesses:
      spec = lc.field(a.root)
      if spec is None or spec.owner != "Data" or not spec.is_array:
        continue
      if spec.first in ("nworld", "naconmax"):
        continue
      if spec.flat not in world_tables.GLOBAL_COUNTERS:
        continue
      if not a.is_write:
        continue
      n += 1
      const_store = a.kind == "w" and isinstance(a.value, T) and a.value.op == "c"
      ok = a.kind in GLOBAL_COUNTER_OK_WRITES or const_store
      res.ob(
        ok,
        f"{lc.name}|{a.root}|global",
        Finding("R-WORLD.4", f"{lc.name}|{a.root}|global-write", f"cross-world counter `{spec.flat}` is written non-atomically with a non-constant value `{show(a.value)}`", a.loc),
      )
  return n


def check_device_conditions(res: Result, db: DB, entries) -> int:
  """R-WORLD.6: the condition array of wp.capture_if / wp.capture_while is a single cell read by the device
  (element 0 decides for the whole launch graph). It must therefore be a batch-wide scalar (shape (1,)), never an
  array with one entry per world: otherwise world 0's value decides whether *every* world runs the guarded stages."""
  from ..hostir import Field, Phi, Temp, root_array

  n = 0
  seen = set()
  for entry in entries:
    hi = db.trace(entry)
    for ev in hi.events:
      if ev.kind != "device_cond" or ev.src is None:
        continue
      alts = ev.src.alts if isinstance(ev.src, Phi) else [ev.src]
      for alt in alts:
        r = root_array(alt)
        per_world = None
        what = ""
        if isinstance(r, Temp):
          sh = r.shape.text if r.shape is not None else (r.src.text if r.src is not None else "")
          what = f"{r.key} allocated with shape `{sh}`"
          if "nworld" in sh:
            per_world = True
          elif sh.strip("()[], ") in ("1",):
            per_world = False
        elif isinstance(r, Field):
          spec = db.sm.schema_by_path.get((r.owner, r.path))
          if spec is not None and spec.is_array:
            what = f"{r.owner}.{r.path} with dims {spec.dims}"
            per_world = spec.first in ("nworld", "*")
        else:
          continue
        key = f"{ev.loc.rsplit(':', 1)[0]}|{ev.name}|{getattr(r, 'key', getattr(r, 'text', '?'))}"
        if key in seen:
          continue
        seen.add(key)
        n += 1
        res.ob(
          per_world is not True,
          key,
          Finding(
            "R-WORLD.6",
            f"{ev.stack[-1] if ev.stack else '?'}|{ev.name}|per-world-condition",
            f"{ev.name} is given a per-world condition array ({what}): the device reads only element 0, so world 0 decides whether the guarded stages run for every world in the batch",
            ev.loc,
          ),
          sample={"site": ev.loc, "primitive": ev.name, "condition": what, "per_world": per_world},
        )
  return n
