"""R-RACE - schedule independence of every launch (C11).

(a) every plain (non-atomic) write lands on a cell owned by the writing thread: the index tuple determines the
    thread (all thread indices occur injectively: directly, through an injective model address map, through a
    loop variable ranging over such an address, through an atomically allocated slot, or pinned by `tid == const`);
(b) a kernel that writes array F (plainly or atomically) reads F only at cells it writes itself;
(c) values returned by atomics are stored only into integer (address/id) arrays, never into physics values.
Everything else must be a tabled idiom (tables/race_tables.py) with its argument.
"""

from __future__ import annotations

from typing import Dict, List, Optional, Set, Tuple

from ..db import LaunchCtx
from ..report import Finding, Result
from ..tables import race_tables
from ..terms import T, affine, alternatives, pc_literals, show, subterms
from .world import array_key


def _field_name(lc: LaunchCtx, root: str) -> str:
  spec = lc.field(root)
  if spec is not None:
    return f"{spec.owner}.{spec.path}"
  return array_key(lc, root)


def injective_map(lc: LaunchCtx, root: str) -> bool:
  name = _field_name(lc, root)
  if name in race_tables.INJECTIVE_MAPS:
    return True
  if name.startswith("Model.") and name.endswith("adr") and name not in race_tables.NON_INJECTIVE_ADR:
    return True
  return False


class Cover:
  def __init__(self, lc: LaunchCtx):
    self.lc = lc
    self.memo: Dict[T, Set[int]] = {}

  def tids(self, t) -> Set[int]:
    """Thread indices that term t determines injectively."""
    if not isinstance(t, T):
      return set()
    r = self.memo.get(t)
    if r is not None:
      return r
    self.memo[t] = set()
    out: Optional[Set[int]] = None
    alts = alternatives(t)
    # typed placeholders (`x = int(0)` / `int(-1)` before a conditional atomic allocation) are not real alternatives
    has_slot = any(isinstance(x, T) and any(s_.op == "at" for s_ in subterms(x)) for x in alts)
    live = [x for x in alts if not (isinstance(x, T) and x.op == "c" and isinstance(x.args[0], int) and (x.args[0] < 0 or (has_slot and x.args[0] == 0)))]
    for alt in live or alts:
      s = self._one(alt)
      out = s if out is None else (out & s)
    self.memo[t] = out or set()
    return self.memo[t]

  def _one(self, t: T) -> Set[int]:
    if t.op == "tid":
      return {t.args[0]}
    if t.op == "at":
      return set(range(8))  # an atomically allocated slot is unique to the allocating thread
    if t.op == "lv":
      info = self.lc.keval.loops.get(t.args[0], {})
      lo = info.get("lo")
      return self.tids(lo) if isinstance(lo, T) else set()
    if t.op == "ld":
      if injective_map(self.lc, t.args[0]):
        s = set()
        for x in t.args[1:]:
          s |= self.tids(x)
        return s
      return set()
    if t.op == "call" and t.args[0] in ("int", "wp.int32") and len(t.args) == 2:
      return self.tids(t.args[1])
    if t.op == "idx":
      # component of a loaded vector of indices (e.g. qLD_updates[i][2]) is not injective by itself
      return set()
    if t.op == "bin" and t.args[0] == "%" and isinstance(t.args[2], T) and t.args[2].op == "shape" and t.args[2].args[1] == 0 and isinstance(t.args[1], T) and t.args[1].op == "tid":
      # w % a.shape[0] in a launch whose extent is a's own batch size is the identity
      hv = self.lc.binding.get(t.args[2].args[0].split(".")[0])
      k = t.args[1].args[0]
      dims = self.lc.ev.dim or []
      if hv is not None and k < len(dims) and dims[k].text.strip() == f"{hv.text}.shape[0]":
        return {k}
      return set()
    if t.op == "bin" and t.args[0] == "*":
      # flattened index i * n + j: a thread index scaled by a thread-invariant extent still identifies the thread index
      a_, b_ = t.args[1], t.args[2]
      if thread_invariant(b_):
        return self.tids(a_)
      if thread_invariant(a_):
        return self.tids(b_)
    if t.op == "bin" and t.args[0] in ("+", "-", "*"):
      af = affine(t)
      s: Set[int] = set()
      for atom, c in af.coef.items():
        if atom is t:
          return set()
        if abs(c) >= 1:
          s |= self.tids(atom)
      return s
    return set()


def thread_invariant(t) -> bool:
  """Value that is the same for every thread of the launch (constants, scalar parameters, closure constants)."""
  if not isinstance(t, T):
    return True
  for s_ in subterms(t):
    if s_.op in ("tid", "ld", "at", "lv", "carried", "unk", "phi"):
      return False
  return True


def pinned(lc: LaunchCtx, pc) -> Set[int]:
  out = set()
  for t, pol in pc_literals(pc):
    if pol and t.op == "cmp" and t.args[0] == "==" and isinstance(t.args[1], T) and t.args[1].op == "tid" and isinstance(t.args[2], T) and thread_invariant(t.args[2]):
      out.add(t.args[1].args[0])
  return out


def needed_tids(lc: LaunchCtx) -> Set[int]:
  need = set()
  for k, d in enumerate(lc.ev.dim or []):
    if d.text.strip() in ("1", "(1)"):
      continue
    need.add(k)
  # thread indices the kernel never unpacks cannot be required (the launch is then per-unpacked-index redundant)
  return {k for k in need if k < max(lc.keval.ntid, 1)}


def check_writes(res: Result, lcs: List[LaunchCtx]):
  n = 0
  classes: Dict[str, int] = {}
  seen = set()
  for lc in lcs:
    cover = Cover(lc)
    need = needed_tids(lc)
    for a in lc.keval.accesses:
      if a.kind not in ("w", "tile_w"):
        continue
      sig = (lc.name, a.root, a.loc, a.chain, a.idx)
      if sig in seen:
        continue
      seen.add(sig)
      n += 1
      key = array_key(lc, a.root)
      tab = race_tables.WRITE_IDIOMS.get((lc.name, a.root)) or race_tables.WRITE_IDIOMS.get((lc.name, "*"))
      if a.kind == "tile_w" and lc.ev.tiled:
        classes["tile"] = classes.get("tile", 0) + 1
        res.ob(True, f"{lc.name}|{a.root}|tile")
        continue
      cov = set(pinned(lc, a.pc))
      slot = False
      if isinstance(a.value, T) and thread_invariant(a.value) and a.value.op != "unk" and not getattr(a, "rmw", False):
        classes["same-value"] = classes.get("same-value", 0) + 1
        res.ob(True, f"{lc.name}|{a.root}|same-value")
        continue
      for ix in tuple(a.idx) + tuple(getattr(a, "comp_idx", ())):
        cov |= cover.tids(ix)
        if any(s.op == "at" for s in subterms(ix)):
          slot = True
      if need <= cov:
        c = "slot" if slot else "own"
        classes[c] = classes.get(c, 0) + 1
        res.ob(True, f"{lc.name}|{a.root}|{c}", sample={"kernel": lc.name, "array": a.root, "index": [show(i)[:50] for i in a.idx], "class": c} if n % 150 == 1 else None)
        continue
      if tab is not None:
        classes["tabled:" + tab[0]] = classes.get("tabled:" + tab[0], 0) + 1
        res.ob(True, f"{lc.name}|{a.root}|{tab[0]}")
        continue
      missing = sorted(need - cov)
      res.ob(
        False,
        f"{lc.name}|{a.root}|shared",
        Finding(
          "R-RACE.1",
          f"{lc.name}|{a.root}|plain-write-shared-cell",
          f"`{a.root}[{', '.join(show(i)[:40] for i in a.idx)}]` is written non-atomically but the index does not determine thread index(es) {missing} of the launch over ({', '.join(d.text[:24] for d in lc.ev.dim)}): different threads can write the same cell",
          a.loc,
        ),
      )
  return n, classes


def check_cross_reads(res: Result, lcs: List[LaunchCtx]):
  n = 0
  seen = set()
  for lc in lcs:
    writes: Dict[str, List] = {}
    for a in lc.keval.accesses:
      if a.is_write:
        writes.setdefault(array_key(lc, a.root), []).append(a)
    if not writes:
      continue
    for a in lc.keval.accesses:
      if a.kind not in ("r", "tile_r"):
        continue
      key = array_key(lc, a.root)
      ws = writes.get(key)
      if not ws:
        continue
      sig = (lc.name, key, a.loc, a.chain, a.idx)
      if sig in seen:
        continue
      seen.add(sig)
      n += 1
      cover0 = Cover(lc)
      need0 = needed_tids(lc)

      def private(idx, pc):
        cov_ = set(pinned(lc, pc))
        for ix in idx:
          cov_ |= cover0.tids(ix)
        return need0 <= cov_

      # same cell as one of the thread's own plain writes, or as an atomic on a cell only this thread can address
      own = any(w.idx == a.idx and (not w.is_atomic or private(w.idx, w.pc)) for w in ws)
      shared_counter = (not own) and any(w.idx == a.idx and w.is_atomic for w in ws)
      if not own and a.kind == "tile_r" and lc.ev.tiled:
        own = True
      if not own and not shared_counter:
        # a read whose index determines the reading thread addresses a cell that only this thread can write,
        # provided every writer of the array in this launch is thread-determined as well
        if private(a.idx, a.pc) and all(private(w.idx, w.pc) for w in ws):
          own = True
      tab = race_tables.READ_IDIOMS.get((lc.name, key)) or race_tables.READ_IDIOMS.get((lc.name, "*"))
      if tab is not None and not own and tab[0] == "level-scheduled":
        # the argument needs one launch per tree level: the launch must sit in a host loop over levels
        marker = tab[2] if len(tab) > 2 else "body_tree"
        if not any(marker in l for l in lc.ev.loops) and lc.ev.stack and not any(marker in l for l in getattr(lc.ev, "loops", ())):
          tab = None if lc.ev.loops == () and len(lc.ev.stack) > 1 else tab
      if shared_counter and not own and tab is None:
        tab = race_tables.COUNTER_READ_IDIOMS.get((lc.name, key))
      res.ob(
        own or tab is not None,
        f"{lc.name}|{key}|crossread",
        Finding("R-RACE.2", f"{lc.name}|{key}|reads-cell-written-by-other-thread", f"the launch writes {key} and also reads `{a.root}[{', '.join(show(i)[:40] for i in a.idx)}]`, a cell it does not own: the value depends on whether the owning thread has run", a.loc),
      )
  return n


def _value_atomics(t):
  """Atomic results that contribute to the *value* t (not those that only address a load inside it)."""
  out, seen, stack = [], set(), [t]
  while stack:
    x = stack.pop()
    if not isinstance(x, T) or x in seen:
      continue
    seen.add(x)
    if x.op == "at":
      out.append(x)
      continue
    if x.op == "ld":
      continue
    stack.extend(a for a in x.args if isinstance(a, T))
  return out


def check_atomic_values(res: Result, lcs: List[LaunchCtx]):
  n = 0
  seen = set()
  for lc in lcs:
    for a in lc.keval.accesses:
      if not a.is_write or not isinstance(a.value, T):
        continue
      ats = _value_atomics(a.value)
      if not ats:
        continue
      sig = (lc.name, a.root, a.loc)
      if sig in seen:
        continue
      seen.add(sig)
      n += 1
      p = lc.formals.get(a.root.split(".")[0])
      dt = p.dtype if p is not None else ""
      is_int = any(x in dt for x in ("int", "vec2i", "vec3i", "bool")) and "float" not in dt
      tab = race_tables.ATOMIC_VALUE_IDIOMS.get((lc.name, a.root))
      res.ob(
        is_int or tab is not None,
        f"{lc.name}|{a.root}|atomic-value",
        Finding("R-RACE.3", f"{lc.name}|{a.root}|stores-atomic-result", f"`{a.root}` ({dt}) stores a value computed from the result of an atomic (`{show(a.value)[:70]}`): the stored number depends on the order in which threads arrive", a.loc),
      )
  return n


# cycle walkers: they follow tree_asleep links through a whole sleep cycle (cells of other trees by construction); the
# entry cell is what the caller decides on. _sleep_cycle only reads (returns -1 as soon as it meets an awake link).
WALKER_FUNCS = ("sleep._wake_tree", "sleep._sleep_cycle")


def check_wake_snapshot(res, lcs) -> int:
  """R-RACE.5 (the mechanisable part of the sleep-cycle waking idiom): in a kernel tabled as WAKE, threads race on
  Data.tree_asleep through the walker `_wake_tree`. What makes the *set* of woken trees schedule-independent is that
  every decision a thread takes about a tree it does not own is based on a snapshot array that this launch does not
  write (tree_awake): each read of the racy array outside the walker, at a cell other than the thread's own, must be
  control-dependent on a test of a non-written array at the same cell."""
  from ..tables import race_tables

  n = 0
  for lc in lcs:
    racy = [root for (k, root), v in race_tables.WRITE_IDIOMS.items() if k == lc.name and v is race_tables.WAKE]
    if not racy:
      continue
    acc = lc.keval.accesses
    written_keys = {array_key(lc, a.root) for a in acc if a.is_write}
    racy_keys = {array_key(lc, r) for r in racy}
    own = tuple(T("tid", k) for k in range(lc.keval.ntid))
    seen = set()
    for a in acc:
      if a.kind != "r" or array_key(lc, a.root) not in racy_keys:
        continue
      if a.func.split(".kernel")[0] in WALKER_FUNCS or any(a.func.endswith(w.split(".")[-1]) for w in WALKER_FUNCS):
        continue
      if tuple(a.idx) == own[: len(a.idx)]:
        continue  # the thread's own cell
      k = (a.func, a.loc, tuple(a.idx))
      if k in seen:
        continue
      seen.add(k)
      n += 1
      ok = False
      for t, pol in pc_literals(a.pc):
        for s in subterms(t):
          if s.op == "ld" and tuple(s.args[1:]) == tuple(a.idx) and array_key(lc, s.args[0]) not in written_keys:
            ok = True
      res.ob(
        ok,
        f"{lc.name}|{a.func.split('.')[-1]}|snapshot|{a.loc.rsplit(':', 1)[-1]}",
        Finding(
          "R-RACE.5",
          f"{lc.name}|{array_key(lc, a.root)}|decision-on-racy-cell",
          f"`{a.root}[{', '.join(show(i)[:50] for i in a.idx)}]` is read outside the walker without a dominating test of a snapshot array at the same cell: other threads of this launch write that cell through _wake_tree, so whether/which trees are woken depends on thread order",
          a.loc,
        ),
        sample={"kernel": lc.name, "read": a.loc, "func": a.func},
      )
  return n


def check_order_arbitrary_lists(res, all_lcs, scope) -> int:
  """R-RACE.6: an array dimension that some launch fills through atomically allocated slots holds its entries in an
  order that depends on the thread schedule (the *set* of entries does not). Consumers may scan it, index it by their
  own position, or follow stored addresses - but reading the entry at a fixed offset from a loop variable or thread
  index (`list[g - 1]`, `list[i + 1]`) makes the result depend on which entries happen to be neighbours. Block-internal
  offsets (`slot + j` with slot loaded or just allocated) are not of that form and are not reported."""
  slot_dims = {}
  for lc in all_lcs:
    for a in lc.keval.accesses:
      if a.is_write and not a.is_atomic and a.idx:
        for k, ix in enumerate(a.idx):
          if isinstance(ix, T) and any(s.op == "at" for s in subterms(ix)):
            slot_dims.setdefault(array_key(lc, a.root), set()).add(k)
  n = 0
  seen = set()
  for lc in scope:
    for a in lc.keval.accesses:
      if a.is_write or not a.idx:
        continue
      key = array_key(lc, a.root)
      dims = slot_dims.get(key)
      if not dims:
        continue
      for k, ix in enumerate(a.idx):
        if k not in dims or not isinstance(ix, T):
          continue
        af = affine(ix)
        atoms = list(af.coef.items())
        if len(atoms) != 1 or atoms[0][0].op not in ("lv", "tid") or atoms[0][1] != 1:
          continue
        sig = (lc.name, key, k, af.const != 0)
        if sig in seen:
          continue
        seen.add(sig)
        n += 1
        part_of_prefix_scan = False
        if af.const == -1:
          # `list[g - 1]` as the first step of a scan of the whole prefix list[0:g]: the same kernel also reads the same
          # dimension at a loop variable running over range(g - 1) - together every earlier entry is visited, so the
          # result depends on the set of earlier entries only
          pos = atoms[0][0]
          for b in lc.keval.accesses:
            if b.is_write or array_key(lc, b.root) != key or len(b.idx) <= k:
              continue
            j = b.idx[k]
            if isinstance(j, T) and j.op == "lv":
              info = lc.keval.loops.get(j.args[0], {})
              lo, hi = info.get("lo"), info.get("hi")
              if isinstance(lo, T) and lo.op == "c" and lo.args[0] == 0 and isinstance(hi, T):
                ah = affine(hi)
                if ah.const == -1 and list(ah.coef.items()) == [(pos, 1)]:
                  part_of_prefix_scan = True
        res.ob(
          af.const == 0 or part_of_prefix_scan,
          f"{lc.name}|{key}|dim{k}|{'neighbour' if af.const else 'own-position'}",
          Finding(
            "R-RACE.6",
            f"{lc.name}|{key}|neighbour-read-of-slot-ordered-list",
            f"`{a.root}[..., {show(ix)}, ...]` reads the entry at offset {af.const:+d} from the loop/thread position in a dimension that is filled through atomically allocated slots: which entry is the neighbour depends on the thread schedule of the filling launch",
            a.loc,
          ),
          sample={"kernel": lc.name, "array": key, "index": show(ix)} if n % 40 == 1 else None,
        )
  return n


def check_ldl_level_schedule(res, db, lcs) -> int:
  """R-RACE.7 (the host half of the level-scheduled sparse L'DL idiom): `_qLD_acc` is launched once per entry of
  m.qLD_updates; inside one launch every thread accumulates (atomically) into the row of the dof stored in component 0 of
  its update triple and reads the row of the dof in component 1. That is schedule-independent only if all rows *written*
  in one launch belong to one tree depth, so that the rows *read* (deeper dofs) are not written by the same launch.
  Checked: (kernel) the accumulation address is M_rowadr[update[0]] + j and the rows read are addressed through
  update[1]; (host, put_model) the triples are grouped by the depth of the variable that becomes component 0."""
  import ast

  n = 0
  ks = [lc for lc in lcs if lc.name == "smooth._qLD_acc"]
  if not ks:
    res.error("anchor vanished: launch of smooth._qLD_acc")
    return 0
  lc = ks[0]
  upd = [p.name for p in lc.keval.params if p.kind == "array" and "vec3i" in p.dtype]
  ok_k = False
  why = "no update-triple parameter"
  if upd:
    u = upd[0]
    comp = lambda t: next((s.args[1].args[0] for s in subterms(t) if s.op == "idx" and isinstance(s.args[0], T) and s.args[0].op == "ld" and s.args[0].args[0] == u and isinstance(s.args[1], T) and s.args[1].op == "c"), None)  # noqa: E731
    wrote = {comp(a.idx[-1]) for a in lc.keval.accesses if a.is_atomic and a.idx}
    ok_k = wrote == {0}
    why = f"atomic accumulation rows are addressed through components {sorted(x for x in wrote if x is not None)} of the update triple"
  n += 1
  res.ob(ok_k, "qLD_acc|writes-row-of-component-0", Finding("R-RACE.7", "smooth._qLD_acc|update-triple|written-row", f"_qLD_acc: {why}; the level schedule assumes the accumulated row is that of component 0", lc.ev.loc))
  fi = db.sm.func("io.put_model")
  # the dict whose values become m.qLD_updates
  src = None
  for node in ast.walk(fi.node):
    if isinstance(node, ast.Assign) and any(isinstance(t, ast.Attribute) and t.attr == "qLD_updates" for t in node.targets):
      names = [x.id for x in ast.walk(node.value) if isinstance(x, ast.Name)]
      src = next((x for x in names if x not in ("tuple", "wp", "sorted", "i", "types")), None)
  n += 1
  found = False
  for node in ast.walk(fi.node):
    if isinstance(node, ast.Call) and isinstance(node.func, ast.Attribute) and node.func.attr == "append" and isinstance(node.func.value, ast.Call) and isinstance(node.func.value.func, ast.Attribute) and node.func.value.func.attr == "setdefault" and isinstance(node.func.value.func.value, ast.Name) and node.func.value.func.value.id == src:
      key = node.func.value.args[0]
      tup = node.args[0] if node.args else None
      first = tup.elts[0] if isinstance(tup, ast.Tuple) and tup.elts else None
      found = True
      okh = isinstance(key, ast.Subscript) and isinstance(first, ast.Name) and isinstance(key.slice, ast.Name) and key.slice.id == first.id
      res.ob(
        okh,
        "put_model|qLD_updates|level-key",
        Finding("R-RACE.7", "io.put_model|qLD_updates|level-key-not-written-row", f"the L'DL update triples `{ast.unparse(tup) if tup is not None else '?'}` are grouped into launches by `{ast.unparse(key)}`; _qLD_acc accumulates into the row of the first component, so launches must be grouped by the depth of `{first.id if isinstance(first, ast.Name) else '?'}` - otherwise threads of one launch write rows that other threads of the same launch read", f"{fi.file}:{node.lineno}"),
      )
  if not found:
    res.error("anchor vanished: construction of m.qLD_updates in io.put_model")
  return n


def check_branch_chains(res, db) -> int:
  """R-RACE.8 (the host half of the branch-redundant idiom): `_kinematics_branch`, `_comvel_branch` and `_cacc_branch` run
  one thread per leaf and recompute the whole root-to-leaf chain, so a thread only reads parent cells it wrote itself (or
  that other threads write with the identical value). That argument needs every branch stored in m.body_branches to be
  the COMPLETE ancestor chain. Checked in put_model: the list that becomes m.body_branches is extended with the loop
  variable of `for branch in branches` itself - not with a filtered / reassigned copy - and `branches` is built by a
  comprehension over a (recursive) ancestor-chain function."""
  import ast

  fi = db.sm.func("io.put_model")
  parents = {}
  for n_ in ast.walk(fi.node):
    for c in ast.iter_child_nodes(n_):
      parents[c] = n_
  target = None
  for node in ast.walk(fi.node):
    if isinstance(node, ast.Assign) and any(isinstance(t, ast.Attribute) and t.attr == "body_branches" for t in node.targets):
      names = [x.id for x in ast.walk(node.value) if isinstance(x, ast.Name) and x.id not in ("np", "int")]
      target = names[0] if names else None
  if target is None:
    res.error("anchor vanished: assignment of m.body_branches in io.put_model")
    return 0
  n = 0
  found = False
  for node in ast.walk(fi.node):
    if isinstance(node, ast.Call) and isinstance(node.func, ast.Attribute) and node.func.attr in ("extend", "append") and isinstance(node.func.value, ast.Name) and node.func.value.id == target:
      found = True
      n += 1
      arg = node.args[0] if node.args else None
      loop = node
      while loop in parents and not isinstance(loop, ast.For):
        loop = parents[loop]
      ok = isinstance(arg, ast.Name) and isinstance(loop, ast.For) and isinstance(loop.target, ast.Name) and loop.target.id == arg.id
      reassigned = False
      if ok:
        for x in ast.walk(loop):
          if isinstance(x, (ast.Assign, ast.AugAssign)):
            tg = x.targets if isinstance(x, ast.Assign) else [x.target]
            if any(isinstance(t, ast.Name) and t.id == arg.id for t in tg):
              reassigned = True
      res.ob(
        ok and not reassigned,
        "put_model|body_branches|complete-chains",
        Finding(
          "R-RACE.8",
          "io.put_model|body_branches|branch-not-appended-whole",
          f"m.body_branches is built from `{ast.unparse(arg) if arg is not None else '?'}`"
          + (" after the loop variable was reassigned inside the loop" if reassigned else "")
          + ": the branch kernels (_kinematics_branch, _comvel_branch, _cacc_branch) are schedule-independent only if every branch is the complete root-to-leaf chain, so that no thread reads a parent cell that only another thread of the same launch writes",
          f"{fi.file}:{node.lineno}",
        ),
      )
  if not found:
    res.error("anchor vanished: construction of the body_branches list in io.put_model")
  return n
