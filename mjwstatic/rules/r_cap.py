"""R-CAP - capacity discipline of atomically allocated slots (C16, C17, C38).

For every `slot = wp.atomic_add(counter, ..., n)` whose result indexes an array:
  O1 guard      every write through the slot is dominated by a comparison bounding the slot by a capacity;
  O2 exact fit  the surviving condition is equivalent to `slot + n <= cap` (n = block size):
                a stricter guard drops a block that fits exactly while the detector (counter > cap) stays silent;
                a looser guard lets `slot + j`, j < n, run past the capacity;
  O3 detection  some overflow-flagging statement compares the same counter (its loaded value or the slot itself)
                with the same capacity.
Allocations that are bounded by construction are tabled in tables/cap_tables.py with their argument.
"""

from __future__ import annotations

from typing import Dict, List, Optional, Set, Tuple

from ..db import LaunchCtx
from ..report import Finding, Result
from ..tables import cap_tables
from ..terms import Affine, T, affine, lit, lit_parts, pc_literals, show, subterms
from .world import array_key


def effective_literals(pc, assume=()) -> List[Tuple[T, bool]]:
  """Flatten a path condition; resolve negated conjunctions whose other conjuncts hold on this path.

  `assume`: literals known to hold whenever the value of interest exists (the path condition of the
  statement that defined it - terms are single-assignment values, so their truth does not change)."""
  lits = list(pc_literals(pc))
  pos = {(t, p) for t, p in lits} | {(t, p) for t, p in pc_literals(assume)}
  out = []
  for t, p in lits:
    if t.op == "all" and not p:
      rest = []
      for l in t.args:
        lt, lp = lit_parts(l)
        expanded = list(pc_literals((lit(lt, lp),)))
        if all(e in pos for e in expanded):
          continue
        rest.append((lt, lp))
      if len(rest) == 1:
        out.extend(pc_literals((lit(rest[0][0], not rest[0][1]),)))
        continue
    out.append((t, p))
  return out


def _is_cap_atom(t: T) -> bool:
  return t.op in ("p", "cv", "shape") or (t.op == "call" and t.args[0] in ("int", "wp.min", "min"))


def upper_bound(literal: Tuple[T, bool], slot: T) -> Optional[Tuple[Affine, Affine]]:
  """If the literal implies `slot + G <= cap`, return (G, cap) as affine forms, else None."""
  t, pol = literal
  if not pol or t.op != "cmp":
    return None
  op, a, b = t.args
  if op not in ("<", "<=", ">", ">="):
    return None
  d = affine(a) - affine(b)
  if op == "<":
    e, k = d, -1
  elif op == "<=":
    e, k = d, 0
  elif op == ">":
    e, k = d.scale(-1), -1
  else:
    e, k = d.scale(-1), 0
  cs = e.coef.get(slot, 0)
  if cs != 1:
    return None
  capc, restc = {}, {}
  for atom, c in e.coef.items():
    if atom is slot:
      continue
    if c < 0 and _is_cap_atom(atom):
      capc[atom] = -c
    else:
      restc[atom] = c
  if not capc:
    return None
  g = Affine(restc, e.const - k)
  return g, Affine(capc, 0)


def cap_text(lc: LaunchCtx, cap: Affine) -> str:
  parts = []
  for atom, c in sorted(cap.coef.items(), key=lambda x: x[0]._h):
    if atom.op == "p":
      txt = lc.scalar_binding_text(atom.args[0]) or atom.args[0]
    elif atom.op == "cv":
      txt = str(atom.args[0]).split("=", 1)[-1]
    elif atom.op == "shape":
      txt = f"{array_key(lc, atom.args[0])}.shape[{atom.args[1]}]"
    else:
      txt = show(atom)
    parts.append(txt if c == 1 else f"{c}*{txt}")
  return " + ".join(parts)


class Alloc:
  def __init__(self, lc, acc):
    self.lc, self.acc = lc, acc
    self.slot = T("at", acc.uid, "add", acc.root)
    self.counter = array_key(lc, acc.root)
    self.n = acc.value
    self.uses = []  # (access, dim)  writes indexed through the slot
    self.value_uses = []  # writes that store an address derived from the slot
    self.guard = None  # (G, cap) of the tightest bound found on the first guarded use


def allocations(lc: LaunchCtx) -> List[Alloc]:
  out = []
  ats = {}
  for a in lc.keval.accesses:
    if a.kind == "atomic_add" and a.ret_used:
      al = Alloc(lc, a)
      ats[al.slot] = al
      out.append(al)
  if not ats:
    return out
  for b in lc.keval.accesses:
    if not b.is_write:
      continue
    for d, ix in enumerate(b.idx):
      for s in subterms(ix):
        if s.op == "at" and s in ats and ats[s].acc is not b:
          ats[s].uses.append((b, d))
    if isinstance(b.value, T) and b.kind == "w":
      a = affine(b.value)
      for atom in a.coef:
        if atom.op == "at" and atom in ats and ats[atom].acc is not b:
          ats[atom].value_uses.append((b, -1))
  return out


def overflow_detectors(lcs: List[LaunchCtx]) -> Dict[str, Set[str]]:
  """counter key -> capacity texts it is compared with by statements that flag Data.overflow."""
  det: Dict[str, Set[str]] = {}
  for lc in lcs:
    slots = {}
    for a in lc.keval.accesses:
      if a.kind == "atomic_add" and a.ret_used:
        slots[T("at", a.uid, "add", a.root)] = array_key(lc, a.root)
    for a in lc.keval.accesses:
      spec = lc.field(a.root)
      if spec is None or spec.flat != "overflow" or not a.is_write:
        continue
      for t, pol in effective_literals(a.pc):
        if t.op != "cmp":
          continue
        e = affine(t.args[1]) - affine(t.args[2])
        counters = []
        caps = []
        for atom in e.coef:
          if atom.op == "ld":
            counters.append(array_key(lc, atom.args[0]))
          elif atom.op == "at" and atom in slots:
            counters.append(slots[atom])
          elif atom.op == "call" and atom.args[0] in ("wp.min", "min", "wp.max", "int"):
            for s in subterms(atom):
              if s.op == "ld":
                counters.append(array_key(lc, s.args[0]))
          if _is_cap_atom(atom):
            caps.append(cap_text(lc, Affine({atom: 1}, 0)))
        for c in counters:
          det.setdefault(c, set()).update(caps or ["?"])
  return det


def check_allocations(res: Result, lcs: List[LaunchCtx], detectors: Dict[str, Set[str]], want=("O1", "O2", "O3")):
  nalloc = 0
  seen = set()
  for lc in lcs:
    for al in allocations(lc):
      key = (lc.name, al.acc.uid)
      if key in seen or not (al.uses or al.value_uses):
        continue
      seen.add(key)
      nalloc += 1
      tab = cap_tables.UNGUARDED_BY_DESIGN.get((lc.name, al.counter)) or cap_tables.UNGUARDED_BY_DESIGN.get((lc.name.split(".")[0] + ".*", al.counter))
      if tab is None:
        # the tabled argument is about the counter; a renamed kernel of the same module keeps it
        tab = next((v for (kn, c), v in cap_tables.UNGUARDED_BY_DESIGN.items() if c == al.counter and kn.split(".")[0] == lc.name.split(".")[0]), None)
      # O1: a bound on every use
      bounds = []
      unguarded = []
      for b, d in al.uses + al.value_uses:
        ub = None
        for l in effective_literals(b.pc, al.acc.pc):
          u = upper_bound(l, al.slot)
          if u is not None:
            ub = u
            break
        if ub is None:
          if d >= 0:
            unguarded.append((b, d))
        else:
          bounds.append((b, d, ub))
      construct = f"{lc.name}|{al.counter}|n={show(al.n)[:40]}"
      if "O4" in want or "O3" in want:
        # O4: the allocation must not be gated by a plain read of its own counter: a pre-check such as
        # `if counter[w] >= cap: return` keeps the counter from ever exceeding the capacity, which is what
        # every detector tests (and the read races with the other threads' atomic increments)
        gated = None
        for t, pol in pc_literals(al.acc.pc):
          for s_ in subterms(t):
            if s_.op == "ld" and array_key(lc, s_.args[0]) == al.counter:
              gated = t
        res.ob(
          gated is None,
          construct + "|O4",
          Finding(
            "R-CAP.4",
            f"{lc.name}|{al.counter}|gated-by-own-counter",
            f"allocation from counter {al.counter} only happens under `{show(gated) if gated is not None else ''}`, a plain read of the same counter: blocks skipped by this pre-check never raise the counter above the capacity, so no overflow bit can be derived from it",
            al.acc.loc,
          ),
        )
      if "O1" in want:
        ok = not unguarded or tab is not None
        b0 = unguarded[0][0] if unguarded else None
        res.ob(
          ok,
          construct + "|O1",
          Finding(
            "R-CAP.1",
            f"{lc.name}|{al.counter}|{b0.root if b0 else ''}|unguarded",
            f"slot allocated from counter {al.counter} indexes `{b0.root if b0 else ''}` with no dominating capacity comparison",
            b0.loc if b0 else al.acc.loc,
          ),
          sample={"kernel": lc.name, "counter": al.counter, "block": show(al.n), "guard": (f"slot + {bounds[0][2][0]} <= {cap_text(lc, bounds[0][2][1])}" if bounds else ("tabled: " + tab if tab else "none")), "loc": al.acc.loc} if nalloc % 12 == 1 else None,
        )
      if not bounds:
        continue
      g, cap = bounds[0][2]
      ctext = cap_text(lc, cap)
      # O2: exactness  G == n
      if "O2" in want or "O2loose" in want:
        diff = g - affine(al.n)
        perrow = any(a.op == "lv" for a in g.coef)
        if perrow:
          # per-row guard `slot + row + 1 <= cap` inside a loop over the block's rows: exact for each row
          rows_ok = True
          res.ob(rows_ok, construct + "|O2")
        elif diff.is_const():
          okx = diff.const == 0
          if "O2loose" in want and "O2" not in want and diff.const > 0:
            okx = True  # strictness is C16's concern; memory safety only needs the guard not to be loose
          if diff.const > 0:
            msg = f"block of {show(al.n)} rows from counter {al.counter} is dropped unless slot + {g} <= {ctext}: a block that fits exactly (slot + {show(al.n)} == {ctext}) is silently lost while the counter never exceeds the capacity"
          else:
            msg = f"guard only ensures slot + {g} <= {ctext} but the block has {show(al.n)} rows: writes can pass the capacity"
          res.ob(okx, construct + "|O2", Finding("R-CAP.2" if diff.const > 0 else "R-CAP.1", f"{lc.name}|{al.counter}|exact-fit|{'strict' if diff.const > 0 else 'loose'}", msg, bounds[0][0].loc))
        else:
          res.extra.setdefault("cap_unknown_exactness", []).append(f"{lc.name}|{al.counter}: G={g} n={show(al.n)}")
          res.ob(True, construct + "|O2?")
      # O3: detection
      if "O3" in want:
        dets = detectors.get(al.counter, set())
        okd = ctext in dets or any(ctext in d_ or d_ in ctext for d_ in dets if d_ != "?") or (lc.name, al.counter) in cap_tables.DETECTION_EXEMPT or any(c == al.counter and kn.split(".")[0] == lc.name.split(".")[0] for (kn, c) in cap_tables.DETECTION_EXEMPT)
        res.ob(
          okd,
          construct + "|O3",
          Finding(
            "R-CAP.3",
            f"{al.counter}|{ctext}|undetected",
            f"blocks allocated from counter {al.counter} are dropped when they exceed {ctext}, but no statement that sets an overflow bit compares this counter with {ctext} (detectors for this counter: {sorted(dets) or 'none'})",
            bounds[0][0].loc,
            {"first_site": lc.name},
          ),
        )
  return nalloc


def check_counter_survives_to_detector(res: Result, db, entry: str) -> int:
  """R-CAP.3b: an overflow detector that reads a counter after the fact (`counter > capacity` in a later kernel) only
  sees what the counter holds at that moment. On the ordered trace of `entry`, for every launch that allocates from a
  counter under a dropping guard, the counter must reach a detector launch without being re-initialised (host zero_/fill_
  or a kernel that stores a constant) in between - otherwise blocks dropped before the reset are never reported."""
  from .. import effects

  hi = db.trace(entry)
  effs = effects.trace_effects(db, hi)
  # detectors: launches whose kernel flags Data.overflow under a comparison on a loaded counter
  det_at = {}  # counter -> [event indices]
  alloc_at = {}  # counter -> [(index, launch name, loc)]
  reset_at = {}  # counter -> [(index, what, pc)]
  for i, e in enumerate(effs):
    if e.ev.kind == "launch" and e.lc is not None:
      lc = e.lc
      for c, caps in overflow_detectors([lc]).items():
        # only after-the-fact detectors: the counter is *loaded* (not the slot just allocated in the same kernel) and the
        # flagging statement compares it with a recognised capacity (a mere `tid >= counter` launch clamp next to an
        # unrelated overflow bit is not a detector of this counter)
        if not (caps - {"?"}):
          continue
        if any(a.kind == "r" and array_key(lc, a.root) == c for a in lc.keval.accesses):
          det_at.setdefault(c, []).append(i)
      for al in allocations(lc):
        alloc_at.setdefault(al.counter, []).append((i, lc.name, e.ev.loc, e.ev.pc))
      for a in lc.keval.accesses:
        if a.kind == "w" and isinstance(a.value, T) and a.value.op == "c" and a.value.args[0] == 0:
          k = array_key(lc, a.root)
          reset_at.setdefault(k, []).append((i, lc.name, e.ev.pc))
    elif e.ev.kind == "fill":
      for k in e.writes:
        reset_at.setdefault(k, []).append((i, "host zero_/fill_ in " + (e.ev.stack[-1] if e.ev.stack else "?"), e.ev.pc))
  n = 0
  # (O3c) flag-conditioned detection: under every single disable/enable flag, an allocating launch that stays reachable
  # must be followed by a detector launch that stays reachable (three-valued evaluation of the host path conditions)
  from .r_flags import FlagEnv

  flags = ["DisableBit." + m_ for m_ in db.sm.enums.get("DisableBit", {})] + ["EnableBit." + m_ for m_ in db.sm.enums.get("EnableBit", {})]
  for flag in flags:
    env = FlagEnv(flag, True)
    for c, dets in sorted(det_at.items()):
      live_dets = [d for d in dets if env.pc_host(effs[d].ev.pc) is not False]
      for i, name, loc, pc in alloc_at.get(c, []):
        if env.pc_host(pc) is False:
          continue
        if not any(d > i for d in dets):
          continue  # no after-the-fact detector at all for this allocation: O3's business
        n += 1
        res.ob(
          any(d > i for d in live_dets),
          f"{entry}|{flag}|{c}|{name}|detector-reachable",
          Finding(
            "R-CAP.3c",
            f"{entry}|{flag}|{c}|{name}|detector-unreachable",
            f"with {flag} set, {name} still allocates from {c} under a dropping capacity guard, but every later overflow detector of that counter ({', '.join(sorted({effs[d].ev.name for d in dets if d > i}))}) becomes unreachable: blocks dropped under this flag are never reported",
            loc,
          ),
        )
  for c, dets in sorted(det_at.items()):
    for i, name, loc, pc in alloc_at.get(c, []):
      later = [d for d in dets if d > i]
      if not later:
        continue
      d0 = later[0]
      n += 1
      # a reset strictly between the allocation and the first later detector, on a path compatible with the allocation
      # (its host condition does not contradict the allocation's)
      bad = [(j, what) for j, what, rpc in reset_at.get(c, []) if i < j < d0 and not any((t, not pol) in set(pc) for t, pol in rpc)]
      res.ob(
        not bad,
        f"{entry}|{c}|{name}|survives",
        Finding(
          "R-CAP.3b",
          f"{entry}|{c}|{name}|counter-reset-before-detector|{bad[0][1] if bad else ''}",
          f"{name} allocates from {c} under a dropping capacity guard, but {bad[0][1] if bad else ''} re-initialises the counter before the overflow detector ({effs[d0].ev.name}) reads it: blocks dropped by this launch are never reported",
          loc,
        ),
        sample={"counter": c, "allocator": name, "detector": effs[d0].ev.name} if n % 10 == 1 else None,
      )
  return n
