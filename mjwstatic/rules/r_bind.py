"""R-BIND - launch binding conformance.

For every launch and every formal whose name maps to a schema field (qvel_in -> Data.qvel,
opt_timestep -> Model.opt.timestep): the actual is that same field, a temporary / context array /
host-function parameter, or a tabled pair. Formal and actual agree in array rank. `_in` array
formals are never written by the kernel (through views, funcs and atomics); Model arrays are never
written outside set_const / io.
"""

from __future__ import annotations

from typing import List

from ..db import LaunchCtx, field_of_param
from ..hostir import Const, EnumV, Expr, Field, Phi, Temp, View, root_array
from ..report import Finding, Result
from ..tables import bind_tables


def check_bindings(res: Result, lcs: List[LaunchCtx]):
  n = 0
  same = temp = other = 0
  for lc in lcs:
    for p, hv in lc.ev.bindings:
      spec = field_of_param(lc.db.sm, p.name)
      if spec is None:
        continue
      n += 1
      r = root_array(hv)
      alts = r.alts if isinstance(r, Phi) else [r]
      for alt in alts:
        alt = root_array(alt)
        construct = f"{lc.name}|{p.name}"
        if isinstance(alt, Field) and alt.owner in ("Model", "Data"):
          if (alt.owner == spec.owner and alt.path == spec.path) or getattr(alt, "alias", None) == (spec.owner, spec.path):
            same += 1
            res.ob(True, construct, sample={"kernel": lc.name, "formal": p.name, "actual": alt.text, "loc": lc.ev.loc} if n % 500 == 1 else None)
            continue
          exc = bind_tables.BINDING_EXCEPTIONS.get((lc.name, p.name))
          okx = exc is not None and exc[0] == f"{alt.owner}.{alt.path}"
          other += 1
          res.ob(
            okx,
            construct,
            Finding(
              "R-BIND.1",
              f"{lc.ev.stack[-1] if lc.ev.stack else '?'}|{lc.name}|{p.name}|{alt.owner}.{alt.path}",
              f"launch of {lc.name} binds formal `{p.name}` (named after {spec.owner}.{spec.path}) to {alt.owner}.{alt.path} ({alt.text})",
              lc.ev.loc,
            ),
          )
        else:
          temp += 1
          # scalars: a Model/Data scalar formal bound to a literal or expression is fine
          res.ob(True, construct)
  return n, same, temp, other


def check_in_not_written(res: Result, lcs: List[LaunchCtx]):
  n = 0
  seen = set()
  for lc in lcs:
    for a in lc.keval.accesses:
      if not a.is_write:
        continue
      base = a.root.split(".")[0]
      key = (lc.name, base)
      if base.endswith("_in") and field_of_param(lc.db.sm, base) is not None:
        n += 1
        exc = bind_tables.IN_WRITTEN_EXCEPTIONS.get(key)
        res.ob(
          exc is not None,
          f"{lc.name}|{base}|in-written",
          Finding("R-BIND.3", f"{lc.name}|{base}|in-written", f"read-only formal `{base}` is written ({a.kind})", a.loc),
        )
      elif key not in seen:
        seen.add(key)
        spec = lc.field(base)
        if spec is not None and spec.owner == "Model" and lc.fi.module not in bind_tables.MODEL_WRITER_MODULES:
          n += 1
          res.ob(False, f"{lc.name}|{base}|model-written", Finding("R-BIND.4", f"{lc.name}|{base}|model-written", f"Model field {spec.path} is written by a simulation kernel ({a.kind})", a.loc))
  return n
