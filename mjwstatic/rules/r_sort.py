"""R-SORT - index-space typing (units-of-measure discipline over the schema's dimension names).

Integer terms get an index space from (a) thread indices via the launch extent, (b) loads from index-valued
arrays via tables/sort_tables.VALUE_SORTS, (c) arithmetic: `adr + k` and loop variables starting at an address
keep the space. An index of *known* space used in a dimension of a *different* known space is a violation;
unknown spaces never alarm.
"""

from __future__ import annotations

from typing import Dict, List, Optional

from ..db import LaunchCtx
from ..report import Finding, Result
from ..tables import sort_tables
from ..terms import T, affine, alternatives, show
from .world import array_key


def _canon(d) -> Optional[str]:
  if not isinstance(d, str):
    return None
  for grp in sort_tables.SAME_SPACE:
    if d in grp:
      return sorted(grp)[0]
  return d


MODEL_SPACES = {_canon(v) for v in sort_tables.EXTENT_SORTS.values()} - {"nworld"}


class Sorts:
  def __init__(self, lc: LaunchCtx):
    self.lc = lc
    self.memo: Dict[T, Optional[str]] = {}

  def of(self, t) -> Optional[str]:
    if not isinstance(t, T):
      return None
    if t in self.memo:
      return self.memo[t]
    self.memo[t] = None
    s = self._of(t)
    self.memo[t] = s
    return s

  def _of(self, t: T) -> Optional[str]:
    o = t.op
    if o == "tid":
      txt = self.lc.dim_text(t.args[0]).strip()
      if "(" in txt or " " in txt or "'" in txt:
        return None  # computed extents and extents of dataclasses.replace()d objects (m2.nv = nvmax_pad) carry no space
      for suf, s in sort_tables.EXTENT_SORTS.items():
        if txt.endswith(suf):
          return s
      # a thread index over the length of an index list (`m.eq_connect_adr.size`, `body_tree.size`) is a *position in
      # that list*: an opaque space of its own, compatible only with the list itself
      for suf in (".size", ".shape[0]"):
        if txt.endswith(suf):
          return "pos:" + txt[: -len(suf)]
      return None
    if o == "ld":
      spec = self.lc.field(t.args[0])
      name = f"{spec.owner}.{spec.path}" if spec is not None else array_key(self.lc, t.args[0])
      return sort_tables.VALUE_SORTS.get(name)
    if o == "lv":
      info = self.lc.keval.loops.get(t.args[0], {})
      lo = info.get("lo")
      return self.of(lo) if isinstance(lo, T) and lo.op != "c" else None
    if o == "phi":
      ss = {self.of(a) for a in t.args if not (isinstance(a, T) and a.op == "carried")}
      return ss.pop() if len(ss) == 1 else None
    if o == "call" and t.args[0] in ("int", "wp.int32") and len(t.args) == 2:
      return self.of(t.args[1])
    if o == "bin" and t.args[0] in ("+", "-"):
      af = affine(t)
      sorted_atoms = [(a, c) for a, c in af.coef.items() if self.of(a) is not None]
      if len(sorted_atoms) == 1 and sorted_atoms[0][1] == 1:
        # address + offset keeps the space (offsets: constants, loop counters, plain values)
        others = [a for a, c in af.coef.items() if a is not sorted_atoms[0][0]]
        if all(a.op in ("lv", "carried", "c", "p") for a in others):
          return self.of(sorted_atoms[0][0])
      return None
    return None


def check_sorts(res: Result, lcs: List[LaunchCtx]):
  n = 0
  known = 0
  seen = set()
  for lc in lcs:
    so = Sorts(lc)
    for a in lc.keval.accesses:
      spec = lc.field(a.root)
      if spec is None or not spec.is_array or not a.idx:
        continue
      if f"{spec.owner}.{spec.path}" in sort_tables.LAYOUT_VARIANT_FIELDS:
        continue
      for k, ix in enumerate(a.idx):
        if k >= len(spec.dims):
          break
        d = _canon(spec.dims[k])
        if d is None or d == "*":
          continue
        n += 1
        s = _canon(so.of(ix))
        if s is None:
          continue
        known += 1
        if d == "nworld" and s == "nworld":
          continue
        if s.startswith("pos:"):
          host = lc.host(a.root)
          if d not in MODEL_SPACES or (host is not None and host.text == s[4:]):
            known -= 1
            continue  # the list itself, or a dimension that is not a model index space
        ok = s == d or (lc.name, a.root) in sort_tables.SORT_EXCEPTIONS
        sig = (lc.name, a.root, k, s, d)
        if not ok and sig in seen:
          continue
        seen.add(sig)
        res.ob(
          ok,
          f"{lc.name}|{a.root}|dim{k}",
          Finding("R-SORT.1", f"{lc.name}|{a.root}|dim{k}|{s}-used-as-{d}", f"`{a.root}` ({spec.owner}.{spec.path}, dims {spec.dims}) is indexed in dimension {k} (`{d}`) by `{show(ix)[:70]}`, which is a `{s}` index: the two index spaces coincide only for special models", a.loc),
          sample={"kernel": lc.name, "array": a.root, "dim": d, "index": show(ix)[:50], "space": s} if known % 300 == 1 else None,
        )
  return n, known


# ------------------------------------------------------------------------------------------------ R-SORT.3
def check_tagged_ids(res: Result, lcs: List[LaunchCtx]) -> int:
  """R-SORT.3: `efc.id` and `sensor_objid` are tagged ids - which index space the number lives in (joint, tendon, dof,
  equality, contact) is said by the type stored next to it (`efc.type`, `sensor_type`). Comparing two such ids for
  equality means something only on paths where both tags are pinned to members of the SAME space: `efc_id == objid` under
  `efc_type in (LIMIT_JOINT, LIMIT_TENDON)` with the sensor's kind left open matches joint k's sensor against tendon k's
  row. Decided by enumerating the tag members: for every pair of members whose spaces differ, the path condition of the
  access must be definitely false (three-valued evaluation; everything that is not a tag test is unknown)."""
  from ..terms import lit_parts, pc_literals, subterms

  tab = sort_tables.TAGGED_IDS
  n = 0
  seen = set()

  def tagged(lc, t):
    if isinstance(t, T) and t.op == "ld":
      k = array_key(lc, t.args[0])
      if k in tab:
        return k
    return None

  for lc in lcs:
    for a in lc.keval.accesses:
      if not a.is_write:
        continue
      cmps = []
      for t, pol in pc_literals(a.pc):
        if pol and isinstance(t, T) and t.op == "cmp" and t.args[0] == "==":
          ka, kb = tagged(lc, t.args[1]), tagged(lc, t.args[2])
          if ka and kb:
            cmps.append((t, ka, kb))
      for t, ka, kb in cmps:
        sig = (lc.name, t)
        if sig in seen:
          continue
        seen.add(sig)
        n += 1
        ida, idb = t.args[1], t.args[2]
        tfa, ena, spa = tab[ka]
        tfb, enb, spb = tab[kb]

        def tag_load_matches(x, tagfield, idterm):
          """x is a load of the tag field at the same element as the id"""
          return isinstance(x, T) and x.op == "ld" and array_key(lc, x.args[0]) == tagfield and tuple(x.args[1:]) == tuple(idterm.args[1:])

        def ev(x, asg):
          """three-valued truth of a path-condition term under a tag assignment {('a'|'b'): member}"""
          if isinstance(x, T) and x.op == "lit":
            v = ev(x.args[0], asg)
            return v if (v is None or x.args[1]) else (not v)
          if isinstance(x, T) and x.op in ("all", "and"):
            vs = [ev(y, asg) for y in x.args]
            return False if any(v is False for v in vs) else (True if all(v is True for v in vs) else None)
          if isinstance(x, T) and x.op == "or":
            vs = [ev(y, asg) for y in x.args]
            return True if any(v is True for v in vs) else (False if all(v is False for v in vs) else None)
          if isinstance(x, T) and x.op == "not":
            v = ev(x.args[0], asg)
            return None if v is None else not v
          if isinstance(x, T) and x.op == "cmp" and x.args[0] in ("==", "!="):
            l, r = x.args[1], x.args[2]
            if isinstance(l, T) and l.op == "enum":
              l, r = r, l
            if isinstance(r, T) and r.op == "enum":
              for side, tf, en, idt in (("a", tfa, ena, ida), ("b", tfb, enb, idb)):
                if r.args[0] == en and tag_load_matches(l, tf, idt):
                  eq = asg[side] == r.args[1]
                  return eq if x.args[0] == "==" else not eq
          return None

        bad = None
        for ma, sa in spa.items():
          for mb, sb in spb.items():
            if sa == sb:
              continue
            asg = {"a": ma, "b": mb}
            if not any(ev(l, asg) is False for l in a.pc):
              bad = (ma, mb, sa, sb)
              break
          if bad:
            break
        res.ob(
          bad is None,
          f"{lc.name}|tagged-id-compare|{show(t)[:60]}",
          Finding(
            "R-SORT.3",
            f"{lc.name}|{ka}=={kb}|tags-not-pinned-to-one-space",
            f"`{show(t)[:100]}` compares two tagged ids, but the path to `{a.root}` stays reachable with {tfa.split('.')[-1]} = {bad[0] if bad else ''} (a `{bad[2] if bad else ''}` id) and {tfb.split('.')[-1]} = {bad[1] if bad else ''} (a `{bad[3] if bad else ''}` id): equal numbers in different index spaces are matched (element k of one kind against element k of the other)",
            a.loc,
          ),
          sample={"kernel": lc.name, "compare": show(t)[:80]},
        )
  return n



# ------------------------------------------------------------------------------------------------ R-SPARSE.1
# Data arrays whose sparsity structure is a MODEL constant (compiled by MuJoCo, columns sorted by dof): value array -> colind
MODEL_STRUCTURED_SPARSE = {"Data.ten_J": "Model.ten_J_colind"}


def check_model_structured_sparse(res: Result, lcs: List[LaunchCtx]) -> int:
  """R-SPARSE.1: the non-zero positions of `ten_J` are fixed by the model (`ten_J_rowadr/rownnz/colind`, columns in the
  compiler's order, not in the order the tendon's wrap objects are listed). A kernel that stores into position p of the
  value array must have identified p as the slot of the column it means: the store is dominated by the test
  `ten_J_colind[p] == <dof>` on the very same position term p. Writing "the k-th coefficient into the k-th slot" is right
  only for tendons whose joints happen to be listed in dof order."""
  from ..terms import pc_literals, subterms

  n = 0
  seen = set()
  for lc in lcs:
    for a in lc.keval.accesses:
      if not a.is_write or not a.idx:
        continue
      key = array_key(lc, a.root)
      col = MODEL_STRUCTURED_SPARSE.get(key)
      if col is None:
        continue
      p = a.idx[-1]
      sig = (lc.name, key, p)
      if sig in seen:
        continue
      seen.add(sig)
      n += 1
      ok = False
      for t, pol in pc_literals(a.pc):
        if pol and isinstance(t, T) and t.op == "cmp" and t.args[0] == "==":
          for side in (t.args[1], t.args[2]):
            if isinstance(side, T) and side.op == "ld" and array_key(lc, side.args[0]) == col and side.args[-1] is p:
              ok = True
      res.ob(
        ok,
        f"{lc.name}|{key}|slot|{show(p)[:50]}",
        Finding(
          "R-SPARSE.1",
          f"{lc.name}|{key}|slot-not-matched-against-colind",
          f"`{a.root}[..., {show(p)[:80]}]` is stored without the test `{col.split('.')[-1]}[same position] == <dof>` on its path: the slot of a model-structured sparse row is chosen by position, not by the column it holds (columns are in the compiler's dof order, not in the order the contributions are produced)",
          a.loc,
        ),
        sample={"kernel": lc.name, "array": key, "position": show(p)[:60]},
      )
  return n
