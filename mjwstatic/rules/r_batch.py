"""R-BATCH - batched-parameter discipline (C10, write side for C33).

Every access to a `*`-first Model/Option/Statistic array has first subscript
  W % a.shape[0]              with `a` the same array and W the thread's world id, or
  W % n                       with n a closure constant bound at the launch to m.<same field>.shape[0]
  (W % n) if static(n > 1) else 0
  tid_k                       where launch dimension k is m.<same field>.shape[0] (set_const writers)
"""

from __future__ import annotations

import re
from typing import List, Set

from ..db import LaunchCtx
from ..report import Finding, Result
from ..terms import T, alternatives, show
from .world import Prov, star_fields_in


def _closure_field(lc: LaunchCtx, cv: T):
  """For a closure value `name=<host text>`: the star field whose shape[0] it is, if any."""
  if cv.op != "cv":
    return None
  txt = str(cv.args[0])
  if "=" not in txt:
    return None
  host = txt.split("=", 1)[1]
  m = re.fullmatch(r"m\w*\.((?:opt\.|stat\.)?\w+)\.shape\[0\]", host.strip())
  return m.group(1) if m else None


def classify(lc: LaunchCtx, prov: Prov, spec, root: str, i0) -> tuple:
  """-> (ok: bool|None, form: str). None = unknown (never an alarm)."""
  alts = alternatives(i0)
  forms = []
  has_cv_mod = False
  for alt in alts:
    if not isinstance(alt, T):
      forms.append(("unknown", "nonterm"))
      continue
    if alt.op == "bin" and alt.args[0] == "%":
      w, n = alt.args[1], alt.args[2]
      wk = prov.of(w)
      if isinstance(n, T) and n.op == "shape" and n.args[1] == 0:
        nspec = lc.field(n.args[0])
        same = n.args[0] == root or (nspec is not None and nspec.path == spec.path and nspec.owner == spec.owner)
        if not same:
          forms.append(("bad", f"modulus is `{n.args[0]}.shape[0]`, not this array's batch size"))
        elif wk in ("W", "B"):
          forms.append(("ok", "W % a.shape[0]"))
        elif wk == "unknown":
          forms.append(("unknown", "?"))
        else:
          forms.append(("bad", f"`{show(w)}` is not the thread's world id ({wk})"))
        continue
      if isinstance(n, T) and n.op == "cv":
        fld = _closure_field(lc, n)
        if fld == spec.path and wk in ("W", "B"):
          has_cv_mod = True
          forms.append(("ok", "W % closure(m.field.shape[0])"))
        elif fld is not None and fld != spec.path:
          forms.append(("bad", f"closure modulus is bound to m.{fld}.shape[0], not m.{spec.path}.shape[0]"))
        elif fld is None:
          forms.append(("unknown", "closure modulus of unknown binding"))
        elif wk == "unknown":
          forms.append(("unknown", "?"))
        else:
          forms.append(("bad", f"`{show(w)}` is not the thread's world id ({wk})"))
        continue
      forms.append(("bad", f"modulus `{show(n)}` is not a batch size"))
      continue
    if alt.op == "tid":
      d = lc.ev.dim[alt.args[0]].text if alt.args[0] < len(lc.ev.dim) else "?"
      fl = star_fields_in(d, lc.db.sm)
      if spec.path in fl:
        forms.append(("ok", "tid over m.field.shape[0]"))
      else:
        forms.append(("bad", f"thread index over `{d}` without modulo"))
      continue
    if alt.op == "c" and alt.args[0] == 0:
      forms.append(("zero", "0"))
      continue
    k = prov.of(alt)
    if k == "unknown":
      forms.append(("unknown", "?"))
    else:
      forms.append(("bad", f"`{show(alt)}` has no `% batch size`"))
  kinds = [f[0] for f in forms]
  if "bad" in kinds:
    return False, "; ".join(f[1] for f in forms if f[0] == "bad")
  if "zero" in kinds and not has_cv_mod:
    return False, "constant index 0 (world 0's value for every world)"
  if "unknown" in kinds:
    return None, "unknown"
  return True, forms[0][1]


def check_batch(res: Result, lcs: List[LaunchCtx], tags: Set[str], writes_only=False):
  n = 0
  unknown = 0
  for lc in lcs:
    prov = Prov(lc, tags)
    for a in lc.keval.accesses:
      spec = lc.field(a.root)
      if spec is None or not spec.is_array or spec.first != "*" or spec.owner != "Model":
        continue
      if writes_only and not a.is_write:
        continue
      if not a.idx:
        continue
      n += 1
      ok, form = classify(lc, prov, spec, a.root, a.idx[0])
      if ok is None:
        unknown += 1
      res.ob(
        ok is not False,
        f"{lc.name}|{a.root}",
        Finding(
          "R-BATCH",
          f"{lc.name}|{a.root}|{'w' if a.is_write else 'r'}",
          f"batched field `{spec.path}` accessed via `{a.root}[{show(a.idx[0])}, ...]`: {form}",
          a.loc,
          {"launch": lc.ev.loc},
        ),
        sample={"kernel": lc.name, "array": a.root, "index0": show(a.idx[0]), "form": form, "loc": a.loc} if n % 120 == 1 else None,
      )
  return n, unknown


def host_seeded_fields(sm) -> dict:
  """Data fields that make_data initialises from host-side MuJoCo results (`mjd.<x>` after mj_kinematics etc.), i.e.
  derived quantities computed once from the *unbatched* MjModel. Extracted from the Data(...) keyword dict in io.make_data."""
  import ast

  fi = sm.func("io.make_data")
  out = {}
  for n in ast.walk(fi.node):
    if isinstance(n, ast.Dict):
      for k, v in zip(n.keys, n.values):
        if isinstance(k, ast.Constant) and isinstance(k.value, str) and v is not None:
          srcs = sorted({x.attr for x in ast.walk(v) if isinstance(x, ast.Attribute) and isinstance(x.value, ast.Name) and x.value.id == "mjd"})
          if srcs:
            out["Data." + k.value] = srcs
  return out


def check_seeded_vs_batched(res, db, lcs) -> int:
  """R-BATCH.4: a Data field that make_data seeds from the unbatched MjModel and that a step kernel recomputes from
  batched ('*') Model fields must be recomputed for EVERY element whenever those fields are batched. If the kernel skips
  elements on a purely model-determined condition (static geoms), the skipped elements keep world 0's compiled value in
  every world: the per-world parameter has no effect there. Accepted: the skip is taken only under
  `<field>.shape[0] == 1` for each batched field the recomputation reads."""
  from ..report import Finding
  from ..terms import T, lit, lit_parts, pc_literals, show, subterms
  from .world import array_key

  seeded = host_seeded_fields(db.sm)
  if len(seeded) < 3:
    res.error(f"anchor vanished: make_data seeds only {sorted(seeded)} from host results")
  n = 0
  seen = set()
  for lc in lcs:
    for a in lc.keval.accesses:
      if a.kind != "w" or a.value is None:
        continue
      key = array_key(lc, a.root)
      if key not in seeded:
        continue
      batched = {}
      for s in subterms(a.value):
        if s.op == "ld":
          f = lc.field(s.args[0])
          if f is not None and f.owner == "Model" and f.is_array and f.first == "*":
            batched[s.args[0]] = f.path
      if not batched:
        continue
      # model-determined skip: a path literal built only from Model-array loads, thread indices and constants
      skips = []
      others = [set(pc_literals(b.pc)) for b in lc.keval.accesses if b is not a and b.kind == "w" and array_key(lc, b.root) == key]

      def covered_elsewhere(t, pol):
        """is the complement of this literal the path of another write to the same field (if/else, not a skip)?"""
        if t.op == "all" and not pol:
          want = set()
          for l in t.args:
            want.add((l.args[0], l.args[1]))
          return any(want <= o for o in others)
        comp = lit_parts(lit(t, not pol))  # normalised complement (`not (x >= 0)` is stored as `x < 0`)
        return any((t, not pol) in o or comp in o for o in others)

      for t, pol in pc_literals(a.pc):
        if covered_elsewhere(t, pol):
          continue
        parts = list(t.args) if t.op == "all" else [t]
        flat = []
        for p_ in parts:
          flat.append(p_.args[0] if isinstance(p_, T) and p_.op == "lit" else p_)
        lds = [s for x in flat for s in subterms(x) if isinstance(s, T) and s.op == "ld"]
        if not lds:
          continue
        if all((lc.field(s.args[0]) is not None and lc.field(s.args[0]).owner == "Model") for s in lds):
          # which batched fields does this skip explicitly require to be unbatched?
          unb = {s.args[1].args[0] for x in flat for s in subterms(x) if isinstance(s, T) and s.op == "cmp" and s.args[0] == "==" and isinstance(s.args[1], T) and s.args[1].op == "shape" and s.args[1].args[1] == 0 and isinstance(s.args[2], T) and s.args[2].op == "c" and s.args[2].args[0] == 1}
          skips.append((t, unb))
      sig = (lc.name, key)
      if sig in seen:
        continue
      seen.add(sig)
      n += 1
      missing = sorted({p for r, p in batched.items() if any(r not in unb for _, unb in skips)}) if skips else []
      res.ob(
        not missing,
        f"{lc.name}|{key}|seeded-vs-batched",
        Finding(
          "R-BATCH.4",
          f"{lc.name}|{key}|skipped-elements-ignore-batched|{'+'.join(missing)}",
          f"{key} is seeded by make_data from the unbatched MjModel ({', '.join(seeded[key])}) and recomputed here from the batched field(s) {missing}, but only for elements passing the model-determined test `{show(skips[0][0])[:120] if skips else ''}`: the skipped elements keep world 0's compiled value in every world, so per-world {missing} have no effect on them",
          a.loc,
        ),
        sample={"kernel": lc.name, "field": key, "batched_inputs": sorted(batched.values()), "model_determined_skip": bool(skips)},
      )
  return n


def check_per_world_scratch(res, db, lcs) -> int:
  """R-BATCH.5: a scratch array that a kernel fills at the thread's world position (`tmp[worldid, ...]` or
  `tmp[worldid % tmp.shape[0], ...]`) from per-world Data (`d.<field>[worldid, ...]`) holds one value per WORLD, not per
  batch entry of some Model field: it must be allocated with first extent d.nworld (or the shape of a per-world Data
  array). Sized by a Model field's batch extent it makes world w read the value computed from world (w mod extent)'s Data."""
  from ..hostir import Temp, root_array
  from ..report import Finding
  from ..terms import T, show, subterms
  from .world import array_key

  n = 0
  seen = set()
  for lc in lcs:
    reads_world = sorted({lc.field(a.root).path for a in lc.keval.accesses if not a.is_write and a.idx and a.idx[0] is T("tid", 0) and lc.field(a.root) is not None and lc.field(a.root).owner == "Data" and lc.field(a.root).is_array and lc.field(a.root).first == "nworld"})
    if not reads_world:
      continue
    for a in lc.keval.accesses:
      if not a.is_write or not a.idx:
        continue
      i0 = a.idx[0]
      worldish = i0 is T("tid", 0) or (isinstance(i0, T) and i0.op == "bin" and i0.args[0] == "%" and i0.args[1] is T("tid", 0))
      if not worldish:
        continue
      hv = lc.host(a.root)
      r = root_array(hv) if hv is not None else None
      if not isinstance(r, Temp) or r.key in seen:
        continue
      seen.add(r.key)
      sh = r.shape.text if r.shape is not None else (r.src.text if r.src is not None else "")
      if not sh:
        continue
      first = sh.strip("()[] ").split(",")[0]
      n += 1
      ok = "nworld" in first or sh.endswith(".shape") or r.how in ("clone", "zeros_like", "empty_like", "ones_like", "full_like")
      if not ok and r.src is not None:
        # allocated like another array (zeros_like / empty_like / clone of a per-world Data field)
        from ..hostir import Field

        rs = root_array(r.src)
        if isinstance(rs, Field):
          spec = db.sm.schema_by_path.get((rs.owner, rs.path))
          ok = spec is not None and spec.is_array and spec.first == "nworld"
        elif isinstance(rs, Temp):
          ok = True  # like another scratch array: that one is checked on its own
      res.ob(
        ok,
        f"{r.key}|per-world-scratch",
        Finding(
          "R-BATCH.5",
          f"{r.key}|{lc.name}|scratch-not-sized-by-nworld",
          f"scratch array {r.key} (shape `{sh}`) is filled at the thread's world position by {lc.name} from per-world Data ({', '.join(reads_world[:3])}), but its first extent is `{first}`, not d.nworld: worlds beyond that extent read (through a modulo) values computed from another world's Data",
          a.loc,
        ),
        sample={"scratch": r.key, "shape": sh, "producer": lc.name, "per_world_inputs": reads_world[:3]} if n % 10 == 1 else None,
      )
  return n
