"""R-CLAMP - a range-limited output is stored as the clamp result itself.

For a tabled (kernel, output, range) instance: among the value alternatives of every plain store to the output, a
`wp.clamp` / `wp.min` / `wp.max` whose bounds are loaded from the range array must be the stored value itself, never an
operand of further arithmetic (a term added after the clamp lets the output leave its range). At least one store must
carry such a clamp (anchor).
"""

from __future__ import annotations

from typing import List

from ..report import Finding, Result
from ..terms import T, show, subterms

CLAMPS = ("wp.clamp", "wp.min", "wp.max")


def _unfold(v, out: list):
  if isinstance(v, T) and v.op == "phi":
    for a in v.args:
      _unfold(a, out)
  elif isinstance(v, T) and v.op == "ret":
    _unfold(v.args[1], out)
  elif v not in out:
    out.append(v)


def _depends(v, root: str) -> bool:
  return any(isinstance(s, T) and s.op == "ld" and str(s.args[0]) == root for s in subterms(v))


def _is_clamp_by(t, rng: str) -> bool:
  if not (isinstance(t, T) and t.op == "call" and t.args[0] in CLAMPS):
    return False
  bounds = t.args[2:] if t.args[0] == "wp.clamp" else t.args[1:]
  return any(_depends(b, rng) for b in bounds)


def check_clamp_last(res: Result, lcs, instances, prop: str) -> int:
  n = 0
  by_name = {}
  for lc in lcs:
    by_name.setdefault(lc.name.split(".kernel")[0], lc)
  for kname, out, rng, p, why in instances:
    if p != prop:
      continue
    lc = by_name.get(kname)
    if lc is None:
      res.error(f"anchor vanished: no launch of {kname}")
      continue
    direct = 0
    stores = 0
    for a in lc.keval.accesses:
      if a.kind != "w" or a.root != out or a.value is None:
        continue
      stores += 1
      alts: List[T] = []
      _unfold(a.value, alts)
      nested = None
      for alt in alts:
        if _is_clamp_by(alt, rng):
          direct += 1
          # the clamped operand may itself contain earlier clamps by other bounds; only this range matters
          continue
        for s in subterms(alt):
          if s is not alt and _is_clamp_by(s, rng):
            nested = (alt, s)
            break
        if nested:
          break
      n += 1
      res.ob(
        nested is None,
        f"{kname}|{out}|{rng}|store{stores}",
        Finding(
          "R-CLAMP.1",
          f"{kname}|{out}|{rng}|modified-after-clamp",
          f"`{out}` is stored as `{show(nested[0])[:160]}`: the value clamped to `{rng}` is modified after the clamp, so the output can leave its range ({why})" if nested else "",
          a.loc,
        ),
        sample={"kernel": kname, "out": out, "range": rng, "alternatives": len(alts)},
      )
    n += 1
    res.ob(
      direct > 0,
      f"{kname}|{out}|{rng}|anchor",
      Finding("R-CLAMP.2", f"{kname}|{out}|{rng}|never-clamped", f"no store to `{out}` in {kname} carries a clamp by `{rng}` any more ({stores} stores examined): {why}", lc.fi.file if hasattr(lc.fi, "file") else ""),
    )
  return n
