"""R-CLAMP - a range-limited output is stored as the clamp result itself.

For a tabled (kernel, output, range) instance: among the value alternatives of every plain store to the output, a
`wp.clamp` / `wp.min` / `wp.max` whose bounds are loaded from the range array must be the stored value itself, never an
operand of further arithmetic (a term added after the clamp lets the output leave its range). At least one store must
carry such a clamp (anchor).
"""

from __future__ import annotations

from typing import List

from ..report import Finding, Result
from ..terms import T, show, subterms

CLAMPS = ("wp.clamp", "wp.min", "wp.max")


def _unfold(v, out: list):
  if isinstance(v, T) and v.op == "phi":
    for a in v.args:
      _unfold(a, out)
  elif isinstance(v, T) and v.op == "ret":
    _unfold(v.args[1], out)
  elif v not in out:
    out.append(v)


def _depends(v, root: str) -> bool:
  return any(isinstance(s, T) and s.op == "ld" and str(s.args[0]) == root for s in subterms(v))


def _is_clamp_by(t, rng: str) -> bool:
  if not (isinstance(t, T) and t.op == "call" and t.args[0] in CLAMPS):
    return False
  bounds = t.args[2:] if t.args[0] == "wp.clamp" else t.args[1:]
  return any(_depends(b, rng) for b in bounds)


def check_clamp_last(res: Result, lcs, instances, prop: str) -> int:
  n = 0
  by_name = {}
  for lc in lcs:
    by_name.setdefault(lc.name.split(".kernel")[0], lc)
  for kname, out, rng, p, why in instances:
    if p != prop:
      continue
    lc = by_name.get(kname)
    if lc is None:
      res.error(f"anchor vanished: no launch of {kname}")
      continue
    direct = 0
    stores = 0
    for a in lc.keval.accesses:
      if a.kind != "w" or a.root != out or a.value is None:
        continue
      stores += 1
      alts: List[T] = []
      _unfold(a.value, alts)
      nested = None
      for alt in alts:
        if _is_clamp_by(alt, rng):
          direct += 1
          # the clamped operand may itself contain earlier clamps by other bounds; only this range matters
          continue
        for s in subterms(alt):
          if s is not alt and _is_clamp_by(s, rng):
            nested = (alt, s)
            break
        if nested:
          break
      n += 1
      res.ob(
        nested is None,
        f"{kname}|{out}|{rng}|store{stores}",
        Finding(
          "R-CLAMP.1",
          f"{kname}|{out}|{rng}|modified-after-clamp",
          f"`{out}` is stored as `{show(nested[0])[:160]}`: the value clamped to `{rng}` is modified after the clamp, so the output can leave its range ({why})" if nested else "",
          a.loc,
        ),
        sample={"kernel": kname, "out": out, "range": rng, "alternatives": len(alts)},
      )
    n += 1
    res.ob(
      direct > 0,
      f"{kname}|{out}|{rng}|anchor",
      Finding("R-CLAMP.2", f"{kname}|{out}|{rng}|never-clamped", f"no store to `{out}` in {kname} carries a clamp by `{rng}` any more ({stores} stores examined): {why}", lc.fi.file if hasattr(lc.fi, "file") else ""),
    )
  return n


def check_returns_clamped(res: Result, sm, instances, prop: str) -> int:
  """R-CLAMP.3 (path-sensitive): every return of a tabled @wp.func either lies on a path carrying the tabled exempt literal
  (`<param> == <Enum>.<MEMBER>` as a conjunct of its own) or returns a value with a clamp by the tabled range parameter
  among its alternatives (`x` itself may be a second alternative: the clamp is applied under a `clamp` switch). A new
  early return that hands back an unclamped value - an "idle" fast path - bypasses the range limit."""
  from .. import kir
  from ..terms import pc_literals

  n = 0
  for fkey, rng, exempt, p, why in instances:
    if p != prop:
      continue
    fi = sm.func(fkey)
    ev = kir.evaluate(sm, fi)
    if not ev.returns:
      res.error(f"anchor vanished: {fkey} has no returns")
      continue

    def by_range(t):
      if not (isinstance(t, T) and t.op == "call" and t.args[0] in CLAMPS):
        return False
      bounds = t.args[2:] if t.args[0] == "wp.clamp" else t.args[1:]
      return any(isinstance(x, T) and x.op == "p" and str(x.args[0]) == rng for b in bounds for x in subterms(b))

    for pc, v in ev.returns:
      n += 1
      lits = list(pc_literals(pc))
      ex = any(pol and t.op == "cmp" and t.args[0] == "==" and any(isinstance(x, T) and x.op == "enum" and (x.args[0], x.args[1]) == exempt for x in t.args[1:]) for t, pol in lits)
      alts: List[T] = []
      _unfold(v, alts)
      clamped = any(by_range(a) for a in alts)
      res.ob(
        ex or clamped,
        f"{fkey}|return|{n}",
        Finding(
          "R-CLAMP.3",
          f"{fkey}|{rng}|unclamped-return",
          f"{fkey} returns `{show(v)[:80]}` under [{' & '.join(('' if pol else 'not ') + show(t)[:50] for t, pol in lits)[:200]}] without clamping to `{rng}` ({why})",
          fi.loc() if hasattr(fi, "loc") else fi.file,
        ),
        sample={"function": fkey, "return": show(v)[:60], "exempt_path": ex, "clamped": clamped},
      )
  return n
