"""World provenance of index terms, shared by R-WORLD, R-BATCH and R-RACE."""

from __future__ import annotations

from typing import Dict, Optional, Set

from ..db import LaunchCtx, is_nworld_dim
from ..hostir import Expr, Field, Temp, View, hv_key, root_array
from ..tables import world_tables
from ..terms import T, alternatives


def array_key(lc: LaunchCtx, root: str) -> str:
  """Stable identity of the host array bound to kernel parameter `root` at this launch."""
  base = root.split(".")[0]
  hv = lc.binding.get(base)
  if hv is None:
    return "param:" + base
  r = root_array(hv)
  if isinstance(r, Field):
    return r.key
  if isinstance(r, Temp):
    return r.key
  txt = r.text
  # context objects of unknown class: key by attribute name
  last = txt.rsplit(".", 1)[-1]
  if "." in txt and last.isidentifier():
    return "ctx:" + last
  return "expr:" + txt


def star_fields_in(text: str, sm) -> Set[str]:
  """Batched (`*`) Model fields whose .shape[0] appears in a host expression text."""
  out = set()
  import re

  for m in re.finditer(r"m\w*\.((?:opt\.|stat\.)?\w+)\.shape\[0\]", text):
    spec = sm.schema_by_path.get(("Model", m.group(1)))
    if spec is not None and spec.first == "*":
      out.add(spec.path)
  return out


class Prov:
  """Classifies integer terms of one launch: W (world id), B (batch index), or something else."""

  def __init__(self, lc: LaunchCtx, tags: Set[str]):
    self.lc = lc
    self.tags = tags
    self._memo: Dict[T, str] = {}

  def dim_kind(self, k: int) -> str:
    d = self.lc.ev.dim or []
    if k >= len(d):
      return "?"
    hv = d[k]
    if is_nworld_dim(hv):
      return "W"
    if star_fields_in(hv.text, self.lc.db.sm):
      return "B"
    return "other"

  def of(self, t) -> str:
    """'W' | 'B' | 'const' | 'other' | 'unknown'."""
    if not isinstance(t, T):
      return "unknown"
    r = self._memo.get(t)
    if r is None:
      self._memo[t] = "unknown"  # cycle guard (terms are DAGs; cheap safety)
      r = self._of(t)
      self._memo[t] = r
    return r

  def _of(self, t: T) -> str:
    o = t.op
    if o == "tid":
      return {"W": "W", "B": "B"}.get(self.dim_kind(t.args[0]), "other")
    if o == "c":
      return "const"
    if o == "ld":
      if array_key(self.lc, t.args[0]) in self.tags:
        return "W"
      return "other"
    if o == "phi":
      kinds = {self.of(a) for a in t.args}
      if kinds == {"W"}:
        return "W"
      if kinds <= {"W", "B"}:
        return "B"
      if "unknown" in kinds and kinds <= {"W", "B", "unknown"}:
        return "unknown"
      if kinds == {"const"}:
        return "const"
      return "other"
    if o == "call" and t.args[0] in ("int", "wp.int32") and len(t.args) == 2:
      return self.of(t.args[1])
    if o == "bin" and t.args[0] == "//" and (self.lc.name, "*") in world_tables.WORLD_INDEX_EXCEPTIONS:
      # tabled flattened-index kernels: world id = flattened (world, item) index // items-per-world
      return "W"
    if o == "bin" and t.args[0] == "%":
      # w % arr.shape[0] of a per-world Data array stays a world id
      if self.of(t.args[1]) in ("W", "B") and isinstance(t.args[2], T) and t.args[2].op == "shape":
        spec = self.lc.field(t.args[2].args[0])
        if spec is not None and spec.first == "nworld" and t.args[2].args[1] == 0:
          return self.of(t.args[1])
      return "other"
    if o == "p":
      txt = self.lc.scalar_binding_text(t.args[0])
      if txt is not None and ("worldid" in txt or txt.endswith("world_id")):
        return "unknown"
      return "other" if txt is not None else "unknown"
    if o in ("unk", "cv", "carried"):
      return "unknown"
    return "other"
