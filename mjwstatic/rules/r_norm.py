"""R-NORM.5 - a quaternion assembled from qpos is normalised before it is used.

qpos is user-writable state and MuJoCo accepts unnormalised free / ball quaternions: every C routine that consumes one
normalises its local copy first (mj_kinematics, mj_differentiatePos, ball limits, springs, sensors). The kernels follow
the same discipline: `q = wp.quat(qpos[adr..adr+3]); q = wp.normalize(q)`. A quaternion built from four qpos loads that
reaches any other use (a product, a rotation, a stored value, a comparison) un-normalised scales the result by |q| or
|q|^2 - invisible for every fixture, whose quaternions are unit.
"""

from __future__ import annotations

from ..report import Finding
from ..terms import T, show, subterms
from .world import array_key

STATE_QUAT_FIELDS = ("Data.qpos",)


def _state_quat(lc, t) -> bool:
  if not (isinstance(t, T) and t.op == "call" and t.args[0] in ("wp.quat", "wp.quatf") and len(t.args) == 5):
    return False
  return all(isinstance(x, T) and x.op == "ld" and array_key(lc, x.args[0]) in STATE_QUAT_FIELDS for x in t.args[1:])


def check_state_quats_normalised(res, lcs) -> int:
  n = 0
  seen = set()
  for lc in lcs:
    if lc.name in seen:
      continue
    seen.add(lc.name)
    raw, normed, where = set(), set(), {}
    if not any(array_key(lc, a.root) in STATE_QUAT_FIELDS for a in lc.keval.accesses if not a.is_write):
      continue
    done = set()
    for a in lc.keval.accesses:
      terms = ([a.value] if a.value is not None else []) + list(a.idx) + list(a.pc)
      for t0 in terms:
        if not isinstance(t0, T) or t0 in done:
          continue
        done.add(t0)
        for s in subterms(t0):
          if s.op == "call" and s.args[0] == "wp.normalize" and len(s.args) == 2 and _state_quat(lc, s.args[1]):
            normed.add(s.args[1])
          # a use = the quaternion is an argument of anything but wp.normalize
          if s.op not in ("phi",) and not (s.op == "call" and s.args[0] == "wp.normalize"):
            for x in s.args:
              if _state_quat(lc, x):
                raw.add(x)
                where.setdefault(x, a.loc)
        if _state_quat(lc, t0):
          raw.add(t0)
          where.setdefault(t0, a.loc)
    for q in sorted(raw | normed, key=show):
      n += 1
      res.ob(
        q not in raw,
        f"{lc.name}|state-quat|{show(q.args[1])[:50]}",
        Finding(
          "R-NORM.5",
          f"{lc.name}|qpos-quaternion|used-unnormalised",
          f"the quaternion `{show(q)[:90]}` is assembled from qpos (which may hold an unnormalised quaternion) and used without wp.normalize: products and rotations with it are scaled by |q| / |q|^2",
          where.get(q, lc.ev.loc),
        ),
        sample={"kernel": lc.name, "quat": show(q)[:60]} if n % 4 == 1 else None,
      )
  return n
