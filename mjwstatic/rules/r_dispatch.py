"""R-DISPATCH - handler exhaustiveness relative to a confirmed baseline, and table agreement.

For each (enum, member) the baseline records the feature areas (groups of modules) in which the
member is referenced on the pinned tree (confirmed by reading). Obligation: the member is still
referenced somewhere in each of those areas. A member that is new (absent from the baseline) must
be referenced in at least one non-io area or be tabled as handled implicitly.
Counting references (not shapes of if-chains) keeps the rule silent on refactors such as
turning an if/elif chain into a lookup table.
"""

from __future__ import annotations

import ast
from typing import Dict, List, Set, Tuple

from ..report import Finding, Result
from ..srcmodel import SourceModel
from ..tables import dispatch_tables


def member_refs(sm: SourceModel) -> Dict[Tuple[str, str], Dict[str, int]]:
  refs: Dict[Tuple[str, str], Dict[str, int]] = {}
  for mn, m in sm.modules.items():
    if mn in ("types", "__pkg__", "cli"):
      continue
    for n in ast.walk(m.tree):
      if isinstance(n, ast.Attribute):
        r = sm.resolve_name(mn, n)
        if r and r[0] == "enum":
          d = refs.setdefault((r[1], r[2]), {})
          d[mn] = d.get(mn, 0) + 1
  return refs


def area_of(module: str) -> str:
  for area, mods in dispatch_tables.AREAS.items():
    if module in mods:
      return area
  return module


def check_dispatch(res: Result, sm: SourceModel, enums: List[str], areas: Set[str] = None):
  refs = member_refs(sm)
  n = 0
  for e in enums:
    if e not in sm.enums:
      res.error(f"anchor vanished: enum {e}")
      continue
    base = dispatch_tables.BASELINE.get(e)
    if base is None:
      res.error(f"no dispatch baseline for enum {e}")
      continue
    for mem in sm.enums[e]:
      cur_areas = {area_of(m) for m in refs.get((e, mem), {})}
      if mem not in base:
        n += 1
        ok = bool(cur_areas - {"io"}) or (e, mem) in dispatch_tables.IMPLICIT
        res.ob(ok, f"{e}.{mem}|new", Finding("R-DISPATCH.2", f"{e}.{mem}|new-member-unhandled", f"enum member {e}.{mem} is not in the confirmed baseline and no kernel/host code outside io.py refers to it", "mujoco_warp/_src/types.py"))
        continue
      for area in base[mem]:
        if areas is not None and area not in areas:
          continue
        n += 1
        ok = area in cur_areas
        res.ob(
          ok,
          f"{e}.{mem}|{area}",
          Finding("R-DISPATCH.1", f"{e}.{mem}|{area}|handler-vanished", f"{e}.{mem} was handled in area `{area}` ({', '.join(dispatch_tables.AREAS.get(area, [area]))}) on the confirmed baseline and is no longer referenced there", f"area {area}"),
          sample={"enum": e, "member": mem, "area": area, "refs_now": refs.get((e, mem), {})} if n % 40 == 1 else None,
        )
  return n


def dict_keys_of(sm: SourceModel, module: str, name: str) -> List[str]:
  """Keys (unparsed) of a module-level dict literal."""
  m = sm.module(module)
  node = m.consts.get(name)
  if not isinstance(node, ast.Dict):
    from ..srcmodel import AnalysisError

    raise AnalysisError(f"anchor vanished: {module}.{name} dict literal")
  return [(ast.unparse(k), ast.unparse(v)) for k, v in zip(node.keys, node.values)]
