"""R-LIVE - initialise-before-use over host effect traces (C12, C37, C13).

LiveIn(entry): array keys read by some event of the trace with no earlier event that may define them
on a compatible path (a may-define counts as a kill, so the set under-reports; every member is a
definite read of a value that this call did not produce). Accumulators (atomic / in-place updates)
count as reads of their previous value.
"""

from __future__ import annotations

from typing import Dict, List, Tuple

from .. import effects
from ..db import DB
from ..hostir import HostInterp
from ..tables.config_tables import infeasible


def live_in(db: DB, hi: HostInterp) -> Tuple[Dict[str, dict], Dict[str, List[str]], int]:
  effs = effects.trace_effects(db, hi)
  defs: Dict[str, List[tuple]] = {}
  live: Dict[str, dict] = {}
  writers: Dict[str, List[str]] = {}
  for e in effs:
    if infeasible(e.ev.pc):
      continue  # path requires a configuration that put_model rejects
    for k, loc in e.reads.items():
      if e.writes.get(k) == "w":
        continue  # the same kernel (re)writes the field: intra-kernel order is not tracked (may-define)
      if not effects.may_covered(defs.get(k, []), e.ev.pc):
        if k not in live:
          live[k] = {"event": e.ev.name or e.ev.kind, "loc": loc, "pc": e.ev.pc, "stack": e.ev.stack, "rmw": e.writes.get(k) == "rmw"}
    for k, kind in e.writes.items():
      defs.setdefault(k, []).append(e.ev.pc)
      writers.setdefault(k, []).append(e.ev.name or e.ev.kind)
  return live, writers, len(effs)


def write_set(db: DB, hi: HostInterp) -> Dict[str, List[str]]:
  effs = effects.trace_effects(db, hi)
  out: Dict[str, List[str]] = {}
  for e in effs:
    for k in e.writes:
      out.setdefault(k, []).append(f"{e.ev.name or e.ev.kind}@{e.ev.loc}")
  return out


# ------------------------------------------------------------------------------ scratch reuse in host loops
def _has_ld(t) -> bool:
  from ..terms import T, subterms

  return any(isinstance(s, T) and s.op in ("ld", "at") for s in subterms(t))


def _scatter_dims(lc, key) -> Dict[int, str]:
  """Dimensions in which kernel `lc` writes `key` at a data-dependent index (value loaded from memory)."""
  out: Dict[int, str] = {}
  for a in lc.keval.accesses:
    if a.kind not in ("w", "tile_w") and not a.kind.startswith("atomic"):
      continue
    hv = lc.binding.get(a.root.split(".")[0])
    if key not in effects._keys(hv):
      continue
    for d, ix in enumerate(a.idx):
      if _selects(lc, ix):
        out.setdefault(d, a.loc)
  return out


def _selects(lc, ix) -> bool:
  """Is the index the value of a sparse-structure selection array (a `*colind` schema field)? Such a store touches
  only the columns of one sparse row; address+offset ranges over a partition (block solves) are not selections."""
  from ..terms import T, alternatives

  for alt in alternatives(ix):
    if isinstance(alt, T) and alt.op == "ld":
      spec = lc.field(str(alt.args[0]))
      if spec is not None and spec.path.split(".")[-1].endswith("colind"):
        return True
  return False


def _dense_read_dims(lc, key) -> Dict[int, str]:
  """Dimensions in which kernel `lc` reads `key` at an index that does not depend on loaded data."""
  out: Dict[int, str] = {}
  for a in lc.keval.accesses:
    if a.kind not in ("r", "tile_r", "arr_read"):
      continue
    hv = lc.binding.get(a.root.split(".")[0])
    if key not in effects._keys(hv):
      continue
    if a.kind == "arr_read" or not a.idx:
      out.setdefault(-1, a.loc)
      continue
    for d, ix in enumerate(a.idx):
      if not _has_ld(ix):
        out.setdefault(d, a.loc)
  return out


def _clears(lc, key, dims=None) -> bool:
  """Does kernel `lc` store to `key` at indices that (in the scattered dimensions) do not depend on loaded data
  (an in-kernel clear / dense fill of the row)?"""
  for a in lc.keval.accesses:
    if a.kind not in ("w", "tile_w") or getattr(a, "rmw", False):
      continue
    hv = lc.binding.get(a.root.split(".")[0])
    if key not in effects._keys(hv):
      continue
    if not any(_has_ld(ix) for d, ix in enumerate(a.idx) if dims is None or d in dims):
      return True
  return False


def check_loop_scratch(res, db: DB, hi: HostInterp, entry: str) -> int:
  """R-LIVE.4: inside a host loop, an array that one kernel fills by data-dependent scatter (sparse row ->
  dense vector) and a later event of the same iteration reads densely must be cleared in that same
  iteration before the scatter (fill / zero_ / allocation inside the body / dense stores by a kernel):
  otherwise cells scattered in an earlier iteration are still there. Returns the number of instances."""
  from ..report import Finding

  effs = effects.trace_effects(db, hi)
  n = 0
  # group body events per innermost-or-outer loop id
  loops: Dict[str, List[effects.Effect]] = {}
  for e in effs:
    for lid in e.ev.loops:
      loops.setdefault(lid, []).append(e)
  for lid, body in loops.items():
    if ":for " not in lid:
      continue
    cleared: Dict[str, bool] = {}
    scattered: Dict[str, tuple] = {}
    for e in body:
      # reads first (a kernel that scatters and reads the same key is its own business)
      for k in e.reads:
        if k in scattered and not (e.lc is not None and k in e.writes):
          dims, wloc, wname, was_cleared = scattered[k]
          if e.lc is not None:
            dense = _dense_read_dims(e.lc, k)
            hit = [d for d in dims if d in dense or -1 in dense]
          else:
            hit = list(dims)  # copy / ext / host read: whole array
          if not hit:
            continue
          n += 1
          res.ob(
            was_cleared,
            f"{entry}|{lid.split(':', 1)[1]}|{k}",
            Finding(
              "R-LIVE.4",
              f"{entry}|{k}|stale-scratch-in-loop",
              f"`{k}` is filled by data-dependent scatter in {wname} and then read densely by {e.ev.name or e.ev.kind} in every iteration of `{lid.split(':', 1)[1]}`, but nothing clears it inside the loop body before the scatter: entries scattered by earlier iterations survive",
              wloc,
              {"reader": e.ev.loc},
            ),
            sample={"loop": lid, "array": k, "scatter": wname, "reader": e.ev.name or e.ev.kind},
          )
          del scattered[k]
      for k, kind in e.writes.items():
        if kind == "full":
          cleared[k] = True
          scattered.pop(k, None)
        elif e.lc is not None:
          dims = _scatter_dims(e.lc, k)
          if _clears(e.lc, k, dims or None):
            cleared[k] = True
          if dims and k not in scattered:
            scattered[k] = (dims, next(iter(dims.values())), e.ev.name or "kernel", cleared.get(k, False))
  return n


# ------------------------------------------------------------------------------------------------ R-LIVE.5
# Contact fields a slot writer may leave untouched, with the argument (confirmed by reading the readers)
SLOT_FIELD_EXEMPT = {
  # rigid-geom writers: both geom ids are >= 0, and every reader consults flex/elem/vert only under `geom[side] < 0`
  ("rigid", "contact.flex"): "read only for sides with geom < 0",
  ("rigid", "contact.elem"): "read only for sides with geom < 0",
  ("rigid", "contact.vert"): "read only for sides with geom < 0",
}


def check_slot_records(res, db, lcs) -> int:
  """R-LIVE.5: the flat contact buffer is re-used slot by slot on every step (nacon is reset, slots are handed out by an
  atomic counter), so a slot still holds the record of whatever contact occupied it in an earlier step. Every kernel that
  allocates a slot (`cid = atomic_add(nacon, ...)`) must therefore (re)define EVERY Contact field of that slot, over the
  field's full trailing extent - otherwise the step reads a value left by an earlier step (not a function of the
  integration state). 2-D fields (efc_address) need a loop over the whole second dimension."""
  from ..report import Finding
  from ..terms import T, subterms, show
  from .world import array_key

  cfields = [s for s in db.sm.schema.values() if s.cls == "Contact" and s.is_array and s.first == "naconmax"]
  if len(cfields) < 15:
    res.error(f"anchor vanished: only {len(cfields)} Contact array fields in the schema")
  n = 0
  seen = set()
  for lc in lcs:
    if lc.name in seen:
      continue
    ats = [a for a in lc.keval.accesses if a.kind == "atomic_add" and array_key(lc, a.root) == "Data.nacon" and a.ret_used]
    if not ats:
      continue
    seen.add(lc.name)
    uids = {a.uid for a in ats}
    written = {}
    for a in lc.keval.accesses:
      if a.is_write and not a.is_atomic and a.idx and any(s.op == "at" and s.args[0] in uids for s in subterms(a.idx[0])):
        f = lc.field(a.root)
        if f is not None:
          written.setdefault(f.path, []).append(a)
    kind = "flex" if "contact.flex" in written else "rigid"
    # conditional definition: literals under which EVERY write of a field sits; a field whose writes all carry a literal
    # that some other slot field is written without is only defined on part of the paths that hand out the slot
    base = {p: set.intersection(*[set(a.pc) for a in ws]) for p, ws in written.items()}
    anchor = set.intersection(*base.values()) if base else set()
    for pth, b in sorted(base.items()):
      extra = b - anchor
      n += 1
      res.ob(
        not extra,
        f"{lc.name}|{pth}|unconditional",
        Finding(
          "R-LIVE.5",
          f"{lc.name}|{pth}|slot-field-conditionally-written",
          f"{lc.name} writes Data.{pth} for a freshly allocated contact slot only under [{'; '.join(show(l)[:60] for l in sorted(extra, key=show))}] while other fields of the same slot are written without that condition: on the other paths the slot keeps the value of its previous occupant",
          written[pth][0].loc,
        ),
      )
    for spec in cfields:
      n += 1
      ws = written.get(spec.path, [])
      cons = f"{lc.name}|{spec.path}"
      if not ws:
        ok = (kind, spec.path) in SLOT_FIELD_EXEMPT
        res.ob(
          ok,
          cons,
          Finding(
            "R-LIVE.5",
            f"{lc.name}|{spec.path}|slot-field-not-written",
            f"{lc.name} allocates contact slots but never writes Data.{spec.path} for them: the slot keeps the value of whichever contact occupied it in an earlier step, which later stages of the same step read",
            lc.ev.loc,
          ),
          sample={"writer": lc.name, "field": spec.path, "status": "exempt: " + SLOT_FIELD_EXEMPT.get((kind, spec.path), "") if ok else "missing"} if not ok or n % 20 == 0 else None,
        )
        continue
      if spec.ndim >= 2:
        # every column: some write whose second index is a loop variable running 0 .. shape[1] of the same array
        full = False
        for a in ws:
          if len(a.idx) < 2:
            full = True  # whole-row store
            continue
          j = a.idx[1]
          if isinstance(j, T) and j.op == "lv":
            info = lc.keval.loops.get(j.args[0], {})
            lo, hi = info.get("lo"), info.get("hi")
            lo_ok = isinstance(lo, T) and lo.op == "c" and lo.args[0] == 0
            hi_ok = isinstance(hi, T) and hi.op == "shape" and hi.args[1] == 1 and array_key(lc, hi.args[0]) == array_key(lc, a.root)
            if lo_ok and hi_ok:
              full = True
        res.ob(
          full,
          cons + "|extent",
          Finding(
            "R-LIVE.5",
            f"{lc.name}|{spec.path}|slot-field-partially-written",
            f"{lc.name} (re)defines Data.{spec.path}[slot, j] only for j in {{{', '.join(sorted({show(a.idx[1])[:30] for a in ws if len(a.idx) > 1}))}}}, not over the whole second dimension: the remaining entries keep values from the slot's previous occupant",
            ws[0].loc,
          ),
        )
  return n


# ------------------------------------------------------------------------------------------------ R-LIVE.6
# row/slot buffers whose reads are gated in-kernel by a counter that the same flag zeroes (nacon, nefc, ncollision):
# their liveness is value-dependent and not decided by this rule
COUNTER_GATED_PREFIXES = ("Data.contact.", "Data.efc.")

def check_flag_conditioned_liveness(res, db, entry: str, allowed: set, option_enums=None) -> int:
  """R-LIVE.6: the field-level live-in analysis treats a definition that MAY run as a kill. Disable/enable flags are the
  configuration atoms under which that is unsound: for each single flag (DisableBit set / EnableBit set) this rule asks,
  in three-valued logic over the host path conditions, whether some read of a non-state Data field stays reachable
  while EVERY earlier definition of that field in the same call becomes unreachable. Then the value read is whatever an
  earlier call left there. Reads whose field has no definition at all are R-LIVE.1's business, not this rule's."""
  from .. import effects
  from ..report import Finding
  from .r_flags import FlagEnv

  hi = db.trace(entry)
  effs = effects.trace_effects(db, hi)
  flags = [("DisableBit." + m, True) for m in db.sm.enums.get("DisableBit", {})] + [("EnableBit." + m, True) for m in db.sm.enums.get("EnableBit", {})]
  # per field: ordered (index, pc, kind) of definitions and reads
  defs, reads = {}, {}
  for i, e in enumerate(effs):
    for k, kind in e.writes.items():
      if k.startswith("Data."):
        defs.setdefault(k, []).append((i, e.ev.pc, kind, e))
    for k, loc in e.reads.items():
      if k.startswith("Data."):
        reads.setdefault(k, []).append((i, e.ev.pc, loc, e))
  # flag pairs that one host condition tests together (e.g. `SPRING and DAMPER` in passive()): assigned jointly
  import itertools
  import re as _re

  pairs = set()
  for e in effs:
    for text, _pol in e.ev.pc:
      ms = sorted(set(_re.findall(r"DisableBit\.(\w+)", text)))
      for a_, b_ in itertools.combinations(ms, 2):
        pairs.add((a_, b_))
  assignments = [(f, v, None, None) for f, v in flags] + [("DisableBit." + a_, True, {"DisableBit." + b_: True}, None) for a_, b_ in sorted(pairs)]
  # option enums (m.opt.integrator == IntegratorType.X ...): one assignment per member, no flag assumed
  for attr, cls in (option_enums or {}).items():
    for mem in db.sm.enums.get(cls, {}):
      assignments.append(("DisableBit.__none__", False, None, (attr, cls, mem)))
  n = 0
  for flag, val, more, opt in assignments:
    env = FlagEnv(flag, val, more)
    label = flag if not more else flag + "+" + "+".join(sorted(more))
    if opt is not None:
      env.enum_assign = {opt[0]: (opt[1], opt[2])}
      label = f"{opt[0]}={opt[1]}.{opt[2]}"
    memo = {}

    def dead(pc):
      r = memo.get(pc)
      if r is None:
        r = env.pc_host(pc) is False
        memo[pc] = r
      return r

    for k, rs in reads.items():
      if k in allowed or k not in defs or k.startswith(COUNTER_GATED_PREFIXES):
        continue
      ds = defs[k]
      if not any(dead(pc) for _, pc, _, _ in ds):
        continue  # the flag kills no definition of this field
      for i, pc, loc, e in rs:
        if dead(pc) or k in e.writes:
          continue  # unreachable read, or an in-place stage (reads what it writes itself)
        before = [d for d in ds if d[0] < i]
        if not before:
          continue
        hit = all(dead(dpc) for _, dpc, _, _ in before)
        note = ""
        if not hit and env.pc_host(pc) is True:
          # case split on one model-configuration atom of the surviving definitions (e.g. "the model has connect
          # equalities"): sound only for reads that are *definitely* reachable, so correlated atoms cannot mislead
          cands = []
          for _, dpc, _, _ in before:
            if not dead(dpc):
              for text, _pol in dpc:
                for a_ in env.unknown_atoms(text):
                  if a_ not in cands:
                    cands.append(a_)
          for a_ in cands[:8]:
            for v_ in (True, False):
              env2 = FlagEnv(flag, val, more)
              env2.enum_assign = dict(env.enum_assign)
              env2.atoms = {a_: v_}
              if env2.pc_host(pc) is True and all(env2.pc_host(dpc) is False for _, dpc, _, _ in before):
                # the flag / option must be needed: if the model atom alone already removes every definition, the
                # read is vacuous for such models (e.g. no tendons: the kernel's loop over tendons is empty)
                env3 = FlagEnv("DisableBit.__none__", False)
                env3.atoms = {a_: v_}
                if all(env3.pc_host(dpc) is False for _, dpc, _, _ in before):
                  continue
                hit = True
                note = f" and `{a_}` {'true' if v_ else 'false'}"
                break
            if hit:
              break
        if hit:
          n += 1
          name = e.ev.name or e.ev.kind
          res.ob(
            False,
            f"{entry}|{label}|{k}",
            Finding(
              "R-LIVE.6",
              f"{entry}|{label}|{k}|read-without-live-definition",
              f"with {label}{' set' if opt is None else ''}{note}, every definition of {k} that precedes its read by {name} in {entry.split('.')[-1]}() is unreachable ({', '.join(sorted({(d[3].ev.name or d[3].ev.kind) for d in before}))[:120]}) while the read stays reachable: the value read is left over from an earlier call, so the result is not a function of the integration state",
              loc,
            ),
          )
          break
      else:
        n += 1
        res.ob(True, f"{entry}|{label}|{k}")
  return n


# ------------------------------------------------------------------------------------------------ R-LIVE.7
def _full_launch_def(e, k) -> bool:
  """the launch stores field k unconditionally (no data-dependent literal on the path) at the thread's own index"""
  from .. import effects
  from ..terms import T, pc_literals, subterms

  if e.lc is None:
    return False
  own = tuple(T("tid", t) for t in range(e.lc.keval.ntid))

  def covers(idx):
    """the thread's own index, trailing dimensions possibly swept by loops `for j in range(<extent parameter / shape>)`
    (one row per thread instead of one cell per thread): extents are trusted like launch dimensions are"""
    if tuple(idx) == own[: len(idx)]:
      return True
    ntid = 0
    for ix in idx:
      if ntid < len(own) and ix is own[ntid]:
        ntid += 1
        continue
      if isinstance(ix, T) and ix.op == "lv":
        info = e.lc.keval.loops.get(ix.args[0], {})
        lo, hi = info.get("lo"), info.get("hi")
        if isinstance(lo, T) and lo.op == "c" and lo.args[0] == 0 and isinstance(hi, T) and hi.op in ("p", "shape", "cv"):
          continue
      return False
    return ntid >= 1

  cond = []
  for a in e.lc.keval.accesses:
    if a.kind == "w" and effects.array_key(e.lc, a.root) == k and len(a.idx) >= 1 and covers(a.idx):
      dd = [(t, p) for t, p in pc_literals(a.pc) if any(s.op in ("ld", "at") for s in subterms(t))]
      if not dd:
        return True
      cond.append((a, dd))
  # if/else pair: two stores at the own index whose data-dependent literals are one literal and its complement
  from ..terms import lit, lit_parts

  for i, (a, da) in enumerate(cond):
    if len(da) != 1:
      continue
    comp = lit_parts(lit(da[0][0], not da[0][1]))
    for b, db_ in cond[i + 1 :]:
      if len(db_) == 1 and (db_[0] == comp or db_[0] == (da[0][0], not da[0][1])):
        return True
  return False


def _is_full_def(e, k) -> bool:
  # an initialising allocation (wp.zeros / wp.full / wp.ones / clone) defines every cell, like a host fill
  return (e.ev.kind in ("fill", "copy", "alloc") and e.writes.get(k) == "full") or (e.ev.kind == "launch" and k in e.writes and _full_launch_def(e, k))


def init_then_partial_pairs(db, entry):
  """{(function, field)}: a full definition of the field (host fill/copy, or a launch storing it unconditionally at the
  thread's own index) inside the function is followed, on a compatible path, by a launch of the same function that writes
  the field only partially or accumulates into it."""
  from .. import effects

  hi = db.trace(entry)
  effs = effects.trace_effects(db, hi)
  out = set()
  for i, e in enumerate(effs):
    fn = e.ev.stack[-1] if e.ev.stack else "?"
    for k in e.writes:
      if not _is_full_def(e, k):
        continue
      for j in range(i + 1, len(effs)):
        l = effs[j]
        if l.ev.kind == "launch" and k in l.writes and fn in l.ev.stack and set(e.ev.pc) <= set(l.ev.pc) and not _full_launch_def(l, k):
          out.add((fn, k))
          break
  return out


def check_cleared_before_partial(res, db, entries, table) -> int:
  """R-LIVE.7: tables/live_tables.INIT_BEFORE_PARTIAL lists the (function, field) pairs where today's tree fully
  (re)defines a field - host zero_/fill_/copy, or an initialising launch that stores it unconditionally at the thread's
  own index - before launches of the same function accumulate into it or write it only partially (scatter, data-dependent
  guards, atomic counters). A later change that drops the initialisation leaves the untouched cells / the accumulator
  with the values of an earlier call. For every tabled pair whose function still runs on the trace and still has a partial
  writer of the field, some full definition inside the function must dominate a later partial writer (its host path
  condition is a subset of the writer's)."""
  from .. import effects
  from ..report import Finding

  n = 0
  seen = set()
  for entry in entries:
    hi = db.trace(entry)
    effs = effects.trace_effects(db, hi)
    for fn, k in sorted(table):
      if (fn, k) in seen:
        continue
      partial = [(j, l) for j, l in enumerate(effs) if l.ev.kind == "launch" and k in l.writes and fn in l.ev.stack and not _full_launch_def(l, k)]
      if not partial:
        continue
      seen.add((fn, k))
      n += 1
      ok = False
      for i, e in enumerate(effs):
        if fn in e.ev.stack and _is_full_def(e, k):
          if any(j > i and set(e.ev.pc) <= set(l.ev.pc) for j, l in partial):
            ok = True
            break
      l0 = partial[0][1]
      res.ob(
        ok,
        f"{fn}|{k}|initialised-first",
        Finding(
          "R-LIVE.7",
          f"{fn}|{k}|not-initialised-before-partial-write",
          f"{fn.split('.')[-1]}() used to (re)initialise {k} fully before {l0.ev.name} writes it only partially / accumulates into it; no full definition dominates a partial writer any more, so untouched cells (or the accumulator's start value) come from an earlier call",
          l0.ev.loc,
        ),
        sample={"function": fn, "field": k, "first_partial_writer": l0.ev.name} if n % 10 == 1 else None,
      )
  return n


# ------------------------------------------------------------------------------------------------ R-LIVE.8
def check_fresh_rows_not_read(res, db, lcs) -> int:
  """R-LIVE.8: a constraint row / contact slot obtained from an atomic counter (`efcid = atomic_add(nefc, ...)`,
  `cid = atomic_add(nacon, ...)`) still holds the record of whatever occupied it in an earlier step. A kernel may only
  read a cell of that row after it has written it itself; any other read consumes left-over data (stale type/id/J of a
  previous evaluation), so the step is not a function of the integration state."""
  from ..report import Finding
  from ..terms import T, show, subterms
  from .world import array_key

  n = 0
  seen = set()
  for lc in lcs:
    ats = {a.uid: array_key(lc, a.root) for a in lc.keval.accesses if a.kind == "atomic_add" and a.ret_used and array_key(lc, a.root) in ("Data.nefc", "Data.nacon")}
    if not ats or lc.name in seen:
      continue
    seen.add(lc.name)
    written = set()
    k_reads = 0
    for a in lc.keval.accesses:
      if not a.idx:
        continue
      key = array_key(lc, a.root)
      if not (key.startswith("Data.efc.") or key.startswith("Data.contact.")):
        continue
      if not any(isinstance(ix, T) and any(s.op == "at" and s.args[0] in ats for s in subterms(ix)) for ix in a.idx):
        continue
      sig = (key, tuple(a.idx))
      if a.is_write:
        written.add(sig)
      elif a.kind == "r":
        k_reads += 1
        res.ob(
          sig in written,
          f"{lc.name}|{key}|fresh-row-read|{a.loc.rsplit(':', 1)[-1]}",
          Finding(
            "R-LIVE.8",
            f"{lc.name}|{key}|read-of-freshly-allocated-row",
            f"`{a.root}[{', '.join(show(i)[:30] for i in a.idx)}]` is read at a row/slot this thread has just allocated from the counter and has not written yet: the cell still holds the record of an earlier step",
            a.loc,
          ),
        )
    n += 1
    res.ob(True, f"{lc.name}|allocates-rows|reads-own-fresh-cells={k_reads}")
  return n


# ------------------------------------------------------------------------------------------------ R-LIVE.9
def _guard_arrays(lc, a, want_zero: bool):
  """Schema keys X such that the access sits under `X[tid0] == 0` (want_zero) / `X[tid0] != 0` (not want_zero)."""
  from ..terms import T, pc_literals
  from .world import array_key

  out = set()
  for t, pol in pc_literals(a.pc):
    if not (isinstance(t, T) and t.op == "cmp" and t.args[0] in ("==", "!=")):
      continue
    x, y = t.args[1], t.args[2]
    if isinstance(y, T) and y.op == "ld":
      x, y = y, x
    if not (isinstance(x, T) and x.op == "ld" and len(x.args) == 2 and x.args[1] is T("tid", 0) and isinstance(y, T) and y.op == "c" and y.args[0] == 0):
      continue
    is_zero = (t.args[0] == "==") == bool(pol)
    if is_zero != want_zero:
      continue
    hv = lc.binding.get(x.args[0].split(".")[0])
    from .. import effects

    keys = effects._keys(hv) if hv is not None else []
    if not keys:
      k = array_key(lc, x.args[0])
      keys = [k] if k else []
    out.update(keys)
  return out


def check_guard_complements(res, db, entries, fields=None) -> int:
  """R-LIVE.9: a kernel that (re)defines a per-world output at the thread's own cell but returns early for worlds whose
  counter X is zero (`if X[worldid] == 0: return`) leaves those worlds' cells untouched. When the tree has a *complement
  writer* - a kernel storing the same field under `X[worldid] == 0`, switched on by a factory flag - the two form one
  definition of the field, and the flag must be on wherever the skipping kernel runs: on every host path that launches the
  skipper on an array, a complement writer must have been launched on the same array earlier on that path with its flag
  true or equal to a condition of that path. (The flag of `_solve_init_dof(.., sparse)` against the predicate of the
  sparse `qfrc_constraint` rebuild.)"""
  from .. import effects
  from ..hostir import KernelV
  from ..report import Finding
  from ..terms import T, pc_literals, subterms
  from .world import array_key

  def static_lits(lc, a):
    """closure-flag literals on the access path: [(flag name, polarity)] (terms without loads / thread ids)"""
    out = []
    for t, pol in pc_literals(a.pc):
      if any(s.op in ("ld", "tid", "at", "lv", "carried") for s in subterms(t)):
        continue
      out.append((t, pol))
    return out

  def pname_key(root):
    from ..db import field_of_param

    f = field_of_param(db.sm, root.split(".")[0])
    return f"{f.owner}.{f.path}" if f is not None else None

  # complement writers, from the generic evaluation (flags unknown) of every launched kernel
  comp: Dict[tuple, list] = {}
  for lc in db.launch_ctxs():
    ke = db.eval_plain(lc.fi)
    for a in ke.accesses:
      if a.kind != "w" or not a.idx or a.idx[0] is not T("tid", 0):
        continue
      fk = pname_key(a.root)
      if not fk or (fields and fk not in fields):
        continue
      for t, pol in pc_literals(a.pc):
        if isinstance(t, T) and t.op == "cmp" and t.args[0] == "==" and pol:
          x, y = t.args[1], t.args[2]
          if isinstance(x, T) and x.op == "ld" and len(x.args) == 2 and x.args[1] is T("tid", 0) and isinstance(y, T) and y.op == "c" and y.args[0] == 0:
            gk = pname_key(x.args[0])
            flags = [(s, p) for s, p in static_lits(lc, a)]
            if gk and flags:
              comp.setdefault((fk, gk), []).append((lc.fi.key, a.root, x.args[0]))
  n = 0
  seen = set()
  for entry in entries:
    hi = db.trace(entry)
    effs = [e for e in effects.trace_effects(db, hi) if e.ev.kind == "launch" and e.lc is not None]
    for j, e in enumerate(effs):
      lc = e.lc
      for a in lc.keval.accesses:
        if a.kind != "w" or not a.idx or a.idx[0] is not T("tid", 0):
          continue
        hv = lc.binding.get(a.root.split(".")[0])
        fkeys = effects._keys(hv) if hv is not None else []
        fk = pname_key(a.root)
        for gk in sorted(_guard_arrays(lc, a, want_zero=False)):
          for (cf, cg), writers in comp.items():
            if cg != gk or cf != fk:
              continue
            sig = (lc.name, tuple(fkeys), gk, tuple(e.ev.pc))
            if sig in seen:
              continue
            seen.add(sig)
            n += 1
            ok = False
            for i in range(j):
              w = effs[i]
              if w.lc.name not in {k for k, _, _ in writers} or effects.contradictory(w.ev.pc, e.ev.pc):
                continue
              for b in w.lc.keval.accesses:
                if b.kind != "w" or pname_key(b.root) != fk:
                  continue
                whv = w.lc.binding.get(b.root.split(".")[0])
                if set(effects._keys(whv) if whv is not None else []) != set(fkeys):
                  continue
                if gk not in _guard_arrays(w.lc, b, want_zero=True):
                  continue
                # residual flag literals: each is a closure value text that must hold on the skipper's path
                good = True
                for t, pol in static_lits(w.lc, b):
                  txt = t.args[0].split("=", 1)[1] if t.op == "cv" and "=" in str(t.args[0]) else None
                  if txt is None:
                    continue
                  disj = [x.strip("() ") for x in txt.split(" or ")]
                  if not any((d, pol) in set(e.ev.pc) or (f"({d})", pol) in set(e.ev.pc) for d in disj):
                    good = False
                if good:
                  ok = True
            res.ob(
              ok,
              f"{lc.name}|{fk}|{gk}|complement|{len(seen)}",
              Finding(
                "R-LIVE.9",
                f"{lc.name}|{fk}|{gk}|complement-writer-not-enabled",
                f"{lc.name} rebuilds {fk} but skips worlds with {gk} == 0; the tree's complement writer ({', '.join(sorted({k for k, _, _ in writers}))}, which stores {fk} under {gk} == 0 when its factory flag is set) is not enabled on this host path [{'; '.join(f'{t}={p}' for t, p in e.ev.pc[-3:])}]: those worlds keep the {fk} of an earlier call",
                e.ev.loc,
              ),
              sample={"skipper": lc.name, "field": fk, "counter": gk, "complement_writers": sorted({k for k, _, _ in writers})} if n <= 3 else None,
            )
  return n


# ------------------------------------------------------------------------------------------------ R-LIVE.5b
def _enum_truth(t):
  """three-valued truth of a condition built from comparisons between enum members (None = not decided). Distinct
  members of one IntEnum that mirror distinct MuJoCo enum members have distinct values."""
  from ..terms import T

  if not isinstance(t, T):
    return None
  if t.op == "cmp" and t.args[0] in ("==", "!=") and all(isinstance(x, T) and x.op == "enum" for x in t.args[1:3]):
    a, b = t.args[1], t.args[2]
    if a.args[0] != b.args[0]:
      return None
    eq = a.args[1] == b.args[1]
    return eq if t.args[0] == "==" else not eq
  if t.op in ("or", "and", "all"):
    vals = [_enum_truth(x.args[0]) if (isinstance(x, T) and x.op == "lit" and x.args[1]) else (None if (isinstance(x, T) and x.op == "lit") else _enum_truth(x)) for x in t.args]
    if t.op == "or":
      return True if any(v is True for v in vals) else (False if all(v is False for v in vals) else None)
    return False if any(v is False for v in vals) else (True if all(v is True for v in vals) else None)
  if t.op == "not":
    v = _enum_truth(t.args[0])
    return None if v is None else not v
  return None


def _unreachable(a) -> bool:
  """some literal of the access path is decided false by enum-member comparisons (a branch of a shared helper that this
  caller's constant `type` argument never takes)"""
  from ..terms import lit_parts

  for l in a.pc:
    t, pol = lit_parts(l)
    v = _enum_truth(t)
    if v is not None and v != bool(pol):
      return True
  return False


ROW_RECORD = ("Data.efc.type", "Data.efc.id", "Data.efc.pos", "Data.efc.margin", "Data.efc.D", "Data.efc.vel", "Data.efc.aref", "Data.efc.frictionloss")


def check_row_records_unconditional(res, db, lcs) -> int:
  """R-LIVE.5b: constraint rows are re-used across steps like contact slots (nefc is reset, rows are handed out by atomic
  counters). The scalar per-row fields a row builder writes (type, id, pos, margin, D, vel, aref, frictionloss, ...) form
  one record: a field whose every store carries a data-dependent condition that other fields of the same freshly
  allocated row are written without is defined only for some rows - the others keep the value of the row's previous
  occupant, which get_data_into reports and later stages may read."""
  from ..report import Finding
  from ..terms import T, pc_literals, show, subterms
  from .world import array_key

  n = 0
  seen = set()
  for lc in lcs:
    if lc.name in seen:
      continue
    ats = {a.uid for a in lc.keval.accesses if a.kind == "atomic_add" and a.ret_used and array_key(lc, a.root) in ("Data.nefc", "Data.ne", "Data.nf", "Data.nl")}
    if not ats:
      continue
    seen.add(lc.name)
    written = {}
    for a in lc.keval.accesses:
      if not (a.is_write and not a.is_atomic and len(a.idx) == 2 and a.complete):
        continue
      key = array_key(lc, a.root)
      if key not in ROW_RECORD or _unreachable(a):
        continue
      if not any(s.op == "at" and s.args[0] in ats for s in subterms(a.idx[1])):
        continue
      written.setdefault(key, []).append(a)
    if len(written) < 3:
      continue

    def dd(a):
      """data-dependent literals of the path, capacity tests (`row < njmax`) and factory flags aside"""
      out = set()
      for l in a.pc:
        subs = [s for t, _ in pc_literals((l,)) for s in subterms(t)]
        if any(s.op == "cv" for s in subs) or any(s.op == "p" and "njmax" in str(s.args[0]) for s in subs):
          continue
        if any(s.op in ("ld", "at", "p", "lv", "carried") for s in subs):
          out.add(l)
      return out

    for k in ROW_RECORD:
      n += 1
      res.ob(
        k in written,
        f"{lc.name}|{k}|row-field-written",
        Finding(
          "R-LIVE.5",
          f"{lc.name}|{k}|row-field-not-written",
          f"{lc.name} allocates constraint rows and writes {len(written)} of the {len(ROW_RECORD)} scalar row fields but never {k}: the row keeps the {k.split('.')[-1]} of its previous occupant",
          lc.ev.loc,
        ),
      )
    base = {k: set.intersection(*[dd(a) for a in ws]) for k, ws in written.items()}
    anchor = set.intersection(*base.values())
    for k, b in sorted(base.items()):
      extra = b - anchor
      n += 1
      res.ob(
        not extra,
        f"{lc.name}|{k}|row-unconditional",
        Finding(
          "R-LIVE.5",
          f"{lc.name}|{k}|row-field-conditionally-written",
          f"{lc.name} writes {k} for a freshly allocated constraint row only under [{'; '.join(show(l)[:70] for l in sorted(extra, key=show))}] while other fields of the same row are written without that condition: on the other rows the field keeps the value of the row's previous occupant",
          written[k][0].loc,
        ),
        sample={"kernel": lc.name, "field": k} if n % 40 == 1 else None,
      )
  return n
