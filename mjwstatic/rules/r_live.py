"""R-LIVE - initialise-before-use over host effect traces (C12, C37, C13).

LiveIn(entry): array keys read by some event of the trace with no earlier event that may define them
on a compatible path (a may-define counts as a kill, so the set under-reports; every member is a
definite read of a value that this call did not produce). Accumulators (atomic / in-place updates)
count as reads of their previous value.
"""

from __future__ import annotations

from typing import Dict, List, Tuple

from .. import effects
from ..db import DB
from ..hostir import HostInterp
from ..tables.config_tables import infeasible


def live_in(db: DB, hi: HostInterp) -> Tuple[Dict[str, dict], Dict[str, List[str]], int]:
  effs = effects.trace_effects(db, hi)
  defs: Dict[str, List[tuple]] = {}
  live: Dict[str, dict] = {}
  writers: Dict[str, List[str]] = {}
  for e in effs:
    if infeasible(e.ev.pc):
      continue  # path requires a configuration that put_model rejects
    for k, loc in e.reads.items():
      if e.writes.get(k) == "w":
        continue  # the same kernel (re)writes the field: intra-kernel order is not tracked (may-define)
      if not effects.may_covered(defs.get(k, []), e.ev.pc):
        if k not in live:
          live[k] = {"event": e.ev.name or e.ev.kind, "loc": loc, "pc": e.ev.pc, "stack": e.ev.stack, "rmw": e.writes.get(k) == "rmw"}
    for k, kind in e.writes.items():
      defs.setdefault(k, []).append(e.ev.pc)
      writers.setdefault(k, []).append(e.ev.name or e.ev.kind)
  return live, writers, len(effs)


def write_set(db: DB, hi: HostInterp) -> Dict[str, List[str]]:
  effs = effects.trace_effects(db, hi)
  out: Dict[str, List[str]] = {}
  for e in effs:
    for k in e.writes:
      out.setdefault(k, []).append(f"{e.ev.name or e.ev.kind}@{e.ev.loc}")
  return out
