"""R-RECORD - parallel per-slot arrays are permuted together.

A kernel that allocates a slot from an atomic counter and writes several arrays at that slot creates a *record* spread
over parallel arrays (`matchid[w, s, slot]`, `criteria[w, s, slot]`, `direction[w, s, slot]`). A later sort that
permutes only some of them (`wp.tile_sort(keys, values)` + `tile_store` of the values) breaks the record for every
consumer that still reads a permuted array and an unpermuted array of the same record at the same position.
"""

from __future__ import annotations

import ast
from typing import Dict, List

from ..db import DB, LaunchCtx
from ..kir import dotted
from ..report import Finding
from ..terms import T, show, subterms
from .world import array_key

SORT_CALLS = ("wp.tile_sort",)


def _records(lc) -> List[frozenset]:
  by_uid: Dict[str, Dict[str, tuple]] = {}
  for a in lc.keval.accesses:
    if a.is_write and not a.is_atomic and a.idx:
      for ix in a.idx:
        if isinstance(ix, T):
          for s in subterms(ix):
            if s.op == "at":
              by_uid.setdefault(s.args[0], {})[array_key(lc, a.root)] = tuple(a.idx)
  out = []
  for uid, arrs in by_uid.items():
    # same index tuple => same record
    groups: Dict[tuple, set] = {}
    for k, idx in arrs.items():
      groups.setdefault(idx, set()).add(k)
    for g in groups.values():
      if len(g) >= 2:
        out.append(frozenset(g))
  return out


def _is_sorter(lc) -> bool:
  return any(isinstance(n, ast.Call) and dotted(n.func) in SORT_CALLS for n in ast.walk(lc.fi.node))


def check_records(res, db: DB, entries) -> int:
  n = 0
  seen = set()
  for entry in entries:
    hi = db.trace(entry)
    records: List[frozenset] = []
    broken = []  # (record, permuted subset, unpermuted subset, sorter name, loc)
    for ev in hi.events:
      if ev.kind != "launch" or ev.kernel is None or not ev.arity_ok:
        continue
      lc = LaunchCtx(db, ev)
      for r in _records(lc):
        if r not in records:
          records.append(r)
      if _is_sorter(lc):
        touched = {array_key(lc, a.root) for a in lc.keval.accesses if a.kind in ("tile_r", "tile_w")}
        stored = {array_key(lc, a.root) for a in lc.keval.accesses if a.kind == "tile_w"}
        for r in records:
          if touched & r:
            n += 1
            key = f"{lc.name}|{'+'.join(sorted(r))[:80]}"
            if key in seen:
              continue
            seen.add(key)
            rest = r - touched
            if rest and stored & r:
              broken.append((r, stored & r, rest, lc.name, ev.loc))
            else:
              res.ob(True, key)
        continue
      # consumer: reads a permuted and an unpermuted array of a broken record at the same position
      for r, perm, rest, sorter, sloc in broken:
        reads: Dict[str, set] = {}
        for a in lc.keval.accesses:
          if not a.is_write and a.idx:
            k = array_key(lc, a.root)
            if k in perm or k in rest:
              reads.setdefault(k, set()).add(tuple(a.idx))
        for p in perm:
          for q in rest:
            common = reads.get(p, set()) & reads.get(q, set())
            if common:
              key = f"{lc.name}|{p}|{q}"
              if key in seen:
                continue
              seen.add(key)
              n += 1
              res.ob(
                False,
                key,
                Finding(
                  "R-RECORD.1",
                  f"{sorter}|{q}|not-permuted-with|{p}",
                  f"{sorter} sorts {sorted(perm)} but not {sorted(rest)}, although one kernel writes them together per atomically allocated slot (one record per slot); {lc.name} then reads `{p.split(':')[-1]}` and `{q.split(':')[-1]}` at the same position [{', '.join(show(i)[:25] for i in next(iter(common)))}]: after the sort the entries belong to different records",
                  sloc,
                ),
              )
  return n
