"""R-FLAGS - what each disable/enable flag switches off (C32).

neutralised(flag, field): on the effect traces of step()/forward(), under the assumption that the flag is set
(DisableBit) or clear (EnableBit) and nothing else is known, every write to the field is either unreachable
(its host- or kernel-level path condition evaluates to False in three-valued logic) or stores a constant zero.
"""

from __future__ import annotations

import ast
import re
from typing import Dict, List, Optional, Set, Tuple

from .. import effects
from ..db import DB
from ..rules.world import array_key
from ..terms import T, lit_parts

U = None  # unknown


def _and3(vals):
  if any(v is False for v in vals):
    return False
  if all(v is True for v in vals):
    return True
  return U


def _or3(vals):
  if any(v is True for v in vals):
    return True
  if all(v is False for v in vals):
    return False
  return U


def _not3(v):
  return U if v is U else (not v)


class FlagEnv:
  """Three-valued evaluation of flag tests under an assignment {member: bool} of one flag enum; bits of the flag word
  that are not assigned are unknown. Bitwise expressions are evaluated per bit (0 / 1 / unknown) over the enum's members
  plus one pseudo-bit standing for every other bit position, so `~(flags | ~(A | B))` and `flags & (A | B)` are exact."""

  def __init__(self, flag: str, value: bool, more: Optional[Dict[str, bool]] = None):
    self.cls, self.member = flag.split(".")
    self.value = value
    self.assign: Dict[str, bool] = {self.member: value}
    for k, v in (more or {}).items():
      c, m = k.split(".")
      if c == self.cls:
        self.assign[m] = v
    self._host_cache: Dict[str, Optional[bool]] = {}
    self.atoms: Dict[str, bool] = {}  # canonical source text of a host sub-expression -> assumed truth value
    self.enum_assign: Dict[str, Tuple[str, str]] = {}  # option attribute -> (enum class, member), e.g. integrator -> (IntegratorType, IMPLICIT)
    self.lc = None  # launch context used to resolve scalar kernel parameters to their host binding

  # ---- host atoms (canonical python-like text)
  def unknown_atoms(self, text: str):
    """sub-expressions (operands of and/or/not, or the whole test) that stay unknown and mention no flag word"""
    out = []
    try:
      node = ast.parse(text, mode="eval").body
    except SyntaxError:
      return out
    stack = [node]
    while stack:
      n = stack.pop()
      if isinstance(n, ast.BoolOp):
        stack += n.values
      elif isinstance(n, ast.UnaryOp) and isinstance(n.op, ast.Not):
        stack.append(n.operand)
      src = ast.unparse(n)
      if "disableflags" in src or "enableflags" in src:
        continue
      if self._h(n) is U:
        out.append(src)
    return out

  def host(self, text: str) -> Optional[bool]:
    if text not in self._host_cache:
      try:
        node = ast.parse(text, mode="eval").body
        self._host_cache[text] = self._h(node)
      except SyntaxError:
        self._host_cache[text] = U
    return self._host_cache[text]

  # bit vectors: dict member -> 0 | 1 | None, key "*" = every other bit position
  def _bits(self, n):
    if isinstance(n, ast.Attribute) and isinstance(n.value, ast.Name) and n.value.id == self.cls:
      return {n.attr: 1}
    if isinstance(n, ast.Attribute) and n.attr == ("disableflags" if self.cls == "DisableBit" else "enableflags"):
      b = {"*": U, "?": U}  # "?" = default for unassigned members
      b.update({m: int(v) for m, v in self.assign.items()})
      return b
    if isinstance(n, ast.Constant) and n.value == 0:
      return {}
    if isinstance(n, ast.UnaryOp) and isinstance(n.op, ast.Invert):
      a = self._bits(n.operand)
      if a is None:
        return None
      out = {k: (U if v is U else 1 - v) for k, v in a.items()}
      out.setdefault("*", 1)
      out.setdefault("?", 1)
      return out
    if isinstance(n, ast.Call) and isinstance(n.func, ast.Name) and n.func.id == "int" and len(n.args) == 1:
      return self._bits(n.args[0])
    if isinstance(n, ast.BinOp) and isinstance(n.op, (ast.BitAnd, ast.BitOr)):
      a, b = self._bits(n.left), self._bits(n.right)
      if a is None or b is None:
        return None
      out = {}
      for k in set(a) | set(b) | {"*", "?"}:
        x = a.get(k, a.get("?", 0) if k != "*" else 0)
        y = b.get(k, b.get("?", 0) if k != "*" else 0)
        if isinstance(n.op, ast.BitAnd):
          out[k] = 0 if (x == 0 or y == 0) else (1 if (x == 1 and y == 1) else U)
        else:
          out[k] = 1 if (x == 1 or y == 1) else (0 if (x == 0 and y == 0) else U)
      return out
    return None

  @staticmethod
  def _truthy(bits) -> Optional[bool]:
    if bits is None:
      return U
    if any(v == 1 for v in bits.values()):
      return True
    if all(v == 0 for v in bits.values()):
      return False
    return U

  def _h(self, n) -> Optional[bool]:
    if self.atoms:
      v = self.atoms.get(ast.unparse(n))
      if v is not None:
        return v
    if isinstance(n, ast.BoolOp):
      vals = [self._h(v) for v in n.values]
      return _and3(vals) if isinstance(n.op, ast.And) else _or3(vals)
    if isinstance(n, ast.UnaryOp) and isinstance(n.op, ast.Not):
      return _not3(self._h(n.operand))
    if (isinstance(n, ast.BinOp) and isinstance(n.op, (ast.BitAnd, ast.BitOr))) or (isinstance(n, ast.UnaryOp) and isinstance(n.op, ast.Invert)):
      return self._truthy(self._bits(n))
    if isinstance(n, ast.Compare) and len(n.ops) == 1 and isinstance(n.ops[0], (ast.Eq, ast.NotEq)) and isinstance(n.comparators[0], ast.Constant) and n.comparators[0].value == 0:
      v = self._h(n.left)
      if v is U:
        return U
      return (not v) if isinstance(n.ops[0], ast.Eq) else v
    if isinstance(n, ast.Compare) and len(n.ops) == 1 and isinstance(n.ops[0], (ast.Eq, ast.NotEq)):
      # equality of two flag words, bit by bit: `(flags & MASK) != MASK`
      a, b = self._bits(n.left), self._bits(n.comparators[0])
      if a is not None and b is not None:
        eq: Optional[bool] = True
        for k in set(a) | set(b) | {"*", "?"}:
          x = a.get(k, a.get("?", 0) if k != "*" else 0)
          y = b.get(k, b.get("?", 0) if k != "*" else 0)
          if x is U or y is U:
            eq = U if eq is not False else False
          elif x != y:
            eq = False
        if eq is U:
          return U
        return eq if isinstance(n.ops[0], ast.Eq) else (not eq)
    if isinstance(n, ast.Call) and isinstance(n.func, ast.Name) and n.func.id == "bool" and len(n.args) == 1:
      return self._h(n.args[0])
    if isinstance(n, ast.Constant) and isinstance(n.value, bool):
      return n.value
    if isinstance(n, ast.Compare) and len(n.ops) == 1 and isinstance(n.left, ast.Attribute) and n.left.attr in self.enum_assign:
      cls, member = self.enum_assign[n.left.attr]
      op, rhs = n.ops[0], n.comparators[0]

      def mem(x):
        if isinstance(x, ast.Attribute) and isinstance(x.value, ast.Name) and x.value.id == cls:
          return x.attr
        return None

      if isinstance(op, (ast.Eq, ast.NotEq, ast.Is, ast.IsNot)) and mem(rhs) is not None:
        eq = mem(rhs) == member
        return eq if isinstance(op, (ast.Eq, ast.Is)) else (not eq)
      if isinstance(op, (ast.In, ast.NotIn)) and isinstance(rhs, (ast.List, ast.Tuple, ast.Set)) and all(mem(e) is not None for e in rhs.elts):
        isin = member in [mem(e) for e in rhs.elts]
        return isin if isinstance(op, ast.In) else (not isin)
    return U

  # ---- kernel terms
  def term(self, t) -> Optional[bool]:
    if not isinstance(t, T):
      return U
    o = t.op
    if o == "c":
      return bool(t.args[0]) if isinstance(t.args[0], (bool, int)) else U
    if o == "p" and self.lc is not None:
      txt = self.lc.scalar_binding_text(t.args[0])
      return self.host(txt) if txt else U
    if o == "cv":
      txt = str(t.args[0])
      return self.host(txt.split("=", 1)[1]) if "=" in txt else U
    if o == "not":
      return _not3(self.term(t.args[0]))
    if o == "and":
      return _and3([self.term(a) for a in t.args])
    if o == "or":
      return _or3([self.term(a) for a in t.args])
    if o == "bin" and t.args[0] == "&":
      for a, b in ((t.args[1], t.args[2]), (t.args[2], t.args[1])):
        if isinstance(b, T) and b.op == "enum" and b.args[0] == self.cls and b.args[1] in self.assign and isinstance(a, T) and a.op in ("p", "cv", "ld"):
          return self.assign[b.args[1]]
      return U
    if o == "cmp" and t.args[0] in ("==", "!=") and isinstance(t.args[2], T) and t.args[2].op == "c" and t.args[2].args[0] == 0:
      v = self.term(t.args[1])
      if v is U:
        return U
      return (not v) if t.args[0] == "==" else v
    if o == "call" and t.args[0] in ("bool", "int") and len(t.args) == 2:
      return self.term(t.args[1])
    return U

  def pc_kernel(self, pc) -> Optional[bool]:
    vals = []
    for l in pc:
      t, pol = lit_parts(l)
      if t.op == "all":
        v = _and3([self._lit(x) for x in t.args])
      else:
        v = self.term(t)
      vals.append(v if pol else _not3(v))
    return _and3(vals) if vals else True

  def _lit(self, l):
    t, pol = lit_parts(l)
    v = self.term(t)
    return v if pol else _not3(v)

  def pc_host(self, pc) -> Optional[bool]:
    vals = []
    for text, pol in pc:
      v = self.host(text)
      vals.append(v if pol else _not3(v))
    return _and3(vals) if vals else True


def _zero(v) -> bool:
  if not isinstance(v, T):
    return False
  if v.op == "c":
    return v.args[0] in (0, 0.0, False)
  if v.op == "call" and len(v.args) > 1 and all(isinstance(x, T) and _zero(x) for x in v.args[1:]):
    return True
  return False


def live_writes(db: DB, entries, flag: str, value: bool, fields: Set[str], atoms: Optional[Dict[str, bool]] = None) -> Dict[str, List[str]]:
  """field -> witnesses of writes that may execute with a non-zero value although the flag is set that way."""
  env = FlagEnv(flag, value)
  if atoms:
    env.atoms.update(atoms)
  out: Dict[str, List[str]] = {f: [] for f in fields}
  total: Dict[str, int] = {f: 0 for f in fields}
  for entry in entries:
    hi = db.trace(entry)
    for e in effects.trace_effects(db, hi):
      keys = set(e.writes) & fields
      if not keys:
        continue
      if env.pc_host(e.ev.pc) is False:
        for k in keys:
          total[k] += 1
        continue
      if e.lc is None:
        for k in keys:
          total[k] += 1
          if e.ev.kind == "fill" and (e.ev.value is None or getattr(e.ev.value, "v", 1) in (0, 0.0)):
            continue
          out[k].append(f"{e.ev.kind}@{e.ev.loc}")
        continue
      lc = e.lc
      env.lc = lc
      for a in lc.keval.accesses:
        if not a.is_write:
          continue
        k = array_key(lc, a.root)
        if k not in keys:
          continue
        total[k] += 1
        if env.pc_kernel(a.pc) is False:
          continue
        if a.kind == "w" and _zero(a.value):
          continue
        out[k].append(f"{lc.name}@{a.loc}")
  return out, total


def check_sibling_gating(res, db: DB, entries, pairs, members, rule="R-FLAGS.3", why=None) -> int:
  """R-FLAGS.3: for each (derivative kernel, force kernel) pair and every assignment of `members` (DisableBit names),
  if every launch of the force kernel is unreachable under the assignment, every launch of its velocity-derivative
  sibling must be unreachable too (the implicit integrators must not add the derivative of a force that is off)."""
  import itertools

  from ..report import Finding

  launches: Dict[str, List[tuple]] = {}
  for entry in entries:
    hi = db.trace(entry)
    for ev in hi.events:
      if ev.kind == "launch" and ev.kernel is not None:
        launches.setdefault(ev.kernel.fi.key.split(".kernel")[0], []).append((ev.pc, ev.loc))
  n = 0
  for dk, fk in pairs:
    if dk not in launches or fk not in launches:
      res.error(f"anchor vanished: no launch of {dk if dk not in launches else fk} in {entries}")
      continue
    for vals in itertools.product([False, True], repeat=len(members)):
      asg = {f"DisableBit.{m}": v for m, v in zip(members, vals)}
      first = next(iter(asg))
      env = FlagEnv(first, asg[first], asg)
      f_dead = all(env.pc_host(pc) is False for pc, _ in launches[fk])
      if not f_dead:
        continue
      n += 1
      live = [loc for pc, loc in launches[dk] if env.pc_host(pc) is not False]
      setbits = "+".join(m for m, v in zip(members, vals) if v) or "none"
      res.ob(
        not live,
        f"{dk}|{fk}|{setbits}",
        Finding(
          rule,
          f"{dk}|{fk}|{setbits}",
          (why or "with {setbits} disabled no launch of {fk} is reachable, but its velocity derivative {dk} is still launched: the implicit integrators add the derivative of a force that is switched off").format(setbits=setbits, fk=fk, dk=dk),
          live[0] if live else "",
        ),
        sample={"derivative": dk, "force": fk, "disabled": setbits},
      )
  return n


def check_derivative_completeness(res, db: DB, force_entries, deriv_entry: str, needed, members, integrators) -> int:
  """R-FLAGS.4 (converse of R-FLAGS.3): for each (derivative kernel, force kernel, flags that must be clear) and every
  assignment of `members` under which some launch of the velocity-dependent force kernel is reachable, the launches of
  its velocity-derivative sibling on the implicit integrators' path must not all be unreachable - for each implicit
  integrator separately. Otherwise a flag combination silently removes the implicit treatment of a force that is on."""
  import itertools

  from ..report import Finding

  f_launch: Dict[str, List[tuple]] = {}
  for entry in force_entries:
    for ev in db.trace(entry).events:
      if ev.kind == "launch" and ev.kernel is not None:
        f_launch.setdefault(ev.kernel.fi.key.split(".kernel")[0], []).append((ev.pc, ev.loc))
  d_launch: Dict[str, List[tuple]] = {}
  for ev in db.trace(deriv_entry).events:
    if ev.kind == "launch" and ev.kernel is not None:
      d_launch.setdefault(ev.kernel.fi.key.split(".kernel")[0], []).append((ev.pc, ev.loc))
  n = 0
  for dk, fk, must_clear in needed:
    if dk not in d_launch or fk not in f_launch:
      res.error(f"anchor vanished: no launch of {dk if dk not in d_launch else fk} reachable from {deriv_entry if dk not in d_launch else force_entries}")
      continue
    for vals in itertools.product([False, True], repeat=len(members)):
      asg = {f"DisableBit.{m}": v for m, v in zip(members, vals)}
      if any(asg[f"DisableBit.{m}"] for m in must_clear):
        continue
      first = next(iter(asg))
      env = FlagEnv(first, asg[first], asg)
      if all(env.pc_host(pc) is False for pc, _ in f_launch[fk]):
        continue
      setbits = "+".join(m for m, v in zip(members, vals) if v) or "none"
      for integ in integrators:
        env2 = FlagEnv(first, asg[first], asg)
        env2.enum_assign = {"integrator": ("IntegratorType", integ)}
        n += 1
        dead = all(env2.pc_host(pc) is False for pc, _ in d_launch[dk])
        res.ob(
          not dead,
          f"{dk}|{fk}|{setbits}|{integ}|needed",
          Finding(
            "R-FLAGS.4",
            f"{dk}|{fk}|{setbits}|{integ}",
            f"with {setbits} disabled {fk} is still launched (its force is on), but under integrator {integ} every launch of its velocity derivative {dk} in {deriv_entry}() is unreachable: the flag combination removes the implicit treatment of a force it does not disable",
            d_launch[dk][0][1],
          ),
          sample={"derivative": dk, "force": fk, "disabled": setbits, "integrator": integ},
        )
  return n


def check_module_flags(res, sm, table, modules=None) -> int:
  """R-FLAGS.6: no stage module consults an option flag that it does not consult on the confirmed tree (tables/
  flag_tables.MODULE_FLAGS). MuJoCo's flags are scoped to stages; a stage that starts looking at another stage's flag
  gives that flag a new effect (gravity compensation that reappears in qfrc_passive when ACTUATION is disabled, an
  inverse-dynamics correction that is dropped when SPRING is disabled). Removals are R-DISPATCH's subject."""
  from ..report import Finding

  n = 0
  consults = {}
  for mod in sm.modules.values():
    if mod.name.endswith("_test") or mod.name in ("types", "cli", "__pkg__"):
      continue
    seen = {}
    for node in ast.walk(mod.tree):
      if isinstance(node, ast.Attribute):
        v = node.value
        cls = v.id if isinstance(v, ast.Name) else (v.attr if isinstance(v, ast.Attribute) else None)
        if cls in ("DisableBit", "EnableBit"):
          seen.setdefault(f"{cls}.{node.attr}", node.lineno)
    consults[mod.name] = seen
  def only_clears_own(mod, flag):
    """every `if` whose test mentions the flag guards nothing but zero-fills of the flag's own contribution
    (tables/flag_tables.FLAG_OFF): a stage that merely clears a disabled stage's output gives the flag no new effect"""
    from ..tables import flag_tables as ft

    own = {f.split(".", 1)[1] for f in ft.FLAG_OFF.get(flag, [])}
    cls, mem = flag.split(".")
    hits = 0
    for n in ast.walk(mod.tree):
      if not isinstance(n, ast.If):
        continue
      if not any(isinstance(x, ast.Attribute) and x.attr == mem and ((isinstance(x.value, ast.Name) and x.value.id == cls) or (isinstance(x.value, ast.Attribute) and x.value.attr == cls)) for x in ast.walk(n.test)):
        continue
      hits += 1
      if n.orelse:
        return False
      for st in n.body:
        c = st.value if isinstance(st, ast.Expr) and isinstance(st.value, ast.Call) else None
        f = c.func if c is not None else None
        ok = isinstance(f, ast.Attribute) and (f.attr == "zero_" or (f.attr == "fill_" and len(c.args) == 1 and isinstance(c.args[0], ast.Constant) and c.args[0].value in (0, 0.0))) and isinstance(f.value, ast.Attribute) and f.value.attr in own
        if not ok:
          return False
    # the flag must not be referenced outside those tests
    refs = sum(1 for x in ast.walk(mod.tree) if isinstance(x, ast.Attribute) and x.attr == mem and ((isinstance(x.value, ast.Name) and x.value.id == cls) or (isinstance(x.value, ast.Attribute) and x.value.attr == cls)))
    return hits > 0 and refs == hits

  # a test that MOVED with its code (some module of the table no longer consults the flag at all) is not a new consultation
  moved = {f for m_, fl in table.items() for f in fl if f not in consults.get(m_, {})}
  for mod in sm.modules.values():
    if mod.name not in consults or (modules is not None and mod.name not in modules):
      continue
    allowed = set(table.get(mod.name, ())) | moved
    seen = consults[mod.name]
    for flag, ln in sorted(seen.items()):
      n += 1
      res.ob(
        flag in allowed or only_clears_own(mod, flag),
        f"{mod.name}|consults|{flag}",
        Finding("R-FLAGS.6", f"{mod.name}|{flag}|new-flag-consulted", f"{mod.name}.py now tests {flag}, which this stage does not consult on the confirmed tree (it consults {sorted(allowed) or 'no flags'}): the flag acquires an effect on this stage's outputs that MuJoCo's flag does not have", f"{mod.path}:{ln}"),
      )
  return n


def _live_components(db: DB, entries, flag: str, fields, atoms):
  """like live_writes, per component of vector-valued fields (`energy[w][0]` and `energy[w][1]` are separate results):
  {field or field[c]: witnesses of reachable non-zero writes}, {same: writes examined}"""
  from .r_order import ALL, _vec_components

  env = FlagEnv(flag, True)
  env.atoms.update(atoms)
  comps: Dict[str, Set] = {f: set() for f in fields}
  events = []
  for entry in entries:
    for e in effects.trace_effects(db, db.trace(entry)):
      keys = set(e.writes) & set(fields)
      if not keys or e.lc is None:
        continue
      for a in e.lc.keval.accesses:
        if not a.is_write:
          continue
        k = array_key(e.lc, a.root)
        if k not in keys or (a.kind == "w" and _zero(a.value)):
          continue
        if a.is_atomic or getattr(a, "aug", False):
          cs = _vec_components(a.value)
        elif getattr(a, "component", False) and len(getattr(a, "comp_idx", ())) == 1 and isinstance(a.comp_idx[0], T) and a.comp_idx[0].op == "c":
          cs = {a.comp_idx[0].args[0]}
        else:
          cs = {ALL}
        comps[k] |= cs
        events.append((k, cs, e, a))
  out, total = {}, {}
  for f in fields:
    parts = sorted(c for c in comps[f] if c != ALL) if comps[f] and ALL not in comps[f] else [ALL]
    for c in parts:
      name = f if c == ALL else f"{f}[{c}]"
      out[name], total[name] = [], 0
      for k, cs, e, a in events:
        if k != f or not (c in cs or ALL in cs or c == ALL):
          continue
        total[name] += 1
        env.lc = e.lc
        if env.pc_host(e.ev.pc) is False or env.pc_kernel(a.pc) is False:
          continue
        out[name].append(f"{e.lc.name}@{a.loc}")
  return out, total


def check_keeps_cases(res, db: DB, entries, flag: str, fields, assume_enabled=()) -> int:
  """R-FLAGS.2b: FLAG_KEEPS with a case split over model-determined host conditions. With only `flag` set (and the enable
  flags of `assume_enabled` on), for every model atom X that the host paths to the writers of the field test (`if
  m.sensor_e_potential:` / `== 0`) and for both truth values of X, some non-zero write of the field must stay reachable.
  A stage that is skipped under the flag while another stage assumes "the skipped one computed it" (decided by a MODEL
  property rather than by what actually ran) leaves the field undefined for exactly one value of X."""
  from ..report import Finding

  fields = set(fields)
  # discover the enable tests' canonical texts and the model atoms on the writers' host paths
  base_env = FlagEnv(flag, True)
  enable_atoms: Dict[str, bool] = {}
  model_atoms: Set[str] = set()
  for entry in entries:
    for e in effects.trace_effects(db, db.trace(entry)):
      if not (set(e.writes) & fields):
        continue
      for text, _ in e.ev.pc:
        for en in assume_enabled:
          if en in text and "disableflags" not in text:
            enable_atoms[text.strip("()") if False else text] = True
        for a in base_env.unknown_atoms(text):
          a0 = a.strip()
          while a0.startswith("(") and a0.endswith(")"):
            a0 = a0[1:-1].strip()
          for suf in (" == 0", " != 0"):
            if a0.endswith(suf):
              a0 = a0[: -len(suf)].strip()
          if a0.startswith("m.") and "flags" not in a0 and "(" not in a0:
            model_atoms.add(a0)
  n = 0
  for x in sorted(model_atoms):
    for v in (False, True):
      atoms = dict(enable_atoms)
      for form, val in ((x, v), (f"{x} == 0", not v), (f"({x} == 0)", not v), (f"{x} != 0", v), (f"({x} != 0)", v), (f"not {x}", not v)):
        atoms[form] = val
      wit, total = _live_components(db, entries, flag, fields, atoms)
      for f in sorted(wit):
        n += 1
        res.ob(
          bool(wit[f]),
          f"{flag}|keeps|{f}|{x}={v}",
          Finding(
            "R-FLAGS.2",
            f"{flag}|{f}|not-computed-when|{x}={'set' if v else 'zero'}",
            f"with {flag} set ({', '.join(assume_enabled)} on) and {x} {'non-zero' if v else 'zero'}, no write of {f} can execute with a non-zero value ({total[f]} writes examined): the stage that the host code assumes computes it for such models is itself switched off by the flag, so {f} keeps its previous value",
            "",
          ),
          sample={"flag": flag, "field": f, "model_atom": x, "value": v, "live_writes": len(wit[f])},
        )
  return n
