"""R-REF - reference ("*0") fields are decoded against the cell they were encoded against.

set_const stores several Model reference fields as an *offset* of a Data quantity from a base cell
(`cam_poscom0 = cam_xpos - subtree_com[base]`), and the step kernels decode them by adding the offset back to a base
cell (`cam_xpos = subtree_com[base'] + cam_poscom0`). The round trip is the identity at the reference configuration only
if base' is one of the cells the encoder used: a writer/reader layout agreement.

R-REF.1  for every (reference field F0, base Data field B) that an encoder in set_const.py stores as `X - B[idx]`, every
         decoder store whose value contains `B[idx'] +/- F0[...]` has idx' (element part, world index dropped) among the
         encoder's idx alternatives.  Index terms are canonicalised (array roots -> schema field paths), so renaming
         parameters or locals is silent; changing encoder and decoder together is silent.
R-REF.2  whenever a Data field X and a Model reference field X0 *of the same element space* (equal trailing schema
         dimensions) are combined by + or - in a stored value, their element indices are identical
         (`qpos[adr] - qpos0[adr]`, `ten_length[t] - tendon_length0[t]`, `flexedge_length[e] - flexedge_length0[e]`).
"""

from __future__ import annotations

from typing import Dict, List, Set, Tuple

from ..report import Finding
from ..terms import T, alternatives, show, subterms


def _canon(lc, t, memo):
  """Rewrite array roots of `ld` terms to schema field paths (or keep the parameter name)."""
  if not isinstance(t, T):
    return t
  r = memo.get(t)
  if r is not None:
    return r
  if t.op == "ld":
    f = lc.field(t.args[0])
    root = f"{f.owner}.{f.path}" if f is not None else t.args[0]
    r = T("ld", root, *[_canon(lc, a, memo) for a in t.args[1:]])
  elif t.op in ("c", "tid", "p", "cv", "enum", "unk", "lv", "carried", "at", "shape"):
    r = t
  else:
    r = T(t.op, *[_canon(lc, a, memo) if isinstance(a, T) else a for a in t.args])
  memo[t] = r
  return r


def _elem_alts(lc, idx_terms, memo) -> Set[tuple]:
  """Alternatives of an element index tuple (phi unfolded per component, bounded)."""
  outs = [()]
  for i in idx_terms:
    alts = [_canon(lc, a, memo) for a in alternatives(i)][:6]
    outs = [o + (a,) for o in outs for a in alts][:36]
  return set(outs)


def collect(lcs):
  enc: Dict[Tuple[str, str], Set[tuple]] = {}
  enc_loc: Dict[Tuple[str, str], str] = {}
  dec: List[tuple] = []
  paired: List[tuple] = []
  for lc in lcs:
    memo = {}
    # cheap pre-filter: only kernels that take a Model reference field (`*0`) or live in set_const can match
    if lc.fi.module != "set_const":
      refroots = set()
      for p in lc.keval.params:
        if p.kind == "array":
          f = lc.field(p.name)
          if f is not None and f.owner == "Model" and f.path.endswith("0") and f.ndim >= 2:
            refroots.add(p.name)
      if not refroots:
        continue
    for a in lc.keval.accesses:
      if a.kind != "w" or a.value is None:
        continue
      tf = lc.field(a.root)
      for s in subterms(a.value):
        if s.op != "bin" or s.args[0] not in ("+", "-"):
          continue
        for x in alternatives(s.args[1]):
          for y in alternatives(s.args[2]):
            if not (isinstance(x, T) and isinstance(y, T) and x.op == "ld" and y.op == "ld"):
              continue
            fx, fy = lc.field(x.args[0]), lc.field(y.args[0])
            if fx is None or fy is None or not fx.is_array or not fy.is_array:
              continue
            # encoder: Model reference field <- Data - Data[base]
            if tf is not None and tf.owner == "Model" and lc.fi.module == "set_const" and s.args[0] == "-" and fx.owner == "Data" and fy.owner == "Data" and fy.ndim >= 2:
              k = (tf.path, fy.path)
              enc.setdefault(k, set()).update(_elem_alts(lc, y.args[2:], memo))
              enc_loc.setdefault(k, a.loc)
            for mf, df, mt, dt in ((fx, fy, x, y), (fy, fx, y, x)):
              if mf.owner == "Model" and df.owner == "Data" and mf.path.endswith("0") and df.ndim >= 2 and mf.ndim >= 2:
                if lc.fi.module != "set_const":
                  dec.append((lc, a, mf, df, _elem_alts(lc, dt.args[2:], memo)))
                if tuple(mf.dims[1:]) == tuple(df.dims[1:]) and len(mt.args) == len(dt.args):
                  paired.append((lc, a, mf, df, _elem_alts(lc, mt.args[2:], memo), _elem_alts(lc, dt.args[2:], memo)))
  return enc, enc_loc, dec, paired


def check_reference_fields(res, lcs) -> Tuple[int, int]:
  enc, enc_loc, dec, paired = collect(lcs)
  n1 = 0
  seen = set()
  for lc, a, mf, df, alts in dec:
    k = (mf.path, df.path)
    if k not in enc:
      continue
    for alt in alts:
      key = f"{lc.name}|{mf.path}|{df.path}|{','.join(show(i) for i in alt)}"
      if key in seen:
        continue
      seen.add(key)
      n1 += 1
      ok = alt in enc[k]
      res.ob(
        ok,
        key,
        Finding(
          "R-REF.1",
          f"{lc.name}|{mf.path}|{df.path}|decode-base",
          f"Model.{mf.path} is stored by set_const as an offset from Data.{df.path}[{' | '.join(sorted(','.join(show(i) for i in e) for e in enc[k]))}] ({enc_loc[k]}) but decoded here against Data.{df.path}[{','.join(show(i) for i in alt)}]: the reference offset is added to a different base cell than it was measured from",
          a.loc,
        ),
        sample={"reference_field": mf.path, "base_field": df.path, "decoder": lc.name, "base_index": [show(i) for i in alt]},
      )
  n2 = 0
  for lc, a, mf, df, malts, dalts in paired:
    key = f"{lc.name}|{mf.path}|{df.path}|paired|{a.loc.rsplit(':', 1)[0]}|{sorted(','.join(show(i) for i in e) for e in dalts)[:1]}"
    if key in seen:
      continue
    seen.add(key)
    n2 += 1
    ok = bool(malts & dalts)
    res.ob(
      ok,
      key,
      Finding(
        "R-REF.2",
        f"{lc.name}|{mf.path}|{df.path}|paired-index",
        f"Data.{df.path}[{' | '.join(sorted(','.join(show(i) for i in e) for e in dalts))}] is combined with its reference Model.{mf.path}[{' | '.join(sorted(','.join(show(i) for i in e) for e in malts))}]: the two fields share one element space but are read at different elements",
        a.loc,
      ),
    )
  res.extra["reference_fields"] = {"encoders": sorted(f"{k[0]} <- {k[1]}" for k in enc), "decode_sites": n1, "paired_sites": n2}
  return n1, n2


# ------------------------------------------------------------------------------------------------ R-FRAME.1
COM_BASED = ("Data.cdof", "Data.cdof_dot", "Data.cvel", "Data.cacc", "Data.cfrc_int", "Data.cfrc_ext", "Data.cinert")


def check_com_frame(res, lcs) -> int:
  """R-FRAME.1: the com-based spatial quantities (cdof, cdof_dot, cvel, cacc, cfrc_int, cfrc_ext, cinert) are expressed
  about the subtree centre of mass of the kinematic tree's ROOT body. A kernel that touches one of them and shifts it to
  or from a point therefore reads Data.subtree_com at `body_rootid[<body>]` - the cell the quantities were built against
  (smooth._cdof / _cinert / comvel). Reading subtree_com at a body id itself gives that body's own subtree centre, which
  coincides with the root's only for single-body trees (what the fixtures have). All index alternatives are examined."""
  from .world import array_key

  n = 0
  seen = set()
  for lc in lcs:
    if lc.name in seen:
      continue
    seen.add(lc.name)
    keys = {array_key(lc, a.root) for a in lc.keval.accesses}
    com = sorted(k for k in keys if k in COM_BASED)
    if not com:
      continue
    for a in lc.keval.accesses:
      if a.is_write or array_key(lc, a.root) != "Data.subtree_com" or len(a.idx) < 2:
        continue
      for x in alternatives(a.idx[1]):
        ok = isinstance(x, T) and x.op == "ld" and (lc.field(x.args[0]) is not None and lc.field(x.args[0]).path == "body_rootid")
        key = f"{lc.name}|subtree_com|{show(x)[:50]}"
        if key in seen:
          continue
        seen.add(key)
        n += 1
        res.ob(
          ok,
          key,
          Finding(
            "R-FRAME.1",
            f"{lc.name}|subtree_com|not-at-tree-root",
            f"{lc.name} works with the com-based {', '.join(k.split('.')[1] for k in com)} (expressed about subtree_com[body_rootid[body]]) but reads Data.subtree_com at `{show(x)[:80]}`, which is not a body_rootid[...] cell: the shift uses a different reference point than the one the quantity was built against",
            a.loc,
          ),
          sample={"kernel": lc.name, "com_based": com, "index": show(x)[:60]} if n % 12 == 1 else None,
        )
  return n
