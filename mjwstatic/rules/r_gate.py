"""R-GATE - must-guard checks on kernel IR."""

from __future__ import annotations

from ..db import LaunchCtx
from ..report import Finding, Result
from ..terms import T, pc_literals, show, subterms


def _mask_literal(lc: LaunchCtx, pc, mask_param: str):
  """Does the path condition contain `mask_param[<world id>]` as a positive literal?"""
  for t, pol in pc_literals(pc):
    if pol and t.op == "ld" and t.args[0] == mask_param:
      return t
  return None


def dominated_by_mask(res: Result, lc: LaunchCtx, mask_param: str, static_name: str = None, skip_roots=(), writes_only=False):
  """Every array access (other than reading the mask itself) is dominated by mask[worldid].

  The repo's idiom `if wp.static(mask is not None): if not mask_in[worldid]: return` makes the gate conditional on a
  compile-time test; with the static value unknown, accesses carry either the mask literal or the negated static literal.
  """
  n = 0
  for a in lc.keval.accesses:
    if a.root == mask_param or a.root in skip_roots:
      continue
    if writes_only and not a.is_write:
      continue  # reading another world's data changes nothing; only its effects (writes) must be gated
    n += 1
    m = _mask_literal(lc, a.pc, mask_param)
    ok = m is not None
    if not ok and static_name is not None:
      # gate not compiled in (mask absent): the literal is the negated static test
      for t, pol in pc_literals(a.pc):
        if t.op in ("cv", "not") and static_name in show(t):
          ok = True
        if t.op == "all":
          # NOT all(static, not mask[w])  == static -> mask[w]
          txt = show(t)
          if static_name in txt and mask_param in txt:
            ok = True
    if ok and m is not None:
      # the mask must be indexed by the same world as the gated access (first index)
      if a.idx and m.args[1] is not a.idx[0] and a.complete and lc.field(a.root) is not None and lc.field(a.root).first == "nworld":
        ok = False
    res.ob(
      ok,
      f"{lc.name}|{a.root}|gated",
      Finding("R-GATE.1", f"{lc.name}|{a.root}|ungated-{a.kind[0]}", f"`{a.root}` is {'written' if a.is_write else 'read'} outside the `{mask_param}[worldid]` gate", a.loc),
    )
  return n
