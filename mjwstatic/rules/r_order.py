"""R-SEQ.5 - stage functions that run in either order write disjoint cells.

Some stage functions are invoked from more than one place, and which place is taken depends on the model
(`sensor_pos` evaluates energy_vel early when an e_kinetic sensor exists, otherwise forward() calls it after
energy_pos). When the host traces contain one path on which function f's first write to a field precedes g's and
another path on which g's precedes f's, the two must commute on that field: neither may plainly overwrite a cell the
other one writes (a whole-array fill, or a store to the same component). Accumulations (atomics, `+=`) commute.
"""

from __future__ import annotations

from typing import Dict, List, Set, Tuple

from .. import effects
from ..report import Finding
from ..terms import T

ALL = "*"


def _vec_components(v) -> Set:
  """Components a vector-valued accumulation can change: `wp.vecN(a, 0.0, ...)` leaves the zero components alone."""
  if isinstance(v, T) and v.op == "call" and isinstance(v.args[0], str) and v.args[0].startswith(("wp.vec", "wp.spatial_vector")) and len(v.args) > 2:
    out = set()
    for i, x in enumerate(v.args[1:]):
      zero = isinstance(x, T) and x.op == "c" and x.args[0] in (0, 0.0)
      if not zero:
        out.add(i)
    return out
  return {ALL}


def footprint(e, k) -> Tuple[Set, Set]:
  """(components plainly overwritten, components touched at all) by effect e on host array k."""
  if e.ev.kind in ("fill", "copy", "alloc", "ext", "hostwrite"):
    return ({ALL}, {ALL}) if k in e.writes else (set(), set())
  plain, anyw = set(), set()
  if e.lc is None:
    return plain, anyw
  for a in e.lc.keval.accesses:
    if not a.is_write:
      continue
    hv = e.lc.binding.get(a.root.split(".")[0])
    if k not in (effects._keys(hv) if hv is not None else []):
      continue
    if a.is_atomic or getattr(a, "aug", False):
      anyw |= _vec_components(a.value)
      continue
    comp = {ALL}
    if getattr(a, "component", False):
      ci = getattr(a, "comp_idx", ())
      if len(ci) == 1 and isinstance(ci[0], T) and ci[0].op == "c":
        comp = {ci[0].args[0]}
    anyw |= comp
    if not getattr(a, "rmw", False):
      plain |= comp
  return plain, anyw


def _balanced(s: str) -> bool:
  d = 0
  for ch in s:
    d += ch == "("
    d -= ch == ")"
    if d < 0:
      return False
  return d == 0


def _norm(pc) -> tuple:
  """`(X == 0)`=p and `(X != 0)`=p are the truth value of X itself, so that `if X:` and `if X == 0:` contradict."""
  out = []
  for t, p in pc:
    s = t.strip()
    while len(s) > 1 and s[0] == "(" and s[-1] == ")" and _balanced(s[1:-1]):
      s = s[1:-1].strip()
    if s.endswith("== 0"):
      out.append((s[:-4].strip(), not p))
    elif s.endswith("!= 0"):
      out.append((s[:-4].strip(), p))
    else:
      out.append((s, p))
  return tuple(out)


def _eval3(text: str, asg: Dict[str, bool]):
  """three-valued truth of a host condition text under an assignment of its simple atoms (None = unknown)"""
  import ast

  try:
    node = ast.parse(text, mode="eval").body
  except SyntaxError:
    return None

  def ev(n):
    if isinstance(n, ast.BoolOp):
      vs = [ev(v) for v in n.values]
      if isinstance(n.op, ast.And):
        return False if any(v is False for v in vs) else (True if all(v is True for v in vs) else None)
      return True if any(v is True for v in vs) else (False if all(v is False for v in vs) else None)
    if isinstance(n, ast.UnaryOp) and isinstance(n.op, ast.Not):
      v = ev(n.operand)
      return None if v is None else not v
    if isinstance(n, ast.Compare) and len(n.ops) == 1 and isinstance(n.comparators[0], ast.Constant) and n.comparators[0].value == 0 and isinstance(n.ops[0], (ast.Eq, ast.NotEq)):
      v = ev(n.left)
      if v is None:
        return None
      return (not v) if isinstance(n.ops[0], ast.Eq) else v
    return asg.get(ast.unparse(n))

  return ev(node)


def _simple(pc) -> Dict[str, bool]:
  import ast

  out = {}
  for t, p in _norm(pc):
    try:
      n = ast.parse(t, mode="eval").body
    except SyntaxError:
      continue
    if not isinstance(n, ast.BoolOp):
      if isinstance(n, ast.UnaryOp) and isinstance(n.op, ast.Not):
        out[ast.unparse(n.operand)] = not p
      else:
        out[ast.unparse(n)] = p
  return out


def _contradict(pc1, pc2) -> bool:
  """no model/option assignment satisfies both path conditions (simple atoms syntactically, compound `or`/`and` tests by
  three-valued evaluation under the other side's simple atoms)"""
  if effects.contradictory(_norm(pc1), _norm(pc2)):
    return True
  for a, b in ((pc1, pc2), (pc2, pc1)):
    asg = _simple(b)
    for t, p in a:
      v = _eval3(t, asg)
      if v is not None and v != p:
        return True
  return False


def _meets(a: Set, b: Set) -> bool:
  return bool(a and b and (ALL in a or ALL in b or a & b))


def check_both_order_writers(res, db, entries, min_instances: int = 0) -> int:
  n = 0
  seen = set()
  for entry in entries:
    hi = db.trace(entry)
    effs = effects.trace_effects(db, hi)
    by_key: Dict[str, List[tuple]] = {}
    for i, e in enumerate(effs):
      if not e.ev.stack:
        continue
      for k in e.writes:
        by_key.setdefault(k, []).append((i, e.ev.stack[-1], e))
    for k, ws in by_key.items():
      owners = sorted({o for _, o, _ in ws})
      if len(owners) < 2:
        continue
      for x in range(len(owners)):
        for y in range(x + 1, len(owners)):
          f, g = owners[x], owners[y]
          fe = [(i, e) for i, o, e in ws if o == f]
          ge = [(i, e) for i, o, e in ws if o == g]
          # nested frames (one function calls the other) have a fixed relative order
          if any(g in e.ev.stack for _, e in fe) or any(f in e.ev.stack for _, e in ge):
            continue

          def first_order(ae, be):
            """some path on which an a-event precedes a b-event and no b-event can precede that a-event"""
            for i, ea in ae:
              for j, eb in be:
                if j <= i or _contradict(ea.ev.pc, eb.ev.pc):
                  continue
                cond = tuple(ea.ev.pc) + tuple(eb.ev.pc)
                if not any(jj < i and not _contradict(e2.ev.pc, cond) for jj, e2 in be):
                  return ea, eb
            return None

          fg, gf = first_order(fe, ge), first_order(ge, fe)
          if not (fg and gf):
            continue
          sig = (k, f, g)
          if sig in seen:
            continue
          seen.add(sig)
          n += 1
          pf, af = set(), set()
          for _, e in fe:
            p, a = footprint(e, k)
            pf |= p
            af |= a
          pg, ag = set(), set()
          for _, e in ge:
            p, a = footprint(e, k)
            pg |= p
            ag |= a
          clobber = None
          if _meets(pf, ag):
            clobber = (f, g, pf, ag, gf)
          elif _meets(pg, af):
            clobber = (g, f, pg, af, fg)
          res.ob(
            clobber is None,
            f"{k}|{f}|{g}|either-order",
            Finding(
              "R-SEQ.5",
              f"{k}|{clobber[0] if clobber else f}|overwrites|{clobber[1] if clobber else g}",
              (
                f"{clobber[0]} and {clobber[1]} both write {k} and run in either order depending on the model "
                f"(here {clobber[1].split('.')[-1]} first: [{'; '.join(f'{t}={p}' for t, p in clobber[4][0].ev.pc[-2:])}]), but {clobber[0].split('.')[-1]} plainly overwrites component(s) "
                f"{sorted(map(str, clobber[2]))} while {clobber[1].split('.')[-1]} writes {sorted(map(str, clobber[3]))}: on that order the earlier result is wiped"
              )
              if clobber
              else "",
              (clobber[4][1].ev.loc if clobber else ""),
            ),
            sample={"field": k, "functions": [f, g], "overwrites": [sorted(map(str, pf)), sorted(map(str, pg))], "touches": [sorted(map(str, af)), sorted(map(str, ag))]},
          )
  return n
