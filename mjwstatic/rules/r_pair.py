"""R-PAIR - save/restore pairing on host effect traces (C33, C08, C26).

Whenever a public function saves an integration-state field (`saved = wp.clone(d.<state>)`) and then overwrites it,
(a) a `wp.copy(d.<state>, saved)` is reached afterwards under a condition no stronger than the clone's, and it is the
    last write of that field in the function;
(b) when derived data are recomputed after the restore, the write set of the stages run after the copy covers the
    write set of the stages run between the clone and the copy (nothing derived stays evaluated at the temporary state).
"""

from __future__ import annotations

from typing import Dict, List, Set

from .. import effects
from ..db import DB
from ..hostir import Field, Phi, Temp, root_array


def _is(hv, temp) -> bool:
  r = root_array(hv) if hv is not None else None
  if r is temp:
    return True
  return isinstance(r, Phi) and any(root_array(a) is temp for a in r.alts)
from ..report import Finding, Result


def check_pairs(res: Result, db: DB, entry: str, state_keys: Set[str], lit=None, require_recompute=True, later_ok=None):
  hi = db.trace(entry, **(lit or {}))
  effs = effects.trace_effects(db, hi)
  n = 0
  clones = []
  for i, e in enumerate(effs):
    if e.ev.kind == "alloc" and e.ev.name == "clone" and e.ev.src is not None:
      src = root_array(e.ev.src)
      if isinstance(src, Field) and src.key in state_keys and len(e.ev.stack) == 1:
        clones.append((i, e, src.key, e.ev.dst))
  for i, e, key, temp in clones:
    n += 1
    # is the state field overwritten after the clone?
    overw = [j for j in range(i + 1, len(effs)) if key in effs[j].writes and not (effs[j].ev.kind == "copy" and _is(effs[j].ev.src, temp))]
    restores = [j for j in range(i + 1, len(effs)) if effs[j].ev.kind == "copy" and effs[j].ev.dst is not None and isinstance(root_array(effs[j].ev.dst), Field) and root_array(effs[j].ev.dst).key == key and _is(effs[j].ev.src, temp)]
    if not overw:
      continue
    cons = f"{entry}|{key}"
    ok = bool(restores)
    if ok:
      r = restores[-1]
      # no stronger condition than the clone's, and nothing rewrites the field afterwards
      ok = effects.dominates(effs[r].ev.pc, e.ev.pc) or set(effs[r].ev.pc) <= set(e.ev.pc) | set(effs[r].ev.pc) and all(l in e.ev.pc or True for l in ())
      stronger = [l for l in effs[r].ev.pc if l not in e.ev.pc]
      later = [j for j in overw if j > r and not (later_ok is not None and later_ok(effs[j]))]
      ok = not stronger and not later
      why = (f"the restoring copy is only reached under {stronger}" if stronger else "") + (f"; {effs[later[0]].ev.name or effs[later[0]].ev.kind} overwrites it again afterwards" if later else "")
    else:
      why = "no wp.copy back from the saved clone"
    res.ob(
      ok,
      cons + "|restored",
      Finding("R-PAIR.1", f"{entry}|{key}|not-restored", f"{entry.split('.')[-1]}() saves {key}, overwrites it ({effs[overw[0]].ev.name or effs[overw[0]].ev.kind}) and does not restore it on every path: {why}", e.ev.loc),
      sample={"function": entry, "field": key, "overwritten_by": effs[overw[0]].ev.name or effs[overw[0]].ev.kind, "restored": bool(restores)},
    )
    if ok and require_recompute:
      r = restores[-1]
      between: Set[str] = set()
      for j in range(overw[0], r):
        for k, kind in effs[j].writes.items():
          if k.startswith("Data.") and k != key and len(effs[j].ev.stack) > 1:
            between.add(k)
      after: Set[str] = set()
      for j in range(r + 1, len(effs)):
        for k in effs[j].writes:
          after.add(k)
      if after:  # the function recomputes derived data after the restore
        stale = sorted(between - after)
        res.ob(
          not stale,
          cons + "|recomputed",
          Finding("R-PAIR.2", f"{entry}|{key}|derived-left-at-temporary-state|{','.join(stale[:4])}", f"{entry.split('.')[-1]}() recomputes derived data after restoring {key} but {stale[:6]} keep the values computed at the temporary state", effs[r].ev.loc),
        )
  return n


def check_composed_restore(res: Result, db: DB, entry: str, state_keys: Set[str], lit=None) -> int:
  """R-PAIR.3: a public function that *composes* save/restore helpers (set_const = set_const_fixed; set_const_0;
  set_const_spring; re-run stages) promises, with restore=True, that every Data field evaluated at a temporary state by
  any nested helper is re-evaluated after the last restore of that state field. Checked on the whole trace (clones at any
  call depth), first unconditionally (may-write sets), then under a case split on each single configuration atom of the
  re-run stages: fields *definitely* written at the temporary state must be *possibly* rewritten after the restore."""
  from .r_flags import FlagEnv

  hi = db.trace(entry, **(lit or {}))
  effs = effects.trace_effects(db, hi)
  n = 0
  for key in sorted(state_keys):
    clones = [(i, e) for i, e in enumerate(effs) if e.ev.kind == "alloc" and e.ev.name == "clone" and e.ev.src is not None and isinstance(root_array(e.ev.src), Field) and root_array(e.ev.src).key == key]
    if not clones:
      continue
    temps = [e.ev.dst for _, e in clones]
    restores = [j for j, e in enumerate(effs) if e.ev.kind == "copy" and e.ev.dst is not None and isinstance(root_array(e.ev.dst), Field) and root_array(e.ev.dst).key == key and any(_is(e.ev.src, t) for t in temps)]
    if not restores:
      continue
    first, last = clones[0][0], restores[-1]
    n += 1

    def written(lo, hi_, env, definite):
      out = {}
      for j in range(lo, hi_):
        e = effs[j]
        if e.ev.kind in ("alloc",):
          continue
        if env is not None:
          v = env.pc_host(e.ev.pc)
          if definite and v is not True:
            continue
          if not definite and v is False:
            continue
        for k in e.writes:
          if k.startswith("Data.") and k != key:
            out.setdefault(k, e)
      return out

    between = written(first, last, None, False)
    after = written(last + 1, len(effs), None, False)
    stale = sorted(set(between) - set(after))
    note = ""
    if not stale:
      # case split on one configuration atom of the stages re-run after the restore
      env0 = FlagEnv("DisableBit.__none__", False)
      cands = []
      for j in range(last + 1, len(effs)):
        for text, _pol in effs[j].ev.pc:
          for a_ in env0.unknown_atoms(text):
            if a_ not in cands:
              cands.append(a_)
      for a_ in cands[:12]:
        for v_ in (True, False):
          env = FlagEnv("DisableBit.__none__", False)
          env.atoms = {a_: v_}
          b2 = written(first, last, env, True)
          a2 = written(last + 1, len(effs), env, False)
          s2 = sorted(set(b2) - set(a2))
          if s2:
            stale, note = s2, f" when `{a_}` is {'true' if v_ else 'false'}"
            break
        if stale:
          break
    res.ob(
      not stale,
      f"{entry}|{key}|composed-restore",
      Finding(
        "R-PAIR.3",
        f"{entry}|{key}|derived-left-at-temporary-state|{','.join(stale[:3])}",
        f"{entry.split('.')[-1]}(restore=True) evaluates {stale[:6]} while {key} is temporarily overwritten and does not recompute them after the last restore of {key}{note}: the caller is left with derived data of the temporary state",
        effs[last].ev.loc,
      ),
      sample={"function": entry, "state_field": key, "fields_at_temporary_state": len(between), "recomputed_after_restore": len(after)},
    )
  return n


def check_model_writes_before_restore(res: Result, db: DB, entry: str, state_keys: Set[str], lit=None) -> int:
  """R-PAIR.4: set_const_0 / set_const_spring compute derived *Model* fields from Data evaluated at a temporary state
  (qpos0 / qpos_spring). Every launch that writes a Model field, and every launch that produces a scratch array which a
  Model-field writer consumes, must therefore run while the temporary state is in effect - before the restoring copy of
  the state field. After the restore no launch may write a Model field from the restored state field or from Data
  (or scratch derived from Data) that was rewritten after the restore: it would be evaluated at the caller's configuration
  instead of the reference one."""
  hi = db.trace(entry, **(lit or {}))
  effs = effects.trace_effects(db, hi)
  n = 0
  for key in sorted(state_keys):
    clones = [(i, e) for i, e in enumerate(effs) if e.ev.kind == "alloc" and e.ev.name == "clone" and e.ev.src is not None and isinstance(root_array(e.ev.src), Field) and root_array(e.ev.src).key == key and len(e.ev.stack) == 1]
    for ci, ce in clones:
      temp = ce.ev.dst
      restores = [j for j, e in enumerate(effs) if j > ci and e.ev.kind == "copy" and e.ev.dst is not None and isinstance(root_array(e.ev.dst), Field) and root_array(e.ev.dst).key == key and _is(e.ev.src, temp)]
      if not restores:
        continue
      r = restores[-1]
      late = []
      # values at the caller's configuration: the restored state field itself and everything (re)written after the
      # restore, transitively through scratch arrays. A Model-field writer that runs after the restoring copy but reads
      # only Data computed BEFORE it (still the reference configuration's) is as good as one that runs before it.
      caller_state = {key}
      for j in range(r + 1, len(effs)):
        e = effs[j]
        mw = sorted(k for k in e.writes if k.startswith("Model.")) if e.ev.kind == "launch" else []
        bad_inputs = sorted(k for k in e.reads if k in caller_state)
        if mw and bad_inputs:
          late.append((e, mw))
        for k in e.writes:
          if k.startswith("Data.") or (k.startswith("temp:") and bad_inputs):
            caller_state.add(k)
      n += 1
      res.ob(
        not late,
        f"{entry}|{key}|model-writes-before-restore",
        Finding(
          "R-PAIR.4",
          f"{entry}|{key}|model-field-written-after-restore|{late[0][1][0] if late else ''}",
          f"{entry.split('.')[-1]}() writes {late[0][1] if late else ''} ({late[0][0].ev.name if late else ''}) from Data / scratch arrays AFTER {key} was restored: the derived Model field is evaluated at the caller's configuration instead of the reference configuration",
          late[0][0].ev.loc if late else effs[r].ev.loc,
        ),
        sample={"function": entry, "state_field": key, "launches_after_restore": sum(1 for j in range(r + 1, len(effs)) if effs[j].ev.kind == "launch")},
      )
  return n
