"""R-PAIR - save/restore pairing on host effect traces (C33, C08, C26).

Whenever a public function saves an integration-state field (`saved = wp.clone(d.<state>)`) and then overwrites it,
(a) a `wp.copy(d.<state>, saved)` is reached afterwards under a condition no stronger than the clone's, and it is the
    last write of that field in the function;
(b) when derived data are recomputed after the restore, the write set of the stages run after the copy covers the
    write set of the stages run between the clone and the copy (nothing derived stays evaluated at the temporary state).
"""

from __future__ import annotations

from typing import Dict, List, Set

from .. import effects
from ..db import DB
from ..hostir import Field, Phi, Temp, root_array


def _is(hv, temp) -> bool:
  r = root_array(hv) if hv is not None else None
  if r is temp:
    return True
  return isinstance(r, Phi) and any(root_array(a) is temp for a in r.alts)
from ..report import Finding, Result


def check_pairs(res: Result, db: DB, entry: str, state_keys: Set[str], lit=None, require_recompute=True, later_ok=None):
  hi = db.trace(entry, **(lit or {}))
  effs = effects.trace_effects(db, hi)
  n = 0
  clones = []
  for i, e in enumerate(effs):
    if e.ev.kind == "alloc" and e.ev.name == "clone" and e.ev.src is not None:
      src = root_array(e.ev.src)
      if isinstance(src, Field) and src.key in state_keys and len(e.ev.stack) == 1:
        clones.append((i, e, src.key, e.ev.dst))
  for i, e, key, temp in clones:
    n += 1
    # is the state field overwritten after the clone?
    overw = [j for j in range(i + 1, len(effs)) if key in effs[j].writes and not (effs[j].ev.kind == "copy" and _is(effs[j].ev.src, temp))]
    restores = [j for j in range(i + 1, len(effs)) if effs[j].ev.kind == "copy" and effs[j].ev.dst is not None and isinstance(root_array(effs[j].ev.dst), Field) and root_array(effs[j].ev.dst).key == key and _is(effs[j].ev.src, temp)]
    if not overw:
      continue
    cons = f"{entry}|{key}"
    ok = bool(restores)
    if ok:
      r = restores[-1]
      # no stronger condition than the clone's, and nothing rewrites the field afterwards
      ok = effects.dominates(effs[r].ev.pc, e.ev.pc) or set(effs[r].ev.pc) <= set(e.ev.pc) | set(effs[r].ev.pc) and all(l in e.ev.pc or True for l in ())
      stronger = [l for l in effs[r].ev.pc if l not in e.ev.pc]
      later = [j for j in overw if j > r and not (later_ok is not None and later_ok(effs[j]))]
      ok = not stronger and not later
      why = (f"the restoring copy is only reached under {stronger}" if stronger else "") + (f"; {effs[later[0]].ev.name or effs[later[0]].ev.kind} overwrites it again afterwards" if later else "")
    else:
      why = "no wp.copy back from the saved clone"
    res.ob(
      ok,
      cons + "|restored",
      Finding("R-PAIR.1", f"{entry}|{key}|not-restored", f"{entry.split('.')[-1]}() saves {key}, overwrites it ({effs[overw[0]].ev.name or effs[overw[0]].ev.kind}) and does not restore it on every path: {why}", e.ev.loc),
      sample={"function": entry, "field": key, "overwritten_by": effs[overw[0]].ev.name or effs[overw[0]].ev.kind, "restored": bool(restores)},
    )
    if ok and require_recompute:
      r = restores[-1]
      between: Set[str] = set()
      for j in range(overw[0], r):
        for k, kind in effs[j].writes.items():
          if k.startswith("Data.") and k != key and len(effs[j].ev.stack) > 1:
            between.add(k)
      after: Set[str] = set()
      for j in range(r + 1, len(effs)):
        for k in effs[j].writes:
          after.add(k)
      if after:  # the function recomputes derived data after the restore
        stale = sorted(between - after)
        res.ob(
          not stale,
          cons + "|recomputed",
          Finding("R-PAIR.2", f"{entry}|{key}|derived-left-at-temporary-state|{','.join(stale[:4])}", f"{entry.split('.')[-1]}() recomputes derived data after restoring {key} but {stale[:6]} keep the values computed at the temporary state", effs[r].ev.loc),
        )
  return n
