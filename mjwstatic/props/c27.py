"""C27 - family A clauses on the kernels the property names (structural necessary conditions only)."""

from . import family_a


def run(db, res, tier):
  family_a.run_family(db, res, tier, "C27")
