"""C31 - host/device conversion is faithful (coverage clauses)."""

from __future__ import annotations

import ast
import re

from ..report import Finding
from ..srcmodel import unparse
from ..tables import mujoco_attrs
from . import common

REQUIRED_ENUM_CHECKS = ["TrnType", "DynType", "GainType", "BiasType", "EqType", "GeomType", "SensorType", "WrapType", "SleepPolicy", "IntegratorType", "ConeType", "SolverType", "DisableBit", "EnableBit"]
# get_data_into renames (MjData attribute <- Data field)
RENAMES = {}


MJ_SPARSE_PARTS = {"efc_J_rownnz", "efc_J_rowadr", "efc_J_colind"}
MJW_SPARSE_PARTS = {"J_rownnz", "J_rowadr", "J_colind"}


def check_contact_selection(res, fi) -> int:
  """R-WORLD.1 on the host side of the flat contact buffer: the contacts of all worlds share one buffer in the order the
  narrowphase threads got their slots, so the records of one world are NOT contiguous. Every `d.contact.<field>.numpy()`
  read in get_data_into must be subscripted by a selector that is an element-wise comparison of contact.worldid with
  world_id (a boolean mask, possibly built in two steps), never by a slice or a range."""
  fn = fi.node
  assigns = {}
  for n in ast.walk(fn):
    if isinstance(n, ast.Assign):
      for t in n.targets:
        base = t
        while isinstance(base, ast.Subscript):
          base = base.value
        if isinstance(base, ast.Name):
          assigns.setdefault(base.id, []).append(n.value)

  def is_world_mask(name, depth=0):
    vals = assigns.get(name, [])
    if not vals or depth > 2:
      return False
    has_cmp = False
    for v in vals:
      if isinstance(v, ast.Call) and isinstance(v.func, ast.Name) and v.func.id in ("slice", "range"):
        return False
      for x in ast.walk(v):
        if isinstance(x, ast.Call) and isinstance(x.func, ast.Name) and x.func.id == "slice":
          return False
        if isinstance(x, ast.Compare) and len(x.ops) == 1 and isinstance(x.ops[0], ast.Eq) and "worldid" in unparse(x.left) and unparse(x.comparators[0]) == "world_id":
          has_cmp = True
    return has_cmp

  n = 0
  for x in ast.walk(fn):
    if isinstance(x, ast.Subscript) and isinstance(x.value, ast.Call) and isinstance(x.value.func, ast.Attribute) and x.value.func.attr == "numpy":
      path = unparse(x.value.func.value)
      if not path.startswith("d.contact.") or path == "d.contact.worldid":
        continue
      sel = x.slice
      n += 1
      ok = isinstance(sel, ast.Name) and is_world_mask(sel.id)
      res.ob(
        ok,
        f"get_data_into|{path}|selector",
        Finding("R-WORLD.1", f"io.get_data_into|{path}|selected-by-{'slice' if not ok else 'mask'}", f"`{unparse(x)[:70]}`: the contacts of world_id are selected with `{unparse(sel)[:40]}`, which is not a boolean mask `contact.worldid == world_id`; the flat contact buffer interleaves the worlds (slots are handed out per narrowphase kernel and thread), so a slice returns other worlds' contacts", f"{fi.file}:{x.lineno}"),
      )
  return n


def check_layout_predicates(res, fi) -> int:
  """R-LAYOUT.14: MuJoCo decides the layout of MjData.efc_J with mj_isSparse(); mujoco_warp decides the layout of
  Data.efc.J with is_sparse() (they differ for jacobian=auto and 32 < nv < 60). Every host access to the MjData-side
  efc_J structure must be control-dependent on a test that resolves to mujoco.mj_isSparse, every access to the
  Data-side sparse structure on a test that resolves to is_sparse - a writer/reader layout agreement."""
  fn = fi.node
  parents = {}
  for n in ast.walk(fn):
    for c in ast.iter_child_nodes(n):
      parents[c] = n
  mjd_vars = {a.arg for a in fn.args.args + fn.args.kwonlyargs if a.annotation is not None and unparse(a.annotation).endswith("MjData")}
  d_vars = {a.arg for a in fn.args.args + fn.args.kwonlyargs if a.annotation is not None and unparse(a.annotation).split(".")[-1] == "Data"}
  # single-assignment locals -> their value expression
  assigns = {}
  for n in ast.walk(fn):
    if isinstance(n, ast.Assign) and len(n.targets) == 1 and isinstance(n.targets[0], ast.Name):
      assigns.setdefault(n.targets[0].id, []).append(n.value)

  def resolve(test, depth=0):
    """set of predicate names a test depends on: 'mj' (mujoco.mj_isSparse), 'mjw' (is_sparse / m.is_sparse)"""
    out = set()
    for x in ast.walk(test):
      if isinstance(x, ast.Call):
        f = unparse(x.func)
        if f.endswith("mj_isSparse"):
          out.add("mj")
        elif f.split(".")[-1] == "is_sparse":
          out.add("mjw")
      elif isinstance(x, ast.Attribute) and x.attr == "is_sparse":
        out.add("mjw")
      elif isinstance(x, ast.Name) and x.id in assigns and len(assigns[x.id]) == 1 and depth < 3:
        out |= resolve(assigns[x.id][0], depth + 1)
    return out

  def controlling(node):
    """[(predicates, branch)] of enclosing ifs, innermost first"""
    out = []
    while node in parents:
      par = parents[node]
      if isinstance(par, ast.If) and node is not par.test:
        preds = resolve(par.test)
        if preds:
          out.append((preds, "then" if any(node is b for b in par.body) else "else", par))
      node = par
    return out

  n = 0
  for x in ast.walk(fn):
    if not isinstance(x, ast.Attribute):
      continue
    base = unparse(x.value)
    side = None
    if base in mjd_vars and (x.attr in MJ_SPARSE_PARTS or x.attr == "efc_J"):
      side, want, sparse_part = "MjData", "mj", x.attr in MJ_SPARSE_PARTS
    elif x.attr in MJW_SPARSE_PARTS and base.split(".")[0] in d_vars and base.endswith(".efc") and isinstance(parents.get(x), ast.Attribute) and parents[x].attr == "numpy":
      side, want, sparse_part = "Data", "mjw", True
    if side is None:
      continue
    ctl = controlling(x)
    if not ctl:
      if side == "MjData" and not sparse_part:
        continue  # size-only uses of efc_J outside any layout test
      n += 1
      res.ob(False, f"{fi.key}|{side}.{x.attr}|{x.lineno - fn.lineno}", Finding("R-LAYOUT.14", f"{fi.key}|{side}.{x.attr}|no-layout-test", f"{side} sparse Jacobian part `{unparse(x)}` is accessed outside any sparse/dense layout test", f"{fi.file}:{x.lineno}"))
      continue
    n += 1
    # the innermost test that mentions a layout predicate decides the layout of this access
    owner = next(((p, br, node) for p, br, node in ctl if want in p), None)
    wrong = next(((p, br, node) for p, br, node in ctl if want not in p), None)
    ok = owner is not None and (not sparse_part or owner[1] == "then")
    pred_name = "mujoco.mj_isSparse" if want == "mj" else "is_sparse"
    res.ob(
      ok,
      f"{fi.key}|{side}.{x.attr}|{x.lineno - fn.lineno}",
      Finding(
        "R-LAYOUT.14",
        f"{fi.key}|{side}.{x.attr}|wrong-layout-predicate",
        f"`{unparse(x)}` is accessed under a layout test that does not resolve to {pred_name}() (line {ctl[0][2].lineno}: `{unparse(ctl[0][2].test)[:60]}`): {side}'s efc_J layout is decided by {pred_name}, and the two predicates differ for jacobian=auto with 32 < nv < 60",
        f"{fi.file}:{x.lineno}",
      ),
      sample={"function": fi.key, "access": unparse(x), "test": unparse(ctl[0][2].test)[:60]} if n % 6 == 1 else None,
    )
  return n


# put_data entries that override the generic copy-by-name loop for a field that MjData has under the same name and
# that today's tree fills from that very attribute (confirmed by reading): the transferred value must still read it
PUT_DATA_SAME_NAME = ("body_awake", "solver_niter", "tree_asleep")


def check_put_data_provenance(sm, res) -> int:
  """R-LAYOUT.15: put_data copies most Data fields from the same-named MjData attribute in one generic loop. A field given
  an explicit initialiser in put_data although MjData has it under the same name must still be computed from that
  attribute (`mjd.<name>`, directly or through single-assignment locals): re-deriving it from other fields changes what
  get_data_into(put_data(mjd)) returns whenever MuJoCo's own value is not that function of the other fields."""
  fn = sm.func("io.put_data").node
  cnt, env = {}, {}
  for st in ast.walk(fn):
    if isinstance(st, ast.Assign) and len(st.targets) == 1 and isinstance(st.targets[0], ast.Name):
      k = st.targets[0].id
      cnt[k] = cnt.get(k, 0) + 1
      env[k] = st.value
  env = {k: v for k, v in env.items() if cnt[k] == 1}

  def mjd_attrs(e, depth=0):
    out = set()
    for n in ast.walk(e):
      if isinstance(n, ast.Attribute) and isinstance(n.value, ast.Name) and n.value.id == "mjd":
        out.add(n.attr)
      if isinstance(n, ast.Call) and unparse(n.func) == "getattr" and len(n.args) >= 2 and unparse(n.args[0]) == "mjd" and isinstance(n.args[1], ast.Constant):
        out.add(n.args[1].value)
      if isinstance(n, ast.Name) and n.id in env and depth < 4:
        out |= mjd_attrs(env[n.id], depth + 1)
    return out

  found = {}
  for n in ast.walk(fn):
    if isinstance(n, ast.Dict):
      for k, v in zip(n.keys, n.values):
        if isinstance(k, ast.Constant) and isinstance(k.value, str) and v is not None:
          found.setdefault(k.value, []).append(v)
    if isinstance(n, ast.Call):
      for kw in n.keywords:
        if kw.arg:
          found.setdefault(kw.arg, []).append(kw.value)
    if isinstance(n, ast.Assign) and len(n.targets) == 1 and isinstance(n.targets[0], ast.Attribute) and isinstance(n.targets[0].value, ast.Name) and n.targets[0].value.id == "d":
      found.setdefault(n.targets[0].attr, []).append(n.value)
  k = 0
  for name in PUT_DATA_SAME_NAME:
    if name not in found:
      continue  # no explicit initialiser any more: the generic copy-by-name loop applies
    k += 1
    vs = [v for v in found[name] if not (isinstance(v, ast.Constant) and v.value is None)]  # `None` = placeholder filled later
    if vs and any(name in mjd_attrs(v) for v in vs):
      res.ob(True, f"put_data|{name}|from-mjd")
      continue
    for v in vs[:1]:
      res.ob(
        False,
        f"put_data|{name}|from-mjd",
        Finding("R-LAYOUT.15", f"io.put_data|Data.{name}|not-read-from-mjd", f"put_data initialises Data.{name} with `{unparse(v)[:90]}`, which no longer reads mjd.{name}: the transferred value is re-derived instead of copied, so get_data_into(put_data(mjd)).{name} can differ from mjd.{name}", f"mujoco_warp/_src/io.py:{v.lineno}"),
        sample={"field": name},
      )
  return k


def run(db, res, tier):
  sm = db.sm
  check_put_data_provenance(sm, res)
  pm = sm.func("io.put_model")
  src = unparse(pm.node)
  # (B) enum membership validation
  checked = set(re.findall(r"types\.(\w+), mujoco\.mjt\w+\)", src))
  for e in REQUIRED_ENUM_CHECKS:
    res.ob(e in checked, f"put_model|enum|{e}", Finding("R-VALID.3", f"io.put_model|enum-membership|{e}", f"put_model no longer validates that the model's values belong to types.{e}: an unsupported member would fall through the kernels' dispatch chains silently", pm.loc()))
  for e in checked:
    res.ob(e in sm.enums, f"put_model|enum-exists|{e}", Finding("R-VALID.3", f"io.put_model|enum-missing|{e}", f"put_model validates types.{e}, which does not exist", pm.loc()))
  # (C) every Model field is populated
  assigned = set()
  for n in ast.walk(pm.node):
    if isinstance(n, ast.Assign):
      for t0 in n.targets:
        for t in (t0.elts if isinstance(t0, (ast.Tuple, ast.List)) else [t0]):
          if isinstance(t, ast.Attribute) and isinstance(t.value, ast.Name) and t.value.id == "m":
            assigned.add(t.attr)
    elif isinstance(n, ast.Call) and unparse(n.func) == "setattr" and n.args and unparse(n.args[0]) == "m" and isinstance(n.args[1], ast.Constant):
      assigned.add(n.args[1].value)
  nfields = 0
  for name, ann, ln in sm.classes_fields["Model"]:
    nfields += 1
    ok = name in mujoco_attrs.MJMODEL_ATTRS or name in assigned
    res.ob(ok, f"put_model|field|{name}", Finding("R-LAYOUT.12", f"io.put_model|Model.{name}|not-populated", f"Model.{name} is neither an MjModel attribute (copied by name) nor assigned in put_model: it stays None", pm.loc()), sample={"field": name, "source": "MjModel attribute" if name in mujoco_attrs.MJMODEL_ATTRS else "assigned in put_model"} if nfields % 60 == 1 else None)
  res.floor("Model fields", nfields, 400)
  # dimension names of array specs are known sizes
  size_keys = set(re.findall(r"'(n\w+)':", src)) | {name for name, ann, ln in sm.classes_fields["Model"] if unparse(ann) == "int"}
  ndim = 0
  for spec in sm.schema.values():
    if spec.owner != "Model" or not spec.is_array:
      continue
    for dname in spec.dims:
      if isinstance(dname, str) and dname != "*":
        ndim += 1
        res.ob(dname in size_keys, f"put_model|dim|{dname}", Finding("R-LAYOUT.12", f"io.put_model|dimension|{dname}", f"array spec of Model.{spec.path} uses dimension `{dname}` which put_model's sizes table does not define", f"mujoco_warp/_src/types.py:{spec.lineno}"))
  res.floor("Model array dimensions", ndim, 350)
  # (A) get_data_into: same-named copies, indexed by world_id
  gd = sm.func("io.get_data_into")
  ncopy = 0
  for n in ast.walk(gd.node):
    if not isinstance(n, ast.Assign) or len(n.targets) != 1:
      continue
    t = n.targets[0]
    tgt = t
    while isinstance(tgt, ast.Subscript):
      tgt = tgt.value
    if not (isinstance(tgt, ast.Attribute) and isinstance(tgt.value, ast.Name) and tgt.value.id == "result"):
      continue
    X = tgt.attr
    # find d.<Y>.numpy()[idx] patterns in the value
    for sub in ast.walk(n.value):
      if isinstance(sub, ast.Subscript) and isinstance(sub.value, ast.Call) and isinstance(sub.value.func, ast.Attribute) and sub.value.func.attr == "numpy":
        base = sub.value.func.value
        path = unparse(base)
        if not path.startswith("d."):
          continue
        Y = path[2:]
        spec = sm.schema_by_path.get(("Data", Y))
        if spec is None:
          continue
        ncopy += 1
        first = sub.slice.elts[0] if isinstance(sub.slice, ast.Tuple) else sub.slice
        if spec.first == "nworld":
          res.ob(unparse(first) == "world_id", f"get_data_into|{X}|world", Finding("R-WORLD.1", f"io.get_data_into|{X}|world-index", f"result.{X} is read from d.{Y}.numpy()[{unparse(first)}], not from the requested world_id", f"{gd.file}:{n.lineno}"))
        flatY = Y.replace("efc.", "efc_").replace("contact.", "contact_")
        same = X == Y or X == flatY or RENAMES.get(X) == Y or (Y.startswith("efc.") and X == "efc_" + Y[4:]) or X in ("ncon", "ne", "nf", "nl", "nefc")
        if isinstance(t, (ast.Subscript, ast.Attribute)) and not unparse(n.value).startswith(("np.", "(")) and "numpy()" in unparse(n.value) and unparse(n.value).count("numpy()") == 1:
          res.ob(same, f"get_data_into|{X}|name", Finding("R-LAYOUT.13", f"io.get_data_into|{X}|copied-from-{Y}", f"result.{X} is filled from d.{Y}", f"{gd.file}:{n.lineno}"), sample={"mjdata": X, "from": Y} if ncopy % 25 == 1 else None)
        if X in mujoco_attrs.MJDATA_ATTRS or True:
          pass
  res.floor("get_data_into copies", ncopy, 70)
  ncs = check_contact_selection(res, sm.func("io.get_data_into"))
  res.floor("per-world contact selections in get_data_into", ncs, 12)
  nlay = 0
  for fname in ("io.put_data", "io.get_data_into"):
    nlay += check_layout_predicates(res, sm.func(fname))
  res.floor("efc_J layout accesses under a layout predicate", nlay, 14)
  res.rule_text = "R-VALID: put_model validates membership for every typed field whose enum the kernels dispatch on; R-LAYOUT: every types.Model field is an MjModel attribute (copied by name; oracle: attribute names of the installed mujoco) or assigned in put_model, every symbolic dimension of the array specs is defined in put_model's size table; get_data_into copies each MjData field from the same-named Data field at [world_id]; R-WORLD.1 (host): every d.contact.<field> read of get_data_into is selected by a boolean mask `contact.worldid == world_id`, never by a slice (the flat buffer interleaves worlds); R-LAYOUT.14: every host access to MjData's efc_J sparse structure is control-dependent on mujoco.mj_isSparse() and every access to Data.efc's sparse structure on is_sparse()"
  res.explanation = "Coverage clauses of C31. Not decided: value equality, contact/efc reordering logic."
  res.extra["analysed"] = {"model_fields": nfields, "dimensions": ndim, "get_data_into_copies": ncopy, "enum_checks": sorted(checked)}
  res.assumptions += ["MjModel/MjData attribute names of mujoco 3.13.0 (tables/mujoco_attrs.py)"]
