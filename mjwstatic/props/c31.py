"""C31 - host/device conversion is faithful (coverage clauses)."""

from __future__ import annotations

import ast
import re

from ..report import Finding
from ..srcmodel import unparse
from ..tables import mujoco_attrs
from . import common

REQUIRED_ENUM_CHECKS = ["TrnType", "DynType", "GainType", "BiasType", "EqType", "GeomType", "SensorType", "WrapType", "SleepPolicy", "IntegratorType", "ConeType", "SolverType", "DisableBit", "EnableBit"]
# get_data_into renames (MjData attribute <- Data field)
RENAMES = {}


def run(db, res, tier):
  sm = db.sm
  pm = sm.func("io.put_model")
  src = unparse(pm.node)
  # (B) enum membership validation
  checked = set(re.findall(r"types\.(\w+), mujoco\.mjt\w+\)", src))
  for e in REQUIRED_ENUM_CHECKS:
    res.ob(e in checked, f"put_model|enum|{e}", Finding("R-VALID.3", f"io.put_model|enum-membership|{e}", f"put_model no longer validates that the model's values belong to types.{e}: an unsupported member would fall through the kernels' dispatch chains silently", pm.loc()))
  for e in checked:
    res.ob(e in sm.enums, f"put_model|enum-exists|{e}", Finding("R-VALID.3", f"io.put_model|enum-missing|{e}", f"put_model validates types.{e}, which does not exist", pm.loc()))
  # (C) every Model field is populated
  assigned = set()
  for n in ast.walk(pm.node):
    if isinstance(n, ast.Assign):
      for t0 in n.targets:
        for t in (t0.elts if isinstance(t0, (ast.Tuple, ast.List)) else [t0]):
          if isinstance(t, ast.Attribute) and isinstance(t.value, ast.Name) and t.value.id == "m":
            assigned.add(t.attr)
    elif isinstance(n, ast.Call) and unparse(n.func) == "setattr" and n.args and unparse(n.args[0]) == "m" and isinstance(n.args[1], ast.Constant):
      assigned.add(n.args[1].value)
  nfields = 0
  for name, ann, ln in sm.classes_fields["Model"]:
    nfields += 1
    ok = name in mujoco_attrs.MJMODEL_ATTRS or name in assigned
    res.ob(ok, f"put_model|field|{name}", Finding("R-LAYOUT.12", f"io.put_model|Model.{name}|not-populated", f"Model.{name} is neither an MjModel attribute (copied by name) nor assigned in put_model: it stays None", pm.loc()), sample={"field": name, "source": "MjModel attribute" if name in mujoco_attrs.MJMODEL_ATTRS else "assigned in put_model"} if nfields % 60 == 1 else None)
  res.floor("Model fields", nfields, 400)
  # dimension names of array specs are known sizes
  size_keys = set(re.findall(r"'(n\w+)':", src)) | {name for name, ann, ln in sm.classes_fields["Model"] if unparse(ann) == "int"}
  ndim = 0
  for spec in sm.schema.values():
    if spec.owner != "Model" or not spec.is_array:
      continue
    for dname in spec.dims:
      if isinstance(dname, str) and dname != "*":
        ndim += 1
        res.ob(dname in size_keys, f"put_model|dim|{dname}", Finding("R-LAYOUT.12", f"io.put_model|dimension|{dname}", f"array spec of Model.{spec.path} uses dimension `{dname}` which put_model's sizes table does not define", f"mujoco_warp/_src/types.py:{spec.lineno}"))
  res.floor("Model array dimensions", ndim, 350)
  # (A) get_data_into: same-named copies, indexed by world_id
  gd = sm.func("io.get_data_into")
  ncopy = 0
  for n in ast.walk(gd.node):
    if not isinstance(n, ast.Assign) or len(n.targets) != 1:
      continue
    t = n.targets[0]
    tgt = t
    while isinstance(tgt, ast.Subscript):
      tgt = tgt.value
    if not (isinstance(tgt, ast.Attribute) and isinstance(tgt.value, ast.Name) and tgt.value.id == "result"):
      continue
    X = tgt.attr
    # find d.<Y>.numpy()[idx] patterns in the value
    for sub in ast.walk(n.value):
      if isinstance(sub, ast.Subscript) and isinstance(sub.value, ast.Call) and isinstance(sub.value.func, ast.Attribute) and sub.value.func.attr == "numpy":
        base = sub.value.func.value
        path = unparse(base)
        if not path.startswith("d."):
          continue
        Y = path[2:]
        spec = sm.schema_by_path.get(("Data", Y))
        if spec is None:
          continue
        ncopy += 1
        first = sub.slice.elts[0] if isinstance(sub.slice, ast.Tuple) else sub.slice
        if spec.first == "nworld":
          res.ob(unparse(first) == "world_id", f"get_data_into|{X}|world", Finding("R-WORLD.1", f"io.get_data_into|{X}|world-index", f"result.{X} is read from d.{Y}.numpy()[{unparse(first)}], not from the requested world_id", f"{gd.file}:{n.lineno}"))
        flatY = Y.replace("efc.", "efc_").replace("contact.", "contact_")
        same = X == Y or X == flatY or RENAMES.get(X) == Y or (Y.startswith("efc.") and X == "efc_" + Y[4:]) or X in ("ncon", "ne", "nf", "nl", "nefc")
        if isinstance(t, (ast.Subscript, ast.Attribute)) and not unparse(n.value).startswith(("np.", "(")) and "numpy()" in unparse(n.value) and unparse(n.value).count("numpy()") == 1:
          res.ob(same, f"get_data_into|{X}|name", Finding("R-LAYOUT.13", f"io.get_data_into|{X}|copied-from-{Y}", f"result.{X} is filled from d.{Y}", f"{gd.file}:{n.lineno}"), sample={"mjdata": X, "from": Y} if ncopy % 25 == 1 else None)
        if X in mujoco_attrs.MJDATA_ATTRS or True:
          pass
  res.floor("get_data_into copies", ncopy, 70)
  res.rule_text = "R-VALID: put_model validates membership for every typed field whose enum the kernels dispatch on; R-LAYOUT: every types.Model field is an MjModel attribute (copied by name; oracle: attribute names of the installed mujoco) or assigned in put_model, every symbolic dimension of the array specs is defined in put_model's size table; get_data_into copies each MjData field from the same-named Data field at [world_id]"
  res.explanation = "Coverage clauses of C31. Not decided: value equality, contact/efc reordering logic."
  res.extra["analysed"] = {"model_fields": nfields, "dimensions": ndim, "get_data_into_copies": ncopy, "enum_checks": sorted(checked)}
  res.assumptions += ["MjModel/MjData attribute names of mujoco 3.13.0 (tables/mujoco_attrs.py)"]
