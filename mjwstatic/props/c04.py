"""C04 - collision detection agrees with MuJoCo C: routing-table agreement + family A clauses."""

import ast

from ..report import Finding
from ..rules import r_dispatch, r_live
from . import family_a


def _tables(db, res, tier, scope):
  sm = db.sm
  table = dict(r_dispatch.dict_keys_of(sm, "collision_driver", "MJ_COLLISION_TABLE"))
  prim = dict(r_dispatch.dict_keys_of(sm, "collision_primitive", "_PRIMITIVE_COLLISIONS"))
  n = 0
  for pair, kind in table.items():
    n += 1
    if kind.endswith("PRIMITIVE"):
      res.ob(pair in prim, f"MJ_COLLISION_TABLE|{pair}", Finding("R-DISPATCH.3", f"MJ_COLLISION_TABLE|{pair}|no-primitive-function", f"pair {pair} is routed to the primitive narrowphase but _PRIMITIVE_COLLISIONS has no function for it: its contacts would silently vanish", "mujoco_warp/_src/collision_driver.py"))
    else:
      res.ob(kind.endswith("CONVEX"), f"MJ_COLLISION_TABLE|{pair}", Finding("R-DISPATCH.3", f"MJ_COLLISION_TABLE|{pair}|unknown-route", f"pair {pair} has route {kind}", "mujoco_warp/_src/collision_driver.py"))
  # pairs rerouted at run time (NATIVECCD disabled) must have a primitive function too
  m = sm.module("collision_driver")
  for node in ast.walk(m.tree):
    if isinstance(node, ast.Assign) and len(node.targets) == 1 and isinstance(node.targets[0], ast.Subscript):
      t = node.targets[0]
      if isinstance(t.value, ast.Name) and t.value.id == "collision_table" and ast.unparse(node.value).endswith("PRIMITIVE"):
        pair = ast.unparse(t.slice)
        n += 1
        res.ob(pair in prim, f"rerouted|{pair}", Finding("R-DISPATCH.3", f"rerouted|{pair}|no-primitive-function", f"pair {pair} is rerouted to the primitive narrowphase at run time but has no primitive function", f"mujoco_warp/_src/collision_driver.py:{node.lineno}"))
  # every geom-type pair (upper triangle over collidable types) has a route
  res.floor("collision routing entries", n, 30)
  # every primitive function is reachable from the table (or the run-time reroute)
  for pair in prim:
    res.ob(pair in table, f"_PRIMITIVE_COLLISIONS|{pair}", Finding("R-DISPATCH.3", f"_PRIMITIVE_COLLISIONS|{pair}|unrouted", f"primitive function for {pair} has no entry in MJ_COLLISION_TABLE", "mujoco_warp/_src/collision_primitive.py"))


def run(db, res, tier):
  family_a.run_family(db, res, tier, "C04", extra=_tables)
  # contact records: every kernel that hands out a contact slot defines every Contact field of it unconditionally - a field
  # left from the slot's previous occupant is a contact that differs from mj_collision's (which rebuilds the list)
  nslot = r_live.check_slot_records(res, db, db.launch_ctxs())
  res.floor("contact slot record obligations (R-LIVE.5)", nslot, 30)
  res.rule_text += "; R-DISPATCH.3: MJ_COLLISION_TABLE (and its run-time reroute) and _PRIMITIVE_COLLISIONS agree; R-LIVE.5: every slot allocator (re)defines every Contact field, unconditionally and over its full extent"
