"""C11 - results are independent of parallel thread order (R-RACE)."""

from ..rules import r_race
from ..tables import race_tables
from . import common


def run(db, res, tier):
  all_lcs = db.launch_ctxs()
  if db.missing_sites():
    res.error(f"unresolved launch sites: {db.missing_sites()[:5]}")
  scope = common.scope_from_entries(db, ["forward.step", "forward.forward", "io.reset_data", "support.get_state", "support.set_state"], res)
  if tier == "thorough":
    sigs = {(lc.ev.loc, lc.kv.text) for lc in scope}
    # set_const's batched writes are examined under C33 (R-BATCH write side); render/ray/bvh are outside the claimed scope
    scope = scope + [lc for lc in all_lcs if (lc.ev.loc, lc.kv.text) not in sigs and lc.fi.module not in ("set_const", "render", "render_util", "bvh", "ray")]
  nw, classes = r_race.check_writes(res, scope)
  nr = r_race.check_cross_reads(res, scope)
  na = r_race.check_atomic_values(res, scope)
  nbr = r_race.check_branch_chains(res, db)
  res.floor("branch-chain construction clauses", nbr, 1)
  nldl = r_race.check_ldl_level_schedule(res, db, all_lcs)
  res.floor("sparse L'DL level-schedule clauses", nldl, 2)
  nord = r_race.check_order_arbitrary_lists(res, all_lcs, scope)
  res.floor("positional reads of slot-ordered lists", nord, 40)
  nsnap = r_race.check_wake_snapshot(res, scope)
  res.floor("snapshot-guarded reads in the sleep waking kernels", nsnap, 4)
  res.floor("plain writes classified", nw, 2000)
  res.floor("reads of arrays written in the same launch", nr, 1800)
  res.floor("stores of atomic-derived values", na, 30)
  res.rule_text = "R-RACE: (1) every non-atomic write lands on a cell determined by the writing thread (thread indices occur injectively - directly, through an injective address map, a loop over such an address, an atomically allocated slot, a flattened index, or a `tid == invariant` pin) or stores a thread-invariant value; (2) a launch that writes an array (incl. through aliased parameters) reads it only at cells the reading thread owns; (3) results of atomics are stored only into integer address/id arrays; everything else is a tabled idiom with its argument; (8) m.body_branches is built from whole root-to-leaf chains (the loop variable of the branch loop is appended unmodified); (7) the sparse L'DL updates are grouped into launches by the tree depth of the dof whose row the kernel accumulates into (component 0 of the update triple); (6) a dimension filled through atomically allocated slots is never read at a fixed non-zero offset from a loop variable / thread index (neighbour reads make the result depend on slot order); (5) in the sleep waking kernels every read of the racy tree_asleep array outside the walker and off the thread's own cell is dominated by a test of a snapshot array (not written in the launch) at the same cell"
  res.explanation = (
    "Decides freedom from write-write and read-write conflicts between distinct threads of every launch reachable from step/forward/reset_data/get_state/set_state, with the aliasing induced by the launch bindings. "
    "`arr[i] += v` is an atomic in Warp (codegen lowers array augmented assignment to atomic_add) and is treated as such. "
    "This is the one property the CPU suite cannot observe (one schedule). Not decided: correctness of the tabled idioms for every model (their arguments are written down, not mechanised), round-off of reordered sums."
  )
  res.extra["analysed"] = common.analysed(db, scope)
  res.extra["write_classes"] = classes
  res.extra["tables_used"] = {
    "INJECTIVE_MAPS": race_tables.INJECTIVE_MAPS,
    "WRITE_IDIOMS": {f"{k[0]}|{k[1]}": v[0] for k, v in race_tables.WRITE_IDIOMS.items()},
    "READ_IDIOMS": {f"{k[0]}|{k[1]}": v[0] for k, v in race_tables.READ_IDIOMS.items()},
  }
  res.assumptions += [
    "Model.body_branches holds complete root-to-leaf chains: the construction in put_model is checked only structurally (R-RACE.8: each branch appended whole); that ancestor_chain() really walks to the root is not",
    "sleep-cycle waking kernels (_wake_*) are an unverified idiom: their final countdown per tree can depend on arrival order; sleeping is outside this verdict",
    "Warp tile primitives and block-cooperative kernels are schedule-independent per block",
    "Model address arrays (*adr) map distinct elements to disjoint ranges (MuJoCo compiler invariant)",
  ]
