"""C40 - flex deformables agree with MuJoCo C: family A clauses on the flex kernels + flex contact-slot records."""

from ..rules import r_live
from . import family_a


def run(db, res, tier):
  scope = family_a.run_family(db, res, tier, "C40")
  # flex contact writers hand out slots of the shared contact buffer: complete, unconditional records
  nslot = r_live.check_slot_records(res, db, [lc for lc in db.launch_ctxs() if lc.fi.module == "collision_flex"])
  res.floor("flex contact-slot record obligations (R-LIVE.5)", nslot, 15)
  nrow = r_live.check_row_records_unconditional(res, db, [lc for lc in db.launch_ctxs() if "flex" in lc.name.lower()])
  res.floor("flex constraint-row record obligations (R-LIVE.5b)", nrow, 8)
  res.rule_text += "; R-LIVE.5/.5b: the flex contact writer defines every Contact field of an allocated slot and the flex row builders every scalar field of an allocated constraint row, unconditionally"
