"""C15 - state get/set is MuJoCo-compatible and lossless (R-LAYOUT + R-GATE)."""

from __future__ import annotations

import ast
import re
from typing import Dict, List, Optional, Tuple

from ..hostir import HostInterp
from ..kir import dotted
from ..report import Finding
from ..rules import r_world
from ..rules.r_gate import dominated_by_mask
from ..srcmodel import AnalysisError, unparse
from ..tables import mujoco_layouts
from . import common


class Branch:
  def __init__(self, member):
    self.member = member
    self.fields = set()
    self.size: Dict[str, int] = {}  # symbol -> coefficient ('1' for constants)
    self.offsets: List[str] = []
    self.casts = set()
    self.loc = 0


def _add(size: Dict[str, int], sym: str, k: int):
  size[sym] = size.get(sym, 0) + k


def _size_str(size: Dict[str, int]) -> str:
  parts = []
  for sym, k in sorted(size.items()):
    if k == 0:
      continue
    if sym == "1":
      parts.append(str(k))
    else:
      parts.append(sym if k == 1 else f"{k}*{sym}")
  return "+".join(parts) or "0"


def _increments(stmts, adr: str, mult: Tuple[str, ...], size: Dict[str, int]):
  """Accumulate the net increment of `adr` over stmts (loops over range(sym) multiply)."""
  for st in stmts:
    if isinstance(st, ast.AugAssign) and isinstance(st.target, ast.Name) and st.target.id == adr and isinstance(st.op, ast.Add):
      v = st.value
      if isinstance(v, ast.Constant) and isinstance(v.value, int):
        if len(mult) == 0:
          _add(size, "1", v.value)
        elif len(mult) == 1:
          _add(size, mult[0], v.value)
        else:
          raise AnalysisError(f"unsupported-construct nested adr increment at line {st.lineno}")
      elif isinstance(v, ast.Name) and not mult:
        _add(size, v.id, 1)
      elif isinstance(v, ast.BinOp) and isinstance(v.op, ast.Mult) and not mult and {type(v.left), type(v.right)} == {ast.Constant, ast.Name}:
        # hoisted form: `adr += 6 * nbody` after a loop that addresses `adr + 6 * j + c`
        k, sym = (v.left.value, v.right.id) if isinstance(v.left, ast.Constant) else (v.right.value, v.left.id)
        _add(size, sym, int(k))
      else:
        raise AnalysisError(f"unsupported-construct adr increment `{unparse(st)}` at line {st.lineno}")
    elif isinstance(st, ast.For):
      it = st.iter
      if isinstance(it, ast.Call) and dotted(it.func) == "range" and len(it.args) == 1 and isinstance(it.args[0], ast.Name):
        _increments(st.body, adr, mult + (it.args[0].id,), size)
      else:
        raise AnalysisError(f"unsupported-construct loop `{unparse(it)}` in state branch at line {st.lineno}")
    elif isinstance(st, ast.If):
      raise AnalysisError(f"unsupported-construct conditional inside state branch at line {st.lineno}")


def _inline_helpers(stmts, helpers, depth=0):
  """Splice the bodies of statement-level calls to module-level helper funcs (`_copy_span(src, w, a, b, n, dst)`) into the
  branch, parameters replaced by the argument expressions: a row copy moved into a helper keeps its layout."""
  import copy

  out = []
  for st in stmts:
    call = st.value if isinstance(st, ast.Expr) and isinstance(st.value, ast.Call) else None
    fn = helpers.get(call.func.id) if call is not None and isinstance(call.func, ast.Name) else None
    if fn is not None and depth < 3 and not any(isinstance(x, ast.Return) and x.value is not None for x in ast.walk(fn)) and not call.keywords:
      params = [a.arg for a in fn.args.args]
      if len(params) == len(call.args):
        sub = dict(zip(params, call.args))

        class R(ast.NodeTransformer):
          def visit_Name(self, n):
            return copy.deepcopy(sub[n.id]) if n.id in sub else n

        body = [R().visit(copy.deepcopy(b)) for b in fn.body if not (isinstance(b, ast.Expr) and isinstance(b.value, ast.Constant))]
        for b in body:
          ast.fix_missing_locations(ast.copy_location(b, st))
        out += _inline_helpers(body, helpers, depth + 1)
        continue
    if isinstance(st, (ast.For, ast.While, ast.If)):
      st = copy.copy(st)
      st.body = _inline_helpers(st.body, helpers, depth)
      if getattr(st, "orelse", None):
        st.orelse = _inline_helpers(st.orelse, helpers, depth)
    out.append(st)
  return out


def extract_layout(fi, state_param: str, helpers=None) -> Tuple[Dict[str, Branch], dict]:
  """Per `element == State.X` branch: fields touched, total size, casts. Also structural facts of the driver loop."""
  facts = {"loop": None, "element": None, "sig_test": None}
  branches: Dict[str, Branch] = {}
  loop = None
  for st in ast.walk(fi.node):
    if isinstance(st, ast.For) and isinstance(st.iter, ast.Call) and dotted(st.iter.func) == "range" and "NSTATE" in unparse(st.iter):
      loop = st
  if loop is None:
    raise AnalysisError(f"anchor vanished: loop over State.NSTATE in {fi.key}")
  facts["loop"] = unparse(loop.iter)
  ivar = loop.target.id if isinstance(loop.target, ast.Name) else None
  adr = None
  # element = 1 << i
  for st in loop.body:
    if isinstance(st, ast.Assign) and isinstance(st.value, ast.BinOp) and isinstance(st.value.op, ast.LShift):
      facts["element"] = unparse(st.value)
      evar = st.targets[0].id
  chain = None
  for st in loop.body:
    if isinstance(st, ast.If) and "&" in unparse(st.test):
      facts["sig_test"] = unparse(st.test)
      chain = st.body
  if chain is None or facts["element"] is None:
    raise AnalysisError(f"anchor vanished: `if element & sig` in {fi.key}")

  def walk_chain(node):
    while node is not None:
      if not (isinstance(node, ast.If) and isinstance(node.test, ast.Compare) and len(node.test.ops) == 1 and isinstance(node.test.ops[0], ast.Eq)):
        raise AnalysisError(f"unsupported-construct state dispatch `{unparse(node.test) if isinstance(node, ast.If) else type(node).__name__}` in {fi.key}")
      right = unparse(node.test.comparators[0])
      left = unparse(node.test.left)
      mem = (right if "State." in right else left).split("State.")[-1].split(".")[0]
      b = Branch(mem)
      b.loc = node.lineno
      body = _inline_helpers(node.body, helpers or {})
      # single-assignment address aliases inside the branch (`xfrcadr = adr + 6 * j`) are substituted into the offsets
      import copy as _copy

      alias, cnt_ = {}, {}
      for sub in body:
        for x in ast.walk(sub):
          if isinstance(x, ast.Assign) and len(x.targets) == 1 and isinstance(x.targets[0], ast.Name):
            cnt_[x.targets[0].id] = cnt_.get(x.targets[0].id, 0) + 1
            alias[x.targets[0].id] = x.value
      alias = {k: v for k, v in alias.items() if cnt_[k] == 1 and any(isinstance(y, ast.Name) and y.id == "adr" for y in ast.walk(v))}

      class _Sub(ast.NodeTransformer):
        def visit_Name(self, n):
          return _copy.deepcopy(alias[n.id]) if n.id in alias else n
      for sub in body:
        for x in ast.walk(sub):
          if isinstance(x, ast.Subscript) and isinstance(x.value, ast.Name):
            nm = x.value.id
            if nm == state_param:
              idx = x.slice.elts[1] if isinstance(x.slice, ast.Tuple) and len(x.slice.elts) > 1 else None
              if idx is not None and alias:
                idx = _Sub().visit(_copy.deepcopy(idx))
              b.offsets.append(unparse(idx).replace("(", "").replace(")", "") if idx is not None else "?")
            elif nm.endswith("_in") or nm.endswith("_out"):
              b.fields.add(nm.rsplit("_", 1)[0])
          if isinstance(x, ast.Call) and dotted(x.func) in ("float", "bool"):
            b.casts.add(dotted(x.func))
      nonlocal_adr = None
      for sub in body:
        for x in ast.walk(sub):
          if isinstance(x, ast.AugAssign) and isinstance(x.target, ast.Name):
            nonlocal_adr = x.target.id
      if nonlocal_adr is None:
        raise AnalysisError(f"unsupported-construct no address increment in branch {mem} of {fi.key}")
      _increments(body, nonlocal_adr, (), b.size)
      # copy extent: a loop `for j in range(X)` that moves state[adr + j] without advancing adr inside moves X cells
      b.copy_extents = []
      for sub in body:
        if isinstance(sub, ast.For) and isinstance(sub.iter, ast.Call) and dotted(sub.iter.func) == "range" and len(sub.iter.args) == 1 and isinstance(sub.target, ast.Name):
          inner_inc = any(isinstance(x, ast.AugAssign) and isinstance(x.target, ast.Name) and x.target.id == nonlocal_adr for x in ast.walk(sub))
          uses = [x for x in ast.walk(sub) if isinstance(x, ast.Subscript) and isinstance(x.value, ast.Name) and x.value.id == state_param]
          if uses and not inner_inc:
            b.copy_extents.append(unparse(sub.iter.args[0]))
      if mem in branches:
        raise AnalysisError(f"duplicate branch for State.{mem} in {fi.key}")
      branches[mem] = b
      nxt = node.orelse
      if not nxt:
        node = None
      elif len(nxt) == 1 and isinstance(nxt[0], ast.If):
        node = nxt[0]
      else:
        raise AnalysisError(f"unsupported-construct else-branch in state dispatch of {fi.key}")

  if len(chain) != 1:
    raise AnalysisError(f"unsupported-construct state dispatch body in {fi.key}")
  walk_chain(chain[0])
  return branches, facts


def _norm_size(s: str) -> str:
  return s.replace(" ", "")


def _sig_guard_exact(lits):
  """None when the raise guard rejects exactly sig >= 2^NSTATE, else a reason. The guard is `X op E` (or `E op X`) with X
  the signature (possibly wrapped in int()) and E an arithmetic expression over State.NSTATE; decided by evaluating E
  for NSTATE in {3, 7, 14} and comparing the largest accepted signature with 2^NSTATE - 1."""
  import ast as _ast

  if len(lits) != 1:
    return f"unrecognised guard shape {lits}"
  text, pol = lits[0]
  try:
    node = _ast.parse(text, mode="eval").body
  except SyntaxError:
    return f"unparsable guard `{text}`"
  while isinstance(node, _ast.UnaryOp) and isinstance(node.op, _ast.Not):
    node, pol = node.operand, not pol
  if not (isinstance(node, _ast.Compare) and len(node.ops) == 1):
    return "UNDECIDED"
  l, r, op = node.left, node.comparators[0], type(node.ops[0]).__name__
  def has_n(n):
    return "NSTATE" in _ast.unparse(n)
  if has_n(l) and not has_n(r):
    l, r = r, l
    op = {"Gt": "Lt", "GtE": "LtE", "Lt": "Gt", "LtE": "GtE"}.get(op, op)
  if has_n(l) or not has_n(r):
    return f"guard `{text}` does not compare the signature with an expression of NSTATE"
  if not pol:
    op = {"Gt": "LtE", "GtE": "Lt", "Lt": "GtE", "LtE": "Gt"}.get(op, op)
  src = _ast.unparse(r).replace("State.NSTATE.value", "_N").replace("State.NSTATE", "_N").replace("types._N", "_N")
  for n in (3, 7, 14):
    try:
      c = eval(compile(_ast.parse(src, mode="eval"), "<guard>", "eval"), {"__builtins__": {}}, {"_N": n, "int": int})  # arithmetic on one integer symbol only
    except Exception as e:  # noqa: BLE001
      return f"bound `{src}` is not arithmetic in NSTATE ({type(e).__name__})"
    if op == "GtE":
      max_ok = c - 1
    elif op == "Gt":
      max_ok = c
    else:
      return f"guard `{text}` rejects small signatures instead of large ones"
    if max_ok != (1 << n) - 1:
      return f"for NSTATE={n} the largest accepted signature is {max_ok}, expected {(1 << n) - 1}"
  return None


def run(db, res, tier):
  sm = db.sm
  # the kernels are found through the launches of the public entry points (not by name), so moving a kernel into a
  # helper or factory does not lose the anchor
  def _entry_kernel(entry):
    ks = {lc.fi.key: lc.fi for lc in db.trace_launch_ctxs(entry)}
    if len(ks) != 1:
      raise AnalysisError(f"anchor vanished: {entry} launches {sorted(ks)} (expected exactly one state kernel)")
    return next(iter(ks.values()))

  get_fi = _entry_kernel("support.get_state")
  set_fi = _entry_kernel("support.set_state")
  helpers = {name: f.node for name, f in sm.module(get_fi.module).funcs.items() if f.node is not get_fi.node and f.node is not set_fi.node}
  gb, gf = extract_layout(get_fi, "state_out", helpers)
  sb, sf = extract_layout(set_fi, "state_in", helpers)
  oracle = mujoco_layouts.STATE_ELEMENTS
  # driver loop: ascending over all NSTATE bits with element = 1 << i
  for name, f in (("get_state", gf), ("set_state", sf)):
    res.ob(f["loop"] == "range(State.NSTATE.value)" or f["loop"] == "range(State.NSTATE)", f"{name}|loop", Finding("R-LAYOUT.1", f"support.{name}|bit-loop", f"state elements are not visited by an ascending loop over all State.NSTATE bits (`{f['loop']}`)", get_fi.file))
    res.ob(f["element"].replace(" ", "") in ("1<<i",), f"{name}|element", Finding("R-LAYOUT.1", f"support.{name}|element-bit", f"element is `{f['element']}`, expected `1 << i`", get_fi.file))
  # oracle NSTATE agrees with the number of single-bit members declared before NSTATE in types.State (+USERDATA, -PLUGIN)
  members = list(sm.enums["State"].keys())
  for bit, (mem, field, size) in enumerate(oracle):
    if field is None:
      # PLUGIN: unsupported, size 0 - must have no branch (a branch would shift later offsets)
      res.ob(mem not in gb and mem not in sb, f"State.{mem}", Finding("R-LAYOUT.2", f"State.{mem}|unexpected-branch", f"State.{mem} has size 0 for accepted models but a branch exists", get_fi.file))
      continue
    for kind, br, fi in (("get", gb, get_fi), ("set", sb, set_fi)):
      b = br.get(mem)
      cons = f"{kind}_state|State.{mem}"
      if b is None:
        res.ob(False, cons, Finding("R-LAYOUT.2", f"support.{kind}_state|State.{mem}|missing", f"{kind}_state has no branch for State.{mem}: the element is skipped and every later element is shifted relative to mj_{kind}State", fi.file))
        continue
      got = _norm_size(_size_str(b.size))
      res.ob(got == _norm_size(size), cons + "|size", Finding("R-LAYOUT.3", f"support.{kind}_state|State.{mem}|size", f"{kind}_state advances the state address by {got} for State.{mem}; mj_stateSize uses {size}", f"{fi.file}:{b.loc}"), sample={"fn": f"{kind}_state", "element": mem, "fields": sorted(b.fields), "size": got, "oracle": size})
      for ext in getattr(b, "copy_extents", []):
        ext_ok = _norm_size(ext) == got or bool(re.fullmatch(r"\d+\*" + re.escape(_norm_size(ext)), got))  # strided items: k cells per loop step
        res.ob(ext_ok, cons + "|copy-extent", Finding("R-LAYOUT.3", f"support.{kind}_state|State.{mem}|copy-extent", f"{kind}_state moves {ext} cells of State.{mem} but advances the state address by {got}: the element is truncated or overlaps the next one", f"{fi.file}:{b.loc}"))
      res.ob(b.fields == {field}, cons + "|field", Finding("R-LAYOUT.4", f"support.{kind}_state|State.{mem}|field", f"{kind}_state moves {sorted(b.fields)} for State.{mem}; MuJoCo moves `{field}`", f"{fi.file}:{b.loc}"))
      # offsets used inside the branch are `adr + <loopvar>` or `adr + c` with c < per-item width
      width = [k for s, k in b.size.items()]
      per_item = max(width) if width else 1
      bad = []
      consts = set()
      for off in b.offsets:
        o = off.replace(" ", "")
        if o in ("adr",):
          consts.add(0)
        elif o.startswith("adr+") and o[4:].isdigit():
          consts.add(int(o[4:]))
        elif o.startswith("adr+") and o[4:].isidentifier():
          pass
        elif re.fullmatch(r"adr\+(\d+\*[A-Za-z_]\w*|[A-Za-z_]\w*\*\d+)(\+\d+)?", o):
          # strided form `adr + 6 * j (+ c)`: the stride must be the per-item width, c the offset inside the item
          m_ = re.fullmatch(r"adr\+(?:(\d+)\*[A-Za-z_]\w*|[A-Za-z_]\w*\*(\d+))(?:\+(\d+))?", o)
          stride = int(m_.group(1) or m_.group(2))
          if stride != per_item:
            bad.append(off)
          consts.add(int(m_.group(3) or 0))
        else:
          bad.append(off)
      if consts:
        dense = consts == set(range(per_item)) if len(consts) > 1 or per_item > 1 else consts == {0}
        res.ob(dense, cons + "|offsets", Finding("R-LAYOUT.5", f"support.{kind}_state|State.{mem}|offsets", f"{kind}_state touches state offsets {sorted(consts)} per item but advances by {per_item}", f"{fi.file}:{b.loc}"))
      res.ob(not bad, cons + "|offset-form", Finding("R-LAYOUT.5", f"support.{kind}_state|State.{mem}|offset-form", f"unrecognised state offsets {bad}", f"{fi.file}:{b.loc}"))
  # no branch for a member the oracle does not know
  for kind, br in (("get", gb), ("set", sb)):
    for mem in br:
      res.ob(any(mem == o[0] for o in oracle), f"{kind}|extra|{mem}", Finding("R-LAYOUT.2", f"support.{kind}_state|State.{mem}|extra-branch", f"{kind}_state has a branch for State.{mem}, which mj_{kind}State does not serialise", get_fi.file))
  # get/set mirror: same field and size per element, cast pairs
  for mem in set(gb) & set(sb):
    g, s = gb[mem], sb[mem]
    res.ob(g.fields == s.fields and _size_str(g.size) == _size_str(s.size), f"mirror|{mem}", Finding("R-LAYOUT.6", f"support.get_state/set_state|State.{mem}|mirror", f"get_state serialises {sorted(g.fields)} x {_size_str(g.size)} but set_state restores {sorted(s.fields)} x {_size_str(s.size)}", f"{set_fi.file}:{s.loc}"))
    if g.casts or s.casts:
      res.ob(g.casts == {"float"} and s.casts == {"bool"}, f"mirror|{mem}|cast", Finding("R-LAYOUT.6", f"support.get_state/set_state|State.{mem}|cast", f"cast pair {sorted(g.casts)}/{sorted(s.casts)} is not float()/bool()", f"{set_fi.file}:{s.loc}"))
  # the model dimensions passed at the launch are the same-named Model fields (nq <- m.nq ...)
  lcs = [lc for lc in db.launch_ctxs() if lc.name in (get_fi.key, set_fi.key)]
  if len(lcs) < 2:
    res.error("launches of _get_state/_set_state not found")
  for lc in lcs:
    for p, hv in lc.ev.bindings:
      if p.kind == "scalar" and p.name.startswith("n") and p.name in ("nq", "nv", "nu", "na", "nbody", "neq", "nmocap", "nuserdata", "nhistory"):
        res.ob(hv.text.endswith("." + p.name), f"{lc.name}|{p.name}", Finding("R-BIND.1", f"{lc.name}|{p.name}|dimension", f"dimension parameter `{p.name}` is bound to `{hv.text}`", lc.ev.loc))
    # mask gating: every array access is dominated by active_in[worldid] when a mask is given
    n_g = dominated_by_mask(res, lc, mask_param="active_in", static_name="active is not None")
    res.floor(f"gated accesses {lc.name.split('.')[-1]}", n_g, 20)
    # world discipline of the same kernels
    tags = set()
    r_world.check_world_index(res, [lc], tags)
  for key, par in (("support.get_state", "active"), ("support.set_state", "active")):
    common.check_mask_normalisation(res, db, key, par)
  # signature validation: raise before launch for sig >= 1 << NSTATE
  for key in ("support.get_state", "support.set_state"):
    hi = HostInterp(sm, shallow=True).run(key)
    raises = [e for e in hi.events if e.kind == "raise"]
    launches = [e for e in hi.events if e.kind == "launch"]
    ok = bool(raises) and bool(launches) and raises[0].seq < launches[0].seq and any("NSTATE" in t for t, _ in raises[0].pc)
    res.ob(ok, f"{key}|sig-validation", Finding("R-GATE.2", f"{key}|signature-validation", "no `raise` on `sig >= 1 << State.NSTATE` dominating the launch", sm.func(key).file))
    if ok:
      # exact bound: the accepted signatures are exactly [.., 2^NSTATE - 1] (decided for the symbolic NSTATE by evaluating
      # the guard's constant side at several values of NSTATE: the guard is a polynomial/shift expression in NSTATE only)
      verdict = _sig_guard_exact([(t, pol) for t, pol in raises[0].pc if "NSTATE" in t])
      if verdict == "UNDECIDED":
        res.assumptions.append(f"{key}: the signature guard `{raises[0].pc[-1][0]}` is not a single comparison; its exact bound is not decided")
        verdict = None
      res.ob(
        verdict is None,
        f"{key}|sig-bound",
        Finding("R-GATE.2", f"{key}|signature-bound", f"the rejecting guard `{raises[0].pc[-1][0]}` does not accept exactly the signatures below 2^NSTATE: {verdict}", raises[0].loc),
      )
  res.rule_text = "R-LAYOUT: per State bit the (field, size, offsets) triple extracted from the ASTs of _get_state/_set_state equals MuJoCo's mj_stateSize table; bits are visited ascending; get and set are mirror images with float()/bool() cast pairs; R-GATE: every access is dominated by the active mask; signatures >= 2^NSTATE raise before the launch"
  res.explanation = (
    "The state layout is a per-bit table, so checking each of the 13 supported elements against MuJoCo's documented element sizes decides the layout for all 2^14 signatures. "
    "Not decided: float32 round-trip of float64 inputs."
  )
  res.extra["analysed"] = {"kernels": [get_fi.key, set_fi.key], "elements": len(oracle), "launches": len(lcs)}
  res.extra["oracle"] = [list(o) for o in oracle]
  res.assumptions += ["MuJoCo's mjtState bit order and element sizes as recorded in tables/mujoco_layouts.py", "plugins are rejected by put_model so PLUGIN state has size 0"]
