"""C36 - results do not depend on what else ran in the process (R-GLOBAL)."""

from ..rules import r_global
from ..tables import global_tables


def run(db, res, tier):
  sm = db.sm
  nm = r_global.check_global_mutations(res, sm)
  evs = [e for es in db.resolve_all_launches().values() for e in es]
  nk, nf = r_global.check_factories(res, sm, evs)
  nmemo = r_global.check_memoised_functions(res, sm)
  res.floor("functools-memoised functions", nmemo, 3)
  nw = r_global.check_cache_wrapper(res, sm)
  res.floor("cache wrapper clauses", nw, 5)
  res.floor("global mutation sites", nm, 1)
  res.floor("cache_kernel factories", nf, 65)
  res.floor("cached nested kernels/funcs", nk, 65)
  res.rule_text = "R-GLOBAL: (1) run-time mutations of module-level bindings are confined to the tabled kernel cache and profiling stack; (2) @cache_kernel factory names are unique; (3) nested kernels are module=\"unique\"; (4) cached kernels capture no module-level mutable container; (5) parameters hashed by .size are used only through .size; (6) no factory is called with keyword arguments; (8) every functools.lru_cache / cache function takes only immutable scalar parameters (the key is the value, never an object identity); (7) the memoising wrapper builds its key from every positional argument plus the factory identity, accepts no unhashed keyword arguments and returns the cached entry"
  res.explanation = (
    "Decides that no simulation result can flow through process-global python state: the only globals mutated at run time are the kernel cache (whose key is shown complete) "
    "and the profiling stack. Not decided: Warp's own module/kernel cache."
  )
  res.extra["analysed"] = {"modules": len(sm.modules), "factories": nf, "global_mutation_sites": nm}
  res.extra["tables_used"] = {f"{k[0]}.{k[1]}": v[1] for k, v in global_tables.ALLOWED_GLOBAL_MUTATIONS.items()}
  res.assumptions += ["Warp's kernel cache is keyed by kernel source + module options", "python-level monkeypatching of mujoco_warp is out of scope"]
