"""C09 - worlds in a batch do not influence each other (R-WORLD)."""

from ..rules import r_batch, r_world
from ..tables import world_tables
from . import common


def run(db, res, tier):
  all_lcs = db.launch_ctxs()
  if db.missing_sites():
    res.error(f"unresolved launch sites: {db.missing_sites()[:5]}")
  scope = common.scope_from_entries(db, common.PUBLIC_SIM_ENTRIES, res)
  if tier == "thorough":
    # package-wide: every resolved launch, not only those reachable from the public simulation entry points
    sigs = {(lc.ev.loc, lc.kv.text) for lc in scope}
    scope = scope + [lc for lc in all_lcs if (lc.ev.loc, lc.kv.text) not in sigs]
  tags = r_world.discover_tags(all_lcs + scope)
  n, unknown = r_world.check_world_index(res, scope, tags)
  nw = r_world.check_tag_writers(res, all_lcs + scope, tags)
  ng = r_world.check_global_counters(res, all_lcs + scope)
  # a batched Model field read at another world's entry makes a world depend on its batch position
  nb, _ = r_batch.check_batch(res, scope, tags)
  res.floor("batched reads in scope", nb, 400)
  res.floor("nworld-array accesses", n, 2000)
  res.floor("world-tag writers", nw, 8)
  res.floor("global counter writes", ng, 6)
  from .c13 import check_host_writes_masked

  nh = check_host_writes_masked(db, res)
  res.floor("ungated host-level operations of the masked reset", nh, 4)
  ndc = r_world.check_device_conditions(res, db, common.PUBLIC_SIM_ENTRIES)
  res.floor("device-side graph conditions (capture_if / capture_while)", ndc, 2)
  if unknown > 40:
    res.error(f"{unknown} first indices of unknown provenance (confirmed baseline <= 40)")
  res.rule_text = "R-WORLD: (1) first subscript of every access to an `nworld`-first array is the thread's world id (thread index over d.nworld, or an element of a world-tag array); (3) every store into a world-tag array stores a world id; (4) world-less Data counters are written only atomically or with constants; (6) the condition array handed to wp.capture_if / wp.capture_while (the device reads element 0 only) is a batch-wide scalar, never a per-world array; R-RESET.5: with a reset mask given, reset_data writes per-world Data only through kernels that take the mask (no host-level fill/copy, no unmasked launch besides the tabled sleep bookkeeping)"
  res.explanation = (
    "Decides that no kernel reachable from step/forward/step1/step2/reset_data/get_state/set_state/inverse can read or write a "
    "cell of another world: all accesses to per-world arrays are indexed by the thread's own world id, whose provenance is "
    "tracked through thread indices, world-tag arrays (contact.worldid, collision/pair/candidate world ids) and inlined funcs. "
    "World-tag arrays are validated inductively: every writer in the package stores a world id. Not decided: coupling through "
    "capacity overflow (excluded by the property's proviso), Warp itself, and contact order (C11)."
  )
  res.extra["analysed"] = common.analysed(db, scope)
  res.extra["world_tag_arrays"] = sorted(tags)
  res.extra["unknown_provenance"] = unknown
  res.extra["tables_used"] = {"WORLD_INDEX_EXCEPTIONS": {f"{k[0]}|{k[1]}": v for k, v in world_tables.WORLD_INDEX_EXCEPTIONS.items()}, "GLOBAL_COUNTERS": list(world_tables.GLOBAL_COUNTERS)}
  res.assumptions += ["Warp wp.tid() order equals launch dim order", "tabled flattened-index kernels (SAP) derive the world id correctly from their flattened sort keys"]
