"""C07 - family A clauses + the sensor cutoff is the last operation on a sensor value (R-CLAMP) + object-type -> frame
field family discipline (R-FAMILY.2)."""

import ast

from ..report import Finding
from ..rules import r_clamp, r_record
from ..tables import clamp_tables
from . import family_a

# mjtObj member -> the Data frame fields that ARE that object's frame. BODY is the inertial frame (xipos/ximat), XBODY the
# body frame (xpos/xmat): the two coincide whenever body_ipos = 0 and body_iquat = identity (every sphere-only fixture).
OBJ_FRAME_FIELDS = {
  "BODY": {"xipos", "ximat"},
  "XBODY": {"xpos", "xmat"},
  "GEOM": {"geom_xpos", "geom_xmat"},
  "SITE": {"site_xpos", "site_xmat"},
  "CAMERA": {"cam_xpos", "cam_xmat"},
}
_ALL_FRAME = set().union(*OBJ_FRAME_FIELDS.values())


def _members(test):
  out = set()
  for c in ast.walk(test):
    if isinstance(c, ast.Compare) and len(c.ops) == 1 and isinstance(c.ops[0], ast.Eq):
      for side in (c.left, c.comparators[0]):
        if isinstance(side, ast.Attribute) and isinstance(side.value, ast.Name) and side.value.id == "ObjType" and side.attr in OBJ_FRAME_FIELDS:
          out.add(side.attr)
  return out


def check_objtype_frames(db, res) -> int:
  """R-FAMILY.2: inside a branch taken for a set S of object types (`objtype == ObjType.A or objtype == ObjType.B`),
  every frame array parameter read (`<field>_in`) belongs to the frame family of *every* member of S. A branch that
  merges BODY and XBODY must therefore read neither xipos/ximat nor xpos/xmat (they differ between the two)."""
  n = 0
  mod = db.sm.module("sensor")
  for fn in ast.walk(mod.tree):
    if not isinstance(fn, ast.FunctionDef):
      continue
    for node in ast.walk(fn):
      if not isinstance(node, ast.If):
        continue
      S = _members(node.test)
      if not S or any(isinstance(x, (ast.And, ast.Not)) for x in ast.walk(node.test)):
        continue
      used = {}
      for st in node.body:
        for x in ast.walk(st):
          if isinstance(x, ast.Name) and x.id.endswith("_in") and x.id[:-3] in _ALL_FRAME:
            used.setdefault(x.id[:-3], x)
      n += 1
      bad = sorted(f for f in used if not all(f in OBJ_FRAME_FIELDS[m] for m in S))
      res.ob(
        not bad,
        f"sensor.{fn.name}|{'+'.join(sorted(S))}|{node.lineno - fn.lineno}",
        Finding(
          "R-FAMILY.2",
          f"sensor.{fn.name}|ObjType.{'+'.join(sorted(S))}|reads-{'+'.join(bad)}",
          f"the branch of sensor.{fn.name} taken for ObjType.{' / '.join(sorted(S))} reads `{', '.join(b + '_in' for b in bad)}`, which is not the frame of {'every one of those object types' if len(S) > 1 else 'that object type'} (BODY = inertial frame xipos/ximat, XBODY = body frame xpos/xmat, GEOM/SITE/CAMERA = their own x-frames): results differ from MuJoCo whenever the two frames differ",
          f"{mod.path}:{used[bad[0]].lineno}" if bad else mod.path,
        ),
        sample={"function": fn.name, "object_types": sorted(S), "frame_fields_read": sorted(used)} if n % 10 == 1 else None,
      )
  return n


def _extra(db, res, tier, scope):
  n = r_clamp.check_clamp_last(res, scope, clamp_tables.CLAMP_LAST, "C07")
  res.floor("cutoff-last obligations", n, 30)
  nr = r_record.check_records(res, db, ["sensor.sensor_acc"])
  res.floor("slot records met by a sort", nr, 1)
  nf = check_objtype_frames(db, res)
  res.floor("object-type frame branches", nf, 45)


def run(db, res, tier):
  family_a.run_family(db, res, tier, "C07", extra=_extra)
  # energy_pos / energy_vel run in either order (a sensor of the other kind moves one of them into sensor_pos): they must
  # commute on Data.energy
  from ..rules import r_order

  from ..rules import r_sort

  ntag = r_sort.check_tagged_ids(res, db.launch_ctxs())
  res.floor("comparisons of tagged ids (R-SORT.3)", ntag, 3)
  nord = r_order.check_both_order_writers(res, db, ["forward.forward"])
  res.floor("function pairs that write one field in either order (R-SEQ.5)", nord, 1)
  res.rule_text += "; R-SORT.3: an equality test between two tagged ids (efc.id tagged by efc.type, sensor_objid tagged by sensor_type) is reachable only with both tags pinned to members of one index space; R-SEQ.5: two stage functions whose first writes to a field occur in either order on different host paths do not plainly overwrite a cell / component the other one writes (accumulations commute)"
  res.rule_text += "; R-CLAMP: every sensordata store that applies sensor_cutoff stores the clamp / min result itself; R-RECORD: arrays that one kernel writes together per atomically allocated slot are permuted together by any later tile sort, or no consumer reads a sorted and an unsorted one at the same position; R-FAMILY.2: a sensor branch taken for a set of object types reads only frame arrays that are the frame of every type in the set (BODY: xipos/ximat, XBODY: xpos/xmat, GEOM/SITE/CAMERA: their own)"
