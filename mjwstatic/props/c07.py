"""C07 - see family_a.py."""

from . import family_a


def run(db, res, tier):
  family_a.run_family(db, res, tier, "C07")
