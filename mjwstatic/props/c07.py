"""C07 - family A clauses + the sensor cutoff is the last operation on a sensor value (R-CLAMP)."""

from ..rules import r_clamp
from ..tables import clamp_tables
from . import family_a


def _extra(db, res, tier, scope):
  n = r_clamp.check_clamp_last(res, scope, clamp_tables.CLAMP_LAST, "C07")
  res.floor("cutoff-last obligations", n, 30)


def run(db, res, tier):
  family_a.run_family(db, res, tier, "C07", extra=_extra)
  res.rule_text += "; R-CLAMP: every sensordata store that applies sensor_cutoff stores the clamp / min result itself"
