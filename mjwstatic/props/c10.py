"""C10 - per-world model parameters take effect only in their world (R-BATCH)."""

from ..rules import r_batch, r_world
from . import common


def run(db, res, tier):
  all_lcs = db.launch_ctxs()
  if db.missing_sites():
    res.error(f"unresolved launch sites: {db.missing_sites()[:5]}")
  tags = r_world.discover_tags(all_lcs)
  n, unknown = r_batch.check_batch(res, all_lcs, tags)
  res.floor("batched accesses", n, 540)
  nsc = r_batch.check_per_world_scratch(res, db, all_lcs)
  res.floor("per-world scratch arrays", nsc, 20)
  ns = r_batch.check_seeded_vs_batched(res, db, all_lcs)
  res.floor("host-seeded derived fields recomputed from batched inputs", ns, 2)
  if unknown > 12:
    res.error(f"{unknown} batched accesses of unknown form (confirmed baseline <= 12)")
  res.rule_text = "R-BATCH: every access to a `*`-first Model array, followed through funcs/row views/closures, is indexed `W % a.shape[0]` (same array, W = the thread's world id), its closure-constant equivalent bound to m.<same field>.shape[0], or a set_const thread index over that field's batch size; R-BATCH.5: a scratch array filled at the thread's world position from per-world Data is allocated with first extent d.nworld (never by a Model field's batch extent); R-BATCH.4: a Data field that make_data seeds from the unbatched MjModel and that a step kernel recomputes from batched fields is recomputed for every element unless the model-determined skip also requires those fields to be unbatched (`.shape[0] == 1`)"
  res.explanation = (
    "Decides the mechanism C10 names: every kernel read (and set_const write) of a batchable Model field uses the reading "
    "thread's world modulo that field's own batch size. Enumerated package-wide over every resolved wp.launch site with the "
    "kernel evaluated under the launch's static arguments. Not decided: that a value, once read for the right world, is used correctly."
  )
  res.extra["analysed"] = common.analysed(db, all_lcs)
  res.extra["unknown_forms"] = unknown
  res.extra["world_tag_arrays"] = sorted(tags)
  res.assumptions += ["Warp wp.tid() order equals launch dim order", "batched fields are exactly the `*`-first array fields of types.Model/Option/Statistic"]
