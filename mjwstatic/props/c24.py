"""C24 - constraint forces are physically admissible (sign/zero clauses; path-sensitive)."""

from __future__ import annotations

from .. import kir
from ..rules import r_live
from ..report import Finding
from ..rules.world import array_key
from ..terms import T, affine, pc_literals, show, subterms
from . import common

WRITERS = {"solver._update_constraint_efc.kernel"}


def _state_of(v: T):
  for s in subterms(v):
    if s.op == "enum" and s.args[0] == "ConstraintState":
      return s.args[1]
  return None


def _has(lits, op, a, b):
  """Is `a op b` implied by a literal of the path (exact syntactic form after normalisation)?"""
  want = T("cmp", op, a, b)
  return any(t is want and pol for t, pol in lits)


def _static_only(t) -> bool:
  return not any(x.op in ("ld", "tid", "at", "lv", "carried") for x in subterms(t))


def check_change_tracking(db, res) -> int:
  """R-TRACK: dirty counters of the incremental solver path are bumped under exactly the change condition."""
  n = 0
  lcs = [lc for lc in db.launch_ctxs() if lc.name in WRITERS]
  if not lcs:
    res.error("anchor vanished: no launch of the constraint-update kernel")
    return 0
  quad = None
  for lc in lcs:
    acc = lc.keval.accesses
    stores = [a for a in acc if a.kind == "w" and array_key(lc, a.root) == "Data.efc.state"]
    if not stores:
      continue
    st = stores[0]
    old = T("ld", st.root, *st.idx)
    olds = {old, T("ld", st.root.replace("_out", "_in"), *st.idx)}
    P = set(st.pc)
    for a in acc:
      if a.kind != "atomic_add":
        continue
      host = lc.host(a.root)
      htxt = host.text if host is not None else a.root
      which = "state" if "state_changed" in htxt else "quad" if "quad_changed_count" in htxt else None
      if which is None or not P <= set(a.pc):
        continue
      n += 1
      resid = [l for l in a.pc if l not in P]
      change, extra = [], []
      for l in resid:
        t, pol = l.args[0], l.args[1]
        if _static_only(t):
          continue
        if pol and t.op == "cmp" and t.args[0] == "!=":
          x, y = t.args[1], t.args[2]
          if which == "state" and ((x in olds and y is st.value) or (y in olds and x is st.value)):
            change.append(l)
            continue
          if which == "quad":
            def isq(u, v):
              return isinstance(u, T) and u.op == "cmp" and u.args[0] == "==" and u.args[1] is v and any(s.op == "enum" and s.args[1] == "QUADRATIC" for s in subterms(u.args[2]))
            if any((isq(x, o) and isq(y, st.value)) or (isq(y, o) and isq(x, st.value)) for o in olds):
              change.append(l)
              continue
        extra.append(l)
      key = f"{lc.name}|{which}_changed"
      res.ob(
        bool(change) and not extra,
        key,
        Finding(
          "R-TRACK.1",
          f"{lc.name}|{which}_changed|condition",
          f"the `{which}_changed` counter is incremented under `{' & '.join(show(l)[:90] for l in resid)}`: "
          + ("it is not conditioned on the tracked value changing" if not change else f"besides the change test it also requires `{' & '.join(show(l)[:120] for l in extra)}`, so some changes of efc.{'state' if which == 'state' else 'state (quadratic flag)'} are not counted and the incremental path reuses a stale gradient / qfrc_constraint"),
          a.loc,
        ),
        sample={"counter": which, "residual_condition": [show(l)[:100] for l in resid]},
      )
  return n


def run(db, res, tier):
  sm = db.sm
  fi = sm.func("solver._eval_constraint")
  ev = kir.evaluate(sm, fi)
  p = lambda n: T("p", n)  # noqa: E731
  jaref, D, fl = p("jaref"), p("D"), p("frictionloss")
  negDj = T("bin", "*", T("un", "-", D), jaref)
  n = 0
  kinds = set()
  for pc, v in ev.returns:
    if not (isinstance(v, T) and v.op == "call" and v.args[0] == "wp.vec3" and len(v.args) == 4):
      res.ob(False, f"return|{n}", Finding("R-SIGN.0", "solver._eval_constraint|return-shape", f"return value `{show(v)}` is not vec3(force, state, cost)", fi.loc()))
      continue
    n += 1
    force, state_t, cost = v.args[1], v.args[2], v.args[3]
    state = _state_of(state_t)
    lits = list(pc_literals(pc))
    cond = " & ".join(("" if pol else "not ") + show(t) for t, pol in lits)[:160]
    is_eq = any(t is p("is_equality") and pol for t, pol in lits)
    is_fr = any(t is p("is_friction") and pol for t, pol in lits)
    is_el = any(t is p("is_elliptic") and pol for t, pol in lits)
    kind = "equality" if is_eq else "friction" if is_fr else "elliptic" if is_el else "limit/contact"
    kinds.add((kind, state))
    cons = f"{kind}|{state}"
    sample = {"kind": kind, "state": state, "force": show(force), "under": cond}
    if state == "SATISFIED":
      ok = force.op == "c" and force.args[0] == 0.0
      res.ob(ok, cons, Finding("R-SIGN.1", f"solver._eval_constraint|{kind}|SATISFIED|force", f"a SATISFIED row returns force `{show(force)}` instead of 0", fi.loc()), sample=sample)
      if kind == "limit/contact":
        res.ob(_has(lits, ">=", jaref, T("c", 0.0)), cons + "|cond", Finding("R-SIGN.1", f"solver._eval_constraint|{kind}|SATISFIED|condition", f"limit/contact rows are SATISFIED under `{cond}`, expected jaref >= 0", fi.loc()))
    elif state in ("LINEARNEG", "LINEARPOS"):
      rf = None
      for t, pol in lits:
        if pol and t.op == "cmp" and t.args[1] is jaref:
          pass
      # rf = frictionloss / D (through math.safe_div)
      rfs = [s for t, _ in lits for s in subterms(t) if s.op in ("bin", "call", "phi") and any(x is fl for x in subterms(s)) and any(x is D for x in subterms(s))]
      if state == "LINEARNEG":
        okf = force is fl
        okc = any(pol and t.op == "cmp" and t.args[0] == "<=" and t.args[1] is jaref and isinstance(t.args[2], T) and t.args[2].op == "un" and t.args[2].args[0] == "-" for t, pol in lits)
        res.ob(okf, cons, Finding("R-SIGN.2", f"solver._eval_constraint|friction|LINEARNEG|force", f"LINEARNEG returns `{show(force)}`, expected +frictionloss", fi.loc()), sample=sample)
        res.ob(okc and is_fr, cons + "|cond", Finding("R-SIGN.2", "solver._eval_constraint|friction|LINEARNEG|condition", f"LINEARNEG under `{cond}`, expected jaref <= -frictionloss/D", fi.loc()))
      else:
        okf = force.op == "un" and force.args[0] == "-" and force.args[1] is fl
        okc = any(pol and t.op == "cmp" and t.args[0] == ">=" and t.args[1] is jaref and not (isinstance(t.args[2], T) and t.args[2].op == "un") for t, pol in lits)
        res.ob(okf, cons, Finding("R-SIGN.2", "solver._eval_constraint|friction|LINEARPOS|force", f"LINEARPOS returns `{show(force)}`, expected -frictionloss", fi.loc()), sample=sample)
        res.ob(okc and is_fr, cons + "|cond", Finding("R-SIGN.2", "solver._eval_constraint|friction|LINEARPOS|condition", f"LINEARPOS under `{cond}`, expected jaref >= frictionloss/D", fi.loc()))
    elif state == "QUADRATIC":
      res.ob(force is negDj, cons, Finding("R-SIGN.3", f"solver._eval_constraint|{kind}|QUADRATIC|force", f"QUADRATIC returns `{show(force)}`, expected -D * jaref", fi.loc()), sample=sample)
      if kind == "friction":
        lo = any(pol and t.op == "cmp" and t.args[0] == ">" and t.args[1] is jaref for t, pol in lits)
        hi = any(pol and t.op == "cmp" and t.args[0] == "<" and t.args[1] is jaref for t, pol in lits)
        res.ob(lo and hi, cons + "|cond", Finding("R-SIGN.3", "solver._eval_constraint|friction|QUADRATIC|condition", f"friction QUADRATIC under `{cond}`, expected -rf < jaref < rf (so |force| < frictionloss)", fi.loc()))
      elif kind == "limit/contact":
        res.ob(_has(lits, "<", jaref, T("c", 0.0)), cons + "|cond", Finding("R-SIGN.3", "solver._eval_constraint|limit/contact|QUADRATIC|condition", f"limit/contact QUADRATIC under `{cond}`, expected jaref < 0 (force = -D*jaref >= 0)", fi.loc()))
    elif state == "CONE":
      res.ob(kind == "elliptic", cons, Finding("R-SIGN.4", f"solver._eval_constraint|{kind}|CONE", "CONE state outside the elliptic branch", fi.loc()), sample=sample)
    else:
      res.ob(False, cons, Finding("R-SIGN.0", f"solver._eval_constraint|{kind}|unknown-state", f"unrecognised state in `{show(state_t)}`", fi.loc()))
  expected = {("equality", "QUADRATIC"), ("friction", "LINEARNEG"), ("friction", "LINEARPOS"), ("friction", "QUADRATIC"), ("elliptic", "SATISFIED"), ("elliptic", "QUADRATIC"), ("elliptic", "CONE"), ("limit/contact", "SATISFIED"), ("limit/contact", "QUADRATIC")}
  for k in sorted(expected - kinds):
    res.ob(False, f"missing|{k}", Finding("R-SIGN.5", f"solver._eval_constraint|{k[0]}|{k[1]}|missing", f"no return for {k}", fi.loc()))
  res.floor("classified returns", n, 9)
  # D > 0 by construction: _efc_row stores 1 / max(..., MJ_MINVAL)
  row = kir.evaluate(sm, sm.func("constraint._efc_row"))
  dw = [a for a in row.accesses if a.is_write and a.root == "D_out"]
  okd = bool(dw) and all(isinstance(a.value, T) and a.value.op == "bin" and a.value.args[0] == "/" and any(s.op == "call" and s.args[0] in ("wp.max", "max") and any(x.op in ("cv", "c") and ("MINVAL" in str(x.args[0]) or (isinstance(x.args[0], float) and 0 < x.args[0] < 1e-6)) for x in subterms(s)) for s in subterms(a.value.args[2])) for a in dw)
  res.ob(okd, "efc_D|positive-form", Finding("R-SIGN.6", "constraint._efc_row|efc_D|form", f"efc.D is not stored as x / max(..., MJ_MINVAL) (`{show(dw[0].value) if dw else '?'}`): D > 0 is what turns jaref < 0 into force > 0", row.entry.loc()))
  # who may write efc.force / efc.state, and they come from _eval_constraint
  nwr = 0
  for lc in db.launch_ctxs():
    for a in lc.keval.accesses:
      if a.is_write and array_key(lc, a.root) in ("Data.efc.force", "Data.efc.state"):
        nwr += 1
        res.ob(lc.name in WRITERS, f"writer|{lc.name}|{a.root}", Finding("R-SIGN.7", f"{lc.name}|{a.root}|unexpected-writer", f"{array_key(lc, a.root)} is written outside the constraint-update kernel", a.loc))
        res.ob("solver._eval_constraint" in lc.keval.calls, f"writer|{lc.name}|uses-eval", Finding("R-SIGN.7", f"{lc.name}|{a.root}|not-from-eval-constraint", "efc.force/state are not produced by _eval_constraint", a.loc))
  res.floor("efc.force/state writers", nwr, 2)
  # qfrc_constraint = J^T force: products pair J[row r, dof j] with force[row r] and land on dof j
  for lc in db.launch_ctxs():
    if lc.name not in ("solver._update_constraint_init_qfrc_constraint_dense.kernel", "solver._update_constraint_init_qfrc_constraint_sparse.kernel"):
      continue
    for a in lc.keval.accesses:
      if not a.is_write or array_key(lc, a.root) != "Data.qfrc_constraint":
        continue
      prods = [s for s in subterms(a.value) if s.op == "bin" and s.args[0] == "*" and all(isinstance(x, T) and x.op == "ld" for x in s.args[1:])]
      okp = False
      for pr in prods:
        j, f = pr.args[1], pr.args[2]
        fld = lambda t: (lc.field(t.args[0]).path if lc.field(t.args[0]) is not None else "")  # noqa: E731
        if fld(j) not in ("efc.J", "cJ"):
          j, f = f, j
        if fld(j) in ("efc.J", "cJ") and fld(f) == "efc.force":
          rowj = j.args[2] if "dense" in lc.name else None
          rowf = f.args[2]
          if "dense" in lc.name:
            okp = rowj is rowf and j.args[3] is a.idx[1] and j.args[1] is f.args[1] is a.idx[0]
          else:
            # sparse: J[w, 0, rowadr[w, r] + i] * force[w, r], written at colind[...]
            pos = j.args[3]
            in_row = any(s.op == "ld" and s.args[0].startswith("efc_J_rowadr") and s.args[2] is rowf for s in subterms(pos))
            if not in_row and isinstance(pos, T) and pos.op == "lv":
              # the row walked directly: `for sparseid in range(rowadr[w, r], rowadr[w, r] + rownnz[w, r])`
              info = lc.keval.loops.get(pos.args[0], {})
              lo = info.get("lo")
              in_row = isinstance(lo, T) and any(s.op == "ld" and s.args[0].startswith("efc_J_rowadr") and s.args[2] is rowf for s in subterms(lo))
            okp = in_row and any(s.op == "ld" and s.args[0].startswith("efc_J_colind") and s.args[3] is pos for s in subterms(a.idx[1]))
      res.ob(okp, f"{lc.name}|JT-force", Finding("R-SIGN.8", f"{lc.name}|qfrc_constraint|JT-pairing", f"qfrc_constraint accumulates `{show(a.value)[:120]}`: J and force are not paired on the same row / written on J's column", a.loc))
  ntr = check_change_tracking(db, res)
  res.floor("change-tracking increments", ntr, 2)
  # qfrc_constraint = J^T force needs every cell of qfrc_constraint (re)defined by each solve: the sparse rebuild skips
  # worlds without rows, which only the init kernel's complement write covers
  ncomp = r_live.check_guard_complements(res, db, ["forward.forward"], fields={"Data.qfrc_constraint"})
  res.floor("skip/complement-writer launch pairs for qfrc_constraint (R-LIVE.9)", ncomp, 4)
  res.rule_text = "R-LIVE.9: on every host path that launches the sparse qfrc_constraint rebuild (which skips worlds whose counter is zero) the complement writer (init kernel storing qfrc_constraint under nefc == 0, switched by a factory flag) was launched on the same array with its flag implied by the path; R-TRACK: in the constraint-update kernel every counter the incremental (fast) path consults to decide whether qfrc_constraint / the gradient must be rebuilt is incremented under exactly the change condition of the value it tracks (state_changed: old efc.state != stored efc.state; quad_changed: (old == QUADRATIC) != (new == QUADRATIC)) and nothing stronger; Path-sensitive sign analysis of _eval_constraint: for every return vec3(force, state, cost) the (state, force form, path condition) triple is admissible - SATISFIED => 0; LINEARNEG => +frictionloss under jaref <= -rf; LINEARPOS => -frictionloss under jaref >= rf; friction QUADRATIC => -D*jaref under -rf < jaref < rf; limit/contact QUADRATIC => -D*jaref under jaref < 0; D is stored as x/max(., MJ_MINVAL) > 0; efc.force/state are written only by the constraint-update kernel from _eval_constraint; qfrc_constraint pairs J[r, j] with force[r] and lands on dof j"
  res.explanation = "Values are touched only through comparisons, so each return is decided from its syntactic path condition. Not decided: elliptic cone membership (numeric), equality of qfrc_constraint on the incremental path."
  res.extra["analysed"] = {"returns": n, "kinds": sorted(f"{a}:{b}" for a, b in kinds)}
  res.assumptions += ["efc.D > 0 whenever the impedance/reference computation of _efc_row yields finite values", "mu > 0, frictionloss >= 0 (MuJoCo compiler invariants)"]
