"""C37 - pipeline stages compose consistently (trace comparison + write/live sets)."""

from __future__ import annotations

from typing import Dict, List

from .. import effects, hostir
from ..report import Finding
from ..rules import r_live
from ..tables import live_tables, mujoco_layouts
from . import common

INTEGRATOR_ATOMS = {
  "EULER": {"(m.opt.integrator == IntegratorType.EULER)": True, "(m.opt.integrator == IntegratorType.RK4)": False, "(m.opt.integrator in [IntegratorType.IMPLICITFAST, IntegratorType.IMPLICIT])": False, "(m.opt.integrator == IntegratorType.IMPLICIT)": False},
  "IMPLICITFAST": {"(m.opt.integrator == IntegratorType.EULER)": False, "(m.opt.integrator == IntegratorType.RK4)": False, "(m.opt.integrator in [IntegratorType.IMPLICITFAST, IntegratorType.IMPLICIT])": True, "(m.opt.integrator == IntegratorType.IMPLICIT)": False},
  "IMPLICIT": {"(m.opt.integrator == IntegratorType.EULER)": False, "(m.opt.integrator == IntegratorType.RK4)": False, "(m.opt.integrator in [IntegratorType.IMPLICITFAST, IntegratorType.IMPLICIT])": True, "(m.opt.integrator == IntegratorType.IMPLICIT)": True},
}
SLEEP_ATOMS = ["((m.opt.enableflags & EnableBit.SLEEP) and (not (m.opt.disableflags & DisableBit.ISLAND)))", "(m.opt.enableflags & EnableBit.SLEEP)"]

# tabled equivalence: factor_m in fwd_position followed by solve_m in fwd_acceleration == fused factor_solve_i in fwd_acceleration
FACTOR_STAGES = (("forward.fwd_position", "smooth.factor_m"), ("forward.fwd_acceleration", "smooth.solve_m"), ("forward.fwd_acceleration", "smooth.factor_solve_i"))
FACTOR_INPUT = "Data.M"
FACTOR_OUTPUTS = ("Data.qLD", "Data.qLDiagInv")


def _in_factor_stage(stack) -> bool:
  for a, b in FACTOR_STAGES:
    for i in range(len(stack) - 1):
      if stack[i] == a and stack[i + 1] == b:
        return True
  return False


def _sig(e):
  if e.kind == "launch":
    return ("launch", e.name, tuple(v.text for _, v in (e.bindings or [])), tuple(d.text for d in (e.dim or [])), e.pc)
  if e.kind in ("fill", "copy"):
    return (e.kind, e.dst.text if e.dst is not None else "", e.src.text if e.src is not None else (e.value.text if e.value is not None else ""), e.pc)
  if e.kind == "callback":
    return ("callback", e.name, e.pc)
  if e.kind == "ext":
    return ("ext", e.name, tuple(a.text for a in (e.args or [])), e.pc)
  return None


def _events(sm, entry, cfg):
  hi = hostir.HostInterp(sm, config=cfg)
  hi.run(entry)
  return hi


def _seq(hi, drop_factor=True):
  out = []
  for e in hi.events:
    s = _sig(e)
    if s is None:
      continue
    if drop_factor and _in_factor_stage(e.stack):
      continue
    out.append((s, e))
  return out


def _norm_temp(text: str) -> str:
  import re

  return re.sub(r"#\d+", "#", re.sub(r"@[\w\.]+:\d+", "@", re.sub(r"'\d+", "'", text)))


def _norm_sig(s):
  def n(x):
    if isinstance(x, str):
      return _norm_temp(x)
    if isinstance(x, tuple):
      return tuple(n(y) for y in x)
    return x

  return n(s)


def run(db, res, tier):
  sm = db.sm
  ncmp = 0
  for iname, iatoms in INTEGRATOR_ATOMS.items():
    for sleep in (False, True):
      cfg = dict(iatoms)
      for a in SLEEP_ATOMS:
        cfg[a] = sleep
      tag = f"{iname}|sleep={'on' if sleep else 'off'}"
      A = _events(sm, "forward.step", cfg)
      B1 = _events(sm, "forward.step1", cfg)
      B2 = _events(sm, "forward.step2", cfg)
      sa = _seq(A)
      sb = _seq(B1) + _seq(B2)
      na = [_norm_sig(s) for s, _ in sa]
      nb = [_norm_sig(s) for s, _ in sb]
      ncmp += max(len(na), len(nb))
      # first divergence
      k = 0
      while k < min(len(na), len(nb)) and na[k] == nb[k]:
        k += 1
      same = len(na) == len(nb) and k == len(na)
      if not same:
        ea = sa[k][1] if k < len(sa) else None
        eb = sb[k][1] if k < len(sb) else None
        wa = f"{ea.kind} {ea.name or (ea.dst.text if ea.dst is not None else '')} in {ea.stack[-1]}" if ea else "(end)"
        wb = f"{eb.kind} {eb.name or (eb.dst.text if eb.dst is not None else '')} in {eb.stack[-1]}" if eb else "(end)"
        stage_a = ea.stack[1] if ea and len(ea.stack) > 1 else "?"
        res.ob(False, f"seq|{tag}", Finding("R-SEQ.1", f"step-vs-step1;step2|{tag}|{stage_a}|{ea.name if ea else 'end'}", f"with integrator {iname} and sleeping {'enabled' if sleep else 'disabled'}, step() and step1();step2() perform different operation sequences; first difference at position {k}: step has `{wa}`, step1;step2 has `{wb}`", (ea or eb).loc))
      else:
        res.ob(True, f"seq|{tag}", sample={"config": tag, "operations_compared": len(na)})
      # factorisation equivalence: same writers of M before the factorisation, nothing writes M / qLD between factor and solve
      for name, his in (("step", [A]), ("step1;step2", [B1, B2])):
        effs = []
        for hi in his:
          effs += effects.trace_effects(db, hi)
        first_factor = next((i for i, e in enumerate(effs) if _in_factor_stage(e.ev.stack) and any(k_ in e.writes for k_ in FACTOR_OUTPUTS)), None)
        last_solve = max((i for i, e in enumerate(effs) if _in_factor_stage(e.ev.stack)), default=None)
        if first_factor is None:
          if not sleep:
            res.error(f"anchor vanished: factorisation stage not found in {name} ({tag})")
          continue
        before = sorted({e.ev.name for e in effs[:first_factor] if FACTOR_INPUT in e.writes})
        res.extra.setdefault("M_writers_before_factor", {})[f"{name}|{tag}"] = before
        between = [e.ev.name for e in effs[first_factor:last_solve] if not _in_factor_stage(e.ev.stack) and (FACTOR_INPUT in e.writes or any(k_ in e.writes for k_ in FACTOR_OUTPUTS))]
        res.ob(not between, f"factor|{name}|{tag}|between", Finding("R-SEQ.2", f"{name}|factor-stale|{','.join(between)}", f"in {name}(), {between} modify the inertia matrix or its factor between factorisation and the smooth solve: the factor used by the solve is stale", effs[first_factor].ev.loc))
      wa_ = res.extra["M_writers_before_factor"].get(f"step|{tag}")
      wb_ = res.extra["M_writers_before_factor"].get(f"step1;step2|{tag}")
      if wa_ is not None and wb_ is not None:
        missing = sorted(set(wa_) - set(wb_))
        extra = sorted(set(wb_) - set(wa_))
        res.ob(not missing and not extra, f"factor|writers|{tag}", Finding("R-SEQ.2", f"step-vs-step1;step2|factor-inputs|{','.join(missing + extra)}", f"the inertia matrix that step1() factorises lacks/has contributions compared with step(): missing {missing}, extra {extra}", "mujoco_warp/_src/forward.py"))
  res.floor("operations compared", ncmp, 1500)

  # forward() must not write integration state, and must not read a non-state value that it also writes
  hi = db.trace("forward.forward")
  ws = r_live.write_set(db, hi)
  live, _, nev = r_live.live_in(db, hi)
  state = {f"Data.{f}" for _, f, _ in mujoco_layouts.STATE_ELEMENTS if f}
  for k in sorted(state):
    w = ws.get(k)
    res.ob(not w, f"forward-writes|{k}", Finding("R-PURE.1", f"forward.forward|writes|{k}", f"forward() writes integration-state field {k} ({w[0] if w else ''})", (w[0].split("@")[-1] if w else "")))
  for k in sorted(live):
    if k in ws and not k.startswith("Model.") and k not in state:
      ok = k in live_tables.PERSISTENT or k in live_tables.SLEEP_STATE
      res.ob(ok, f"forward-idempotent|{k}", Finding("R-PURE.2", f"forward.forward|reads-own-output|{k}", f"forward() reads {k} from before the call and also writes it: a second call sees a different input", live[k]["loc"]))
  res.rule_text = "R-SEQ: for Euler/implicitfast/implicit x sleeping on/off the resolved operation sequence (launch kernel + bindings + extents, fills, copies, callbacks) of step() equals that of step1();step2() modulo the tabled equivalence factor_m;solve_m == factor_solve_i, the same kernels contribute to the inertia matrix before it is factorised and nothing modifies it before the solve; R-PURE: forward() writes no State.INTEGRATION field and reads no non-state field that it also writes"
  res.explanation = "Sequence comparison of host effect traces specialised to 6 configurations, plus write-set / live-in sets of forward(). Not decided: bit-equality of floating-point results."
  res.extra["analysed"] = {"configurations": 6, "operations_compared": ncmp, "forward_effect_events": nev}
  res.assumptions += ["factor_m followed by solve_m equals the fused factor_solve_i when the inertia matrix is unchanged in between (tabled equivalence)", "user callbacks are not modelled"]
