"""C32 - disable/enable flags act as in MuJoCo (necessary conditions)."""

from ..report import Finding
from ..rules import r_dispatch, r_flags
from ..tables import flag_tables
from . import common

ENTRIES = ["forward.step", "forward.forward"]


def run(db, res, tier):
  n = 0
  for flag, fields in flag_tables.FLAG_OFF.items():
    value = flag.startswith("DisableBit")  # the atom (flags & X) is truthy when a DisableBit is set; an EnableBit is tested clear
    wit, total = r_flags.live_writes(db, ENTRIES, flag, value, set(fields))
    for f in fields:
      n += 1
      if total[f] == 0:
        res.error(f"anchor vanished: no write to {f} in step()/forward()")
        continue
      res.ob(
        not wit[f],
        f"{flag}|off|{f}",
        Finding("R-FLAGS.1", f"{flag}|{f}|still-computed", f"with {flag} {'set' if value else 'clear'}, {f} can still be written with a non-zero value by {sorted(set(wit[f]))[:3]}: the flag does not remove this contribution", (wit[f][0].split('@')[-1] if wit[f] else "")),
        sample={"flag": flag, "field": f, "writes_examined": total[f], "live_when_flag_set": len(wit[f])},
      )
  for flag, fields in flag_tables.FLAG_KEEPS.items():
    wit, total = r_flags.live_writes(db, ENTRIES, flag, True, set(fields))
    for f in fields:
      n += 1
      res.ob(bool(wit[f]), f"{flag}|keeps|{f}", Finding("R-FLAGS.2", f"{flag}|{f}|wrongly-removed", f"with only {flag} set, no write of {f} can execute with a non-zero value: the flag switches off a contribution that belongs to another flag", "mujoco_warp/_src"))
  res.floor("flag obligations", n, 30)
  nk = 0
  for flag, fields, assume in flag_tables.KEEPS_CASES:
    nk += r_flags.check_keeps_cases(res, db, ["forward.forward"], flag, fields, assume_enabled=assume)
  res.floor("flag-keeps obligations with model case split (R-FLAGS.2b)", nk, 4)
  ns = r_flags.check_sibling_gating(res, db, ENTRIES, flag_tables.DERIVATIVE_OF, flag_tables.DERIVATIVE_FLAGS)
  res.floor("force/derivative gating obligations", ns, 8)
  nc = r_flags.check_derivative_completeness(res, db, ["forward.forward"], "forward.implicit", flag_tables.DERIVATIVE_NEEDED, flag_tables.DERIVATIVE_FLAGS, flag_tables.IMPLICIT_INTEGRATORS)
  res.floor("force/derivative completeness obligations", nc, 30)
  # a flag (combination) that switches off the stage defining a field must not leave a reachable reader of the stale value
  from ..rules import r_live
  from ..tables import live_tables
  from .c12 import state_keys

  allowed = state_keys() | set(live_tables.PERSISTENT) | set(live_tables.SLEEP_STATE) | set(live_tables.FLAG_STALE_OK)
  nl = sum(r_live.check_flag_conditioned_liveness(res, db, e, allowed) for e in ENTRIES)
  res.floor("flag-conditioned liveness obligations", nl, 20)
  nd = r_dispatch.check_dispatch(res, db.sm, ["DisableBit", "EnableBit"])
  res.floor("flag consultation obligations", nd, 25)
  nm = r_flags.check_module_flags(res, db.sm, flag_tables.MODULE_FLAGS)
  res.floor("(module, flag) consultations examined (R-FLAGS.6)", nm, 35)
  res.rule_text = "R-FLAGS.2b: with only DisableBit.SENSOR set and energy enabled, for both truth values of every model-determined host condition on the way to a writer of Data.energy, each component of Data.energy keeps a reachable non-zero writer; R-FLAGS.6: no stage module tests an option flag it does not test on the confirmed tree (flags are stage-scoped); R-FLAGS: under the sole assumption that a flag is set (DisableBit) / clear (EnableBit), every write of the flag's own contribution in step()/forward() is unreachable in three-valued logic over host- and kernel-level path conditions or stores zero, and sibling contributions stay reachable; R-FLAGS.3: under every assignment of ACTUATION/SPRING/DAMPER that makes all launches of a force kernel unreachable, the launches of its velocity-derivative sibling (derivative.py) are unreachable too; R-FLAGS.4 (converse): under every such assignment that leaves a velocity-dependent force kernel launched, its derivative sibling stays reachable in implicit() for IMPLICIT and for IMPLICITFAST separately (integrator tests evaluated on the assigned enum member); R-LIVE.6: for each single flag and each flag pair tested together, no read of a non-state Data field stays reachable while every earlier definition in the same call becomes unreachable (a disabled stage must not leave its consumers reading stale values); R-DISPATCH: every flag is still referenced in each feature area where the confirmed baseline consults it"
  res.explanation = "Decides that flag tests are wired to the contributions they should remove and only to those. Not decided: numeric exactness; flags frozen into the Model at put_model time (FILTERPARENT, NATIVECCD, MULTICCD) and value-level flags (CLAMPCTRL, REFSAFE, WARMSTART, EULERDAMP, CONTACT's effect on the collision pipeline) are covered by the consultation clause only."
  res.extra["analysed"] = {"entries": ENTRIES, "flags": sorted(set(flag_tables.FLAG_OFF) | set(flag_tables.FLAG_KEEPS))}
  res.assumptions += ["per-flag contributions as tabled in tables/flag_tables.py (confirmed by reading)"]
