"""C19 - contact pair filtering (narrow structural claim)."""

from __future__ import annotations

import ast

from .. import kir
from ..report import Finding
from ..rules.world import array_key
from ..terms import T, pc_literals, show, subterms
from . import common


def check_pair_table_order(db, res):
  """R-SEQ.4 (host side, order only - the boolean filter formula itself is not decided): the array that becomes column 0 of
  m.nxn_pairid gets (a) the filter code -2 and (b) the ids of explicit <contact><pair>s. MuJoCo considers explicit pairs
  regardless of contype/conaffinity, parent-child, same-body and exclude filters, so every (a)-store must come before the
  (b)-stores in program order: a filter store after them would delete explicit pairs."""
  import ast

  fi = db.sm.func("io.put_model")
  # the table variable: first column of the hstack/stack assigned to m.nxn_pairid
  table = None
  for n in ast.walk(fi.node):
    if isinstance(n, ast.Assign) and any(isinstance(t, ast.Attribute) and t.attr == "nxn_pairid" for t in n.targets):
      names = [x.id for x in ast.walk(n.value) if isinstance(x, ast.Name) and x.id not in ("np",)]
      if names:
        table = names[0]
  if table is None:
    res.error("anchor vanished: assignment of m.nxn_pairid in io.put_model")
    return
  filt, pairs = [], []
  for n in ast.walk(fi.node):
    if isinstance(n, ast.Assign) and len(n.targets) == 1 and isinstance(n.targets[0], ast.Subscript) and isinstance(n.targets[0].value, ast.Name) and n.targets[0].value.id == table:
      v = n.value
      if isinstance(v, ast.UnaryOp) and isinstance(v.op, ast.USub) and isinstance(v.operand, ast.Constant) and v.operand.value == 2:
        filt.append(n)
      elif isinstance(v, ast.Name):
        pairs.append(n)  # the loop variable of `for i in range(mjm.npair)`
  res.ob(bool(pairs), "pair-table|explicit-pairs-written", Finding("R-SEQ.4", "io.put_model|nxn_pairid|explicit-pairs-not-written", f"no store of explicit pair ids into `{table}` found", fi.loc()))
  if not pairs:
    return
  first_pair = min(p.lineno for p in pairs)
  late = [f for f in filt if f.lineno > first_pair]
  res.ob(
    not late,
    "pair-table|filters-before-explicit-pairs",
    Finding("R-SEQ.4", "io.put_model|nxn_pairid|filter-after-explicit-pairs", f"`{table}[...] = -2` is stored after the explicit contact pairs were written into the table (line {late[0].lineno if late else 0}): the filter deletes explicit pairs, which MuJoCo always considers", f"{fi.file}:{late[0].lineno}" if late else fi.file),
    sample={"table": table, "filter_stores": len(filt), "explicit_pair_stores": len(pairs)},
  )


# ------------------------------------------------------------------------------------------------ R-GATE.8
def _tv(node, env, pair0):
  """three-valued truth of a condition when the first pair id equals `pair0` (None = unknown)"""
  if isinstance(node, ast.BoolOp):
    vals = [_tv(v, env, pair0) for v in node.values]
    if isinstance(node.op, ast.And):
      return False if any(v is False for v in vals) else (True if all(v is True for v in vals) else None)
    return True if any(v is True for v in vals) else (False if all(v is False for v in vals) else None)
  if isinstance(node, ast.UnaryOp) and isinstance(node.op, ast.Not):
    v = _tv(node.operand, env, pair0)
    return None if v is None else not v
  if isinstance(node, ast.Name) and node.id in env:
    return _tv(env[node.id], env, pair0)
  if isinstance(node, ast.Compare) and len(node.ops) == 1:
    def val(n):
      if isinstance(n, ast.Subscript) and isinstance(n.value, ast.Name) and "pairid" in n.value.id and isinstance(n.slice, ast.Constant) and n.slice.value == 0:
        return pair0
      if isinstance(n, ast.Name) and n.id in env:
        return val(env[n.id])
      try:
        c = ast.literal_eval(n)
        return c if isinstance(c, int) else None
      except Exception:
        return None
    a, b = val(node.left), val(node.comparators[0])
    if a is None or b is None:
      return None
    import operator as _op

    f = {ast.Eq: _op.eq, ast.NotEq: _op.ne, ast.Lt: _op.lt, ast.LtE: _op.le, ast.Gt: _op.gt, ast.GtE: _op.ge}.get(type(node.ops[0]))
    return f(a, b) if f else None
  return None


def check_constraint_bit_gate(sm, res) -> int:
  """R-GATE.8: broadphase pairs that MuJoCo's filter rejects keep the pair id code -2 and only reach the contact writer
  for the benefit of collision sensors. Every statement that puts ContactType.CONSTRAINT into a contact's type must sit
  under a condition that is definitely false when the first pair id is -2 (decided by three-valued evaluation of the
  enclosing `if` tests with pairid[0] := -2, single-assignment locals substituted)."""
  n = 0
  for mod in sm.modules.values():
    if mod.name.endswith("_test"):
      continue
    for fn in ast.walk(mod.tree):
      if not isinstance(fn, ast.FunctionDef):
        continue
      if not any(isinstance(a, ast.arg) and "pairid" in a.arg for a in fn.args.args):
        continue
      env = {}
      counts = {}
      for st in ast.walk(fn):
        if isinstance(st, ast.Assign) and len(st.targets) == 1 and isinstance(st.targets[0], ast.Name):
          counts[st.targets[0].id] = counts.get(st.targets[0].id, 0) + 1
          env[st.targets[0].id] = st.value
      env = {k: v for k, v in env.items() if counts[k] == 1}

      def visit(stmts, conds):
        nonlocal n
        for st in stmts:
          if isinstance(st, ast.If):
            visit(st.body, conds + [(st.test, True)])
            visit(st.orelse, conds + [(st.test, False)])
            continue
          if isinstance(st, (ast.For, ast.While, ast.With)):
            visit(st.body, conds)
            continue
          if isinstance(st, (ast.Assign, ast.AugAssign)) and "ContactType.CONSTRAINT" in ast.unparse(st.value) and not isinstance(st.value, ast.Compare):
            n += 1
            excl = any((_tv(t, env, -2) is False) if pol else (_tv(t, env, -2) is True) for t, pol in conds)
            res.ob(
              excl,
              f"{mod.name}.{fn.name}|constraint-bit|{n}",
              Finding("R-GATE.8", f"{mod.name}.{fn.name}|ContactType.CONSTRAINT|not-gated-by-filter-code", f"`{ast.unparse(st)}` marks the contact as a constraint contact under [{' and '.join(('' if pol else 'not ') + ast.unparse(t) for t, pol in conds) or 'no condition'}], which does not exclude the pair id code -2 of pairs rejected by the contype/conaffinity, same-weld-body, parent-child and exclude filters (they reach the writer only for collision sensors)", f"{mod.path}:{st.lineno}"),
              sample={"function": f"{mod.name}.{fn.name}", "statement": ast.unparse(st), "conditions": [ast.unparse(t) for t, _ in conds]},
            )

      visit(fn.body, [])
  return n


def run(db, res, tier):
  sm = db.sm
  ngate = check_constraint_bit_gate(sm, res)
  res.floor("statements setting ContactType.CONSTRAINT in pair-id aware writers (R-GATE.8)", ngate, 1)
  # (a1) NXN iterates the pre-filtered pair table and its pair ids
  nxn = [lc for lc in db.launch_ctxs() if lc.name == "collision_driver._nxn_broadphase.kernel"]
  sap = [lc for lc in db.launch_ctxs() if lc.name == "collision_driver._sap_broadphase.kernel"]
  if not nxn or not sap:
    res.error("anchor vanished: broadphase launches")
    return
  for lc in nxn:
    for p, want in (("nxn_geom_pair", "nxn_geom_pair_filtered"), ("nxn_pairid", "nxn_pairid_filtered")):
      txt = lc.scalar_binding_text(p) or ""
      res.ob(txt.endswith("." + want), f"nxn|{p}", Finding("R-GATE.13", f"collision_driver._nxn_broadphase|{p}|unfiltered-table", f"the all-pairs broadphase iterates `{txt}` instead of the pre-filtered table m.{want}: excluded / filtered pairs would produce contacts", lc.ev.loc), sample={"broadphase": "NXN", "param": p, "bound_to": txt})
  # (a2) SAP consults the pair id before emitting a pair: every store into the pair list is dominated by
  #      not (pairid[0] < -1 and pairid[1] < 0) with pairid = nxn_pairid[upper-triangular index of the two geoms]
  for lc in sap:
    ws = [a for a in lc.keval.accesses if a.is_write and a.root in ("collision_pair_out", "collision_pairid_out", "collision_worldid_out")]
    res.ob(len(ws) >= 3, "sap|pair-writes", Finding("R-GATE.13", "collision_driver._sap_broadphase|pair-writes", "pair list stores not found", lc.ev.loc))
    for a in ws:
      ok = False
      for t, pol in pc_literals(a.pc):
        cands = []
        if t.op in ("all", "and") and not pol:
          cands = [x for x in subterms(t)]
        elif t.op == "or" and pol:
          cands = [x for x in subterms(t)]
        hits = [x for x in cands if x.op == "cmp" and any(s.op == "ld" and s.args[0] == "nxn_pairid" for s in subterms(x))]
        if len(hits) >= 2:
          ok = True
      res.ob(ok, f"sap|{a.root}|excluded-pairs", Finding("R-GATE.13", f"collision_driver._sap_broadphase|{a.root}|pair-exclusion-not-consulted", "the sweep-and-prune broadphase emits a pair without testing its nxn_pairid exclusion code (pairid[0] < -1 and pairid[1] < 0)", a.loc))
    txt = lc.scalar_binding_text("nxn_pairid") or ""
    res.ob(txt.endswith(".nxn_pairid"), "sap|nxn_pairid", Finding("R-BIND.1", "collision_driver._sap_broadphase|nxn_pairid|binding", f"nxn_pairid bound to `{txt}`", lc.ev.loc))
  # (b) explicit pairs use the pair's parameters: field-family discipline per branch
  for fn in ("collision_core.contact_margin_gap", "collision_core.contact_material_params"):
    ev = kir.evaluate(sm, sm.func(fn))
    pid = T("p", "pairid")
    n = 0
    for a in ev.accesses:
      if a.kind != "r":
        continue
      fam = "pair" if a.root.startswith("pair_") else "geom" if a.root.startswith("geom_") else None
      if fam is None:
        continue
      n += 1
      lits = list(pc_literals(a.pc))
      is_pair = any(t.op == "cmp" and t.args[1] is pid and ((t.args[0] == ">" and pol) or (t.args[0] == "<=" and not pol)) for t, pol in lits)
      is_geom = any(t.op == "cmp" and t.args[1] is pid and ((t.args[0] == "<=" and pol) or (t.args[0] == ">" and not pol)) for t, pol in lits)
      ok = (fam == "pair" and is_pair) or (fam == "geom" and is_geom)
      res.ob(ok, f"{fn}|{a.root}", Finding("R-GATE.14", f"{fn}|{a.root}|wrong-parameter-family", f"`{a.root}` is read {'for an explicit pair' if is_pair else 'for a dynamically generated pair' if is_geom else 'regardless of pairid'}: explicit pairs (pairid > -1) must use pair_* parameters only, generated pairs geom_* only", a.loc), sample={"func": fn, "array": a.root, "branch": "pair" if is_pair else "geom"} if n % 5 == 1 else None)
      if fam == "pair" and len(a.idx) > 1:
        res.ob(a.idx[1] is pid, f"{fn}|{a.root}|index", Finding("R-GATE.14", f"{fn}|{a.root}|pair-index", f"`{a.root}` is indexed by `{show(a.idx[1])}`, not by the pair id", a.loc))
    res.floor(f"parameter reads in {fn.split('.')[-1]}", n, 4)
  check_pair_table_order(db, res)
  res.rule_text = "R-SEQ.4: in put_model the explicit contact pairs are written into the pair-id table after every store of the filter code (-2), so an explicit pair overrides all geom-level filters (MuJoCo always considers explicit pairs) and nothing re-filters it afterwards; R-GATE: the all-pairs broadphase iterates the pre-filtered pair tables; the sweep-and-prune broadphase tests the nxn_pairid exclusion code before every store into the pair list; in contact_margin_gap / contact_material_params explicit pairs (pairid > -1) read only pair_* parameters indexed by the pair id and generated pairs read only geom_* parameters"
  res.explanation = "Narrow structural claim. Decided on the host side: only the ORDER of the stores into the pair-id table (explicit pairs last). Not decided: the boolean formula in put_model that fills nxn_pairid (host numpy code; comparing it with a frozen formula would be a brittle text match)."
  res.extra["analysed"] = {"kernels": ["collision_driver._nxn_broadphase.kernel", "collision_driver._sap_broadphase.kernel"], "funcs": ["collision_core.contact_margin_gap", "collision_core.contact_material_params"]}
  res.assumptions += ["put_model fills nxn_pairid with MuJoCo's filter rules (contype/conaffinity, weld bodies, parent-child, excludes): not checked"]
