"""C05 - family A clauses + constraint row-class layout (R-SEQ.2)."""

from ..db import LaunchCtx
from ..report import Finding
from ..rules.world import array_key
from . import family_a

CLASS_OF = {"Data.ne": 0, "Data.nf": 1, "Data.nl": 2}
CLASS_NAME = ["equality (ne)", "friction loss (nf)", "limit (nl)", "contact"]


def check_row_class_order(db, res) -> int:
  """R-SEQ.2: the solver, the constraint update and the sensors classify a row by its position
  (`efcid < ne` equality, `< ne + nf` friction loss, then limits, then contacts). Rows get their position from an atomic
  counter in launch order, so on the trace of make_constraint every launch that allocates rows of class k must come
  before every launch that allocates rows of class k+1, and each allocating kernel bumps exactly its class counter
  together with nefc. Also: a launch that bumps a class counter always allocates from nefc in the same kernel."""
  hi = db.trace("constraint.make_constraint")
  rows = []
  for ev in hi.events:
    if ev.kind != "launch" or ev.kernel is None or not ev.arity_ok:
      continue
    lc = LaunchCtx(db, ev)
    keys = {array_key(lc, a.root) for a in lc.keval.accesses if a.kind == "atomic_add"}
    cls = sorted(CLASS_OF[k] for k in keys if k in CLASS_OF)
    if "Data.nefc" not in keys and not cls:
      continue
    rows.append((ev.seq, lc.name, cls, "Data.nefc" in keys, ev.loc))
  n = 0
  last_cls = -1
  last_name = ""
  for seq, name, cls, has_nefc, loc in rows:
    n += 1
    res.ob(len(cls) <= 1, f"{name}|one-class", Finding("R-SEQ.2", f"{name}|row-class|several-counters", f"{name} bumps several row-class counters {[CLASS_NAME[c] for c in cls]}: its rows cannot be contiguous in one class", loc))
    res.ob(has_nefc, f"{name}|allocates-nefc", Finding("R-SEQ.2", f"{name}|row-class|no-row-allocation", f"{name} bumps a row-class counter without allocating the rows from nefc in the same kernel", loc))
    k = cls[0] if cls else 3
    res.ob(
      k >= last_cls,
      f"{name}|order",
      Finding(
        "R-SEQ.2",
        f"{name}|row-class|out-of-order-after-{last_name}",
        f"{name} allocates {CLASS_NAME[k]} rows after {last_name} already allocated {CLASS_NAME[last_cls]} rows: rows are classified by position (efcid < ne, < ne+nf, ...), so these rows would be treated as the wrong constraint class by the solver",
        loc,
      ),
      sample={"launch": name, "class": CLASS_NAME[k], "order": seq},
    )
    if k >= last_cls:
      last_cls, last_name = k, name
  return n


def _extra(db, res, tier, scope):
  n = check_row_class_order(db, res)
  res.floor("row-allocating launches in make_constraint", n, 12)


def run(db, res, tier):
  family_a.run_family(db, res, tier, "C05", extra=_extra)
  from ..rules import r_live

  nrow = r_live.check_row_records_unconditional(res, db, db.launch_ctxs())
  res.floor("constraint-row record obligations (R-LIVE.5b)", nrow, 120)
  res.rule_text += "; R-LIVE.5b: every row builder that allocates constraint rows writes all eight scalar row fields (type, id, pos, margin, D, vel, aref, frictionloss) of the fresh row, none under a data-dependent condition the others lack (rows are re-used across steps)"
  res.rule_text += "; R-SEQ.2: on the trace of make_constraint the row-allocating launches are ordered equality < friction loss < limit < contact (rows are classified by position), each bumps exactly its own class counter and allocates from nefc in the same kernel"
