"""C12 - next step depends only on the integration state (R-LIVE)."""

from ..report import Finding
from ..rules import r_live
from ..rules.world import array_key
from ..tables import live_tables, mujoco_layouts
from . import common


def state_keys():
  return {f"Data.{f}" for _, f, _ in mujoco_layouts.STATE_ELEMENTS if f}


def check_live(db, res, entry, allowed_extra=()):
  hi = db.trace(entry)
  if hi.unresolved_launches:
    res.error(f"unresolved launches in {entry}: {hi.unresolved_launches[:3]}")
  live, writers, nev = r_live.live_in(db, hi)
  st = state_keys()
  n = 0
  for k, info in sorted(live.items()):
    n += 1
    if k.startswith("Model."):
      res.ob(True, f"{entry}|{k}")
      continue
    ok = k in st or k in live_tables.PERSISTENT or k in live_tables.SLEEP_STATE or k in allowed_extra
    cond = " & ".join(("" if p else "not ") + t for t, p in info["pc"])[:200]
    what = "accumulated into without being re-initialised in this call" if info["rmw"] else "read before anything in this call writes it"
    if k.startswith("temp:") or k.startswith("ctx:"):
      msg = f"scratch array {k} is {what} (first use: {info['event']} under [{cond}])"
      rule = "R-LIVE.3"
    else:
      msg = f"{k} is not integration state but {entry.split('.')[-1]}() reads the value left by earlier calls: {what} (first use: {info['event']} under [{cond}])"
      rule = "R-LIVE.1"
    res.ob(ok, f"{entry}|{k}", Finding(rule, f"{k}|{info['event']}", msg, info["loc"], {"entry": entry}), sample={"entry": entry, "live_in": k, "first_use": info["event"], "allowed": ok})
  return live, writers, nev, n


def run(db, res, tier):
  total_ev = 0
  nloop = 0
  lives = {}
  for entry in ("forward.step", "forward.forward"):
    live, writers, nev, n = check_live(db, res, entry)
    lives[entry] = sorted(live)
    total_ev += nev
    nloop += r_live.check_loop_scratch(res, db, db.trace(entry), entry)
  nflag = 0
  allowed = state_keys() | set(live_tables.PERSISTENT) | set(live_tables.SLEEP_STATE) | set(live_tables.FLAG_STALE_OK)
  for entry in ("forward.step", "forward.forward"):
    nflag += r_live.check_flag_conditioned_liveness(res, db, entry, allowed, option_enums={"integrator": "IntegratorType", "solver": "SolverType", "cone": "ConeType"})
  res.floor("flag-conditioned liveness obligations", nflag, 20)
  # tabled constants really have no kernel writer
  all_lcs = db.launch_ctxs()
  written = set()
  for lc in all_lcs:
    for a in lc.keval.accesses:
      if a.is_write:
        written.add(array_key(lc, a.root))
  for k in live_tables.CONSTANT_AFTER_MAKE_DATA:
    res.ob(k not in written, f"constant|{k}", Finding("R-LIVE.2", f"{k}|written-by-kernel", f"{k} is tabled as constant after make_data but a kernel writes it", "mujoco_warp/_src"))
  ncl = r_live.check_cleared_before_partial(res, db, ["forward.step", "forward.forward", "inverse.inverse"], live_tables.INIT_BEFORE_PARTIAL)
  res.floor("initialised-before-partial-write obligations", ncl, 55)
  nfresh = r_live.check_fresh_rows_not_read(res, db, all_lcs)
  res.floor("row/slot allocating kernels examined for reads of fresh cells", nfresh, 15)
  nslot = r_live.check_slot_records(res, db, all_lcs)
  res.floor("contact-slot record obligations", nslot, 80)
  nrow = r_live.check_row_records_unconditional(res, db, all_lcs)
  res.floor("constraint-row record obligations (R-LIVE.5b)", nrow, 120)
  from ..rules import r_global

  nst = r_global.check_object_stashes(res, db.sm)
  res.floor("modules scanned for hidden Model/Data attributes (R-GLOBAL.9)", nst, 30)
  ncomp = r_live.check_guard_complements(res, db, ["forward.forward"])
  res.floor("skip/complement-writer launch pairs (R-LIVE.9)", ncomp, 4)
  res.floor("trace events with effects", total_ev, 2500)
  res.floor("scatter-then-read instances inside host loops", nloop, 10)
  res.floor("live-in fields examined", sum(len(v) for v in lives.values()), 25)
  res.rule_text = "R-GLOBAL.9: no function hangs an attribute on a Model/Data parameter that the dataclass does not declare (no setattr / getattr-with-default / __dict__): all per-object state is declared state; R-LIVE.9: a kernel that rebuilds a per-world field but returns early for worlds whose counter is zero runs only on host paths where the tree's complement writer of that field (stores it under counter == 0, switched by a factory flag) was launched earlier with the flag implied by the path; R-LIVE: LiveIn(step) and LiveIn(forward) - array fields read (or accumulated into) by some launch/copy with no earlier possible definition in the same call - contain only Model fields, State.INTEGRATION fields, tabled sticky diagnostics / make_data constants and (with sleeping enabled) the persistent sleep state; scratch temporaries are never read before definition; R-LIVE.8: a kernel never reads a cell of a constraint row / contact slot it has just allocated from the atomic counter before writing it; R-LIVE.7: every field that today's tree clears on the host before launches of the same function accumulate into it or write it partially (tabled reference, 107 pairs: host fills, initialising allocations and initialising launches) still has a dominating full definition; R-LIVE.6: for each single disable/enable flag, each flag pair tested together and each member of the integrator / solver / cone option enums, no read of a non-state Data field stays reachable (three-valued evaluation of host path conditions) while every earlier definition of the field in the same call becomes unreachable; R-LIVE.5b: every row builder writes all eight scalar fields of a freshly allocated constraint row unconditionally; R-LIVE.5: every kernel that allocates a slot of the flat contact buffer (re)defines every Contact field of the slot over its full trailing extent (slots are re-used across steps); R-LIVE.4: an array filled by sparse-column scatter (index loaded from a *colind field) and read densely later in the same iteration of a host loop (solver iterations, RK4 stages) is cleared inside the iteration before the scatter"
  res.explanation = (
    "Field-level def-use over the ordered host effect trace of step()/forward() (every launch resolved to its kernel's own read/write sets, launch-time literal arguments pruning dead branches). "
    "A may-define counts as a kill, so the analysis under-reports; every reported field is a definite read of a value that the call did not produce. "
    "Not decided: partial staleness inside arrays that are partly rewritten (rows >= nefc)."
  )
  res.extra["live_in"] = lives
  res.extra["tables_used"] = {"PERSISTENT": live_tables.PERSISTENT, "SLEEP_STATE": live_tables.SLEEP_STATE, "FLAG_STALE_OK": live_tables.FLAG_STALE_OK}
  res.extra["analysed"] = {"entries": ["forward.step", "forward.forward"], "effect_events": total_ev}
  res.assumptions += ["sleep state (tree_asleep etc.) is persistent by design; C12's verdict covers models with sleeping disabled", "user callbacks are not modelled"]
