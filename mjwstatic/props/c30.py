"""C30 - delayed controls / sensors: history buffer layout and initialisation clauses (R-LAYOUT)."""

from __future__ import annotations

from ..hostir import HostInterp
from ..report import Finding
from ..rules.world import array_key
from ..terms import T, affine, affine_alternatives, show, subterms
from . import common

ADR = {"Model.actuator_historyadr": "actuator", "Model.sensor_historyadr": "sensor"}
NSAMP = {"Model.actuator_history": "actuator", "Model.sensor_history": "sensor"}
WRITERS_OK = ("history.",)


def _fname(lc, root):
  spec = lc.field(root)
  return f"{spec.owner}.{spec.path}" if spec is not None else ""


def _mask_phi_summands(t):
  """Replace every phi reached through +, - and int() casts by an opaque position atom (its inner constants are wrap
  arithmetic); everything else is kept, so the affine normal form of the result has the constants of the static base."""
  if isinstance(t, T):
    if t.op == "phi":
      return T("pos", t)
    if t.op == "bin" and t.args[0] in ("+", "-"):
      return T("bin", t.args[0], _mask_phi_summands(t.args[1]), _mask_phi_summands(t.args[2]))
    if t.op == "call" and t.args[0] in ("int", "wp.int32", "wp.int64") and len(t.args) == 2:
      return _mask_phi_summands(t.args[1])
  return t


def run(db, res, tier):
  n = 0
  kernels = set()
  # the state (de)serialisers move the whole buffer; they are identified by the launches of the public entry points,
  # not by name (moving the kernel into a helper keeps its role)
  WHOLE_BUFFER = {lc.fi.key for e in ("support.get_state", "support.set_state") for lc in db.trace_launch_ctxs(e)}
  if len(WHOLE_BUFFER) < 2:
    res.error(f"anchor vanished: state (de)serialiser kernels {sorted(WHOLE_BUFFER)}")
  set_state_kernels = {lc.fi.key for lc in db.trace_launch_ctxs("support.set_state")}
  for lc in db.launch_ctxs():
    for a in lc.keval.accesses:
      if array_key(lc, a.root) != "Data.history" or len(a.idx) < 2:
        continue
      if lc.name in WHOLE_BUFFER:
        continue
      n += 1
      kernels.add(lc.name)
      cons = f"{lc.name}|history|{a.kind[0]}"
      form = f"history[{show(a.idx[1])[:80]}]"
      ok, why = True, ""
      af = None
      ns = []
      # The index is split into a static base (constants, *_historyadr loads, sample counts n) and ring positions.
      # A phi SUMMAND (`values_offset + phys_lo`, phys_lo = p-1 or p-1+n) is a position: constants and multiples of n
      # inside it belong to the wrap-around arithmetic, not to the section base. When the WHOLE index is a phi (an
      # address hoisted out of a branch, `adr_lo = adr_hi - dim (+ n*dim)`) base and wrap constants cannot be told
      # apart: every alternative is still required to be based at one *_historyadr, its section constant is not decided.
      masked = affine(_mask_phi_summands(a.idx[1]))
      # the base itself sits inside a phi (hoisted address, possibly `+ d` afterwards): fall back to the alternatives
      top_phi = not any(atom.op == "ld" and _fname(lc, atom.args[0]) in ADR for atom in masked.coef)
      alts = affine_alternatives(a.idx[1]) if top_phi else [masked]
      for af in alts:
        offs, ns, rest = [], [], []
        for atom, c in af.coef.items():
          if atom.op == "ld" and _fname(lc, atom.args[0]) in ADR:
            offs.append((atom, c))
          elif atom.op == "idx" and isinstance(atom.args[0], T) and atom.args[0].op == "ld" and _fname(lc, atom.args[0].args[0]) in NSAMP and atom.args[1:] == (T("c", 0),):
            ns.append((atom, c))
          else:
            rest.append((atom, c))
        ok = len(offs) == 1 and offs[0][1] == 1
        why = "the index is not based at exactly one *_historyadr[element]" if not ok else ""
        if ok:
          off = offs[0][0]
          fam = ADR[_fname(lc, off.args[0])]
          elem = off.args[1:]
          if len(ns) > 1 or (ns and (ns[0][1] < 1 or NSAMP[_fname(lc, ns[0][0].args[0].args[0])] != fam or ns[0][0].args[0].args[1:] != elem)):
            ok, why = False, "the sample count n is not the same element's *_history[element][0]"
          elif top_phi:
            pass
          elif ns and ns[0][1] != 1:
            ok, why = False, "the sample count n is not the same element's *_history[element][0] with coefficient 1"
          elif af.const not in (0, 1, 2):
            ok, why = False, f"constant offset {af.const} is not one of user(+0) / cursor(+1) / times(+2)"
          elif af.const in (0, 1) and (ns or rest):
            ok, why = False, f"the {'user' if af.const == 0 else 'cursor'} slot is a single cell at +{af.const}; extra terms {[show(x)[:30] for x, _ in ns + rest]}"
          elif ns and af.const != 2:
            ok, why = False, f"values start at +2+n, found +{af.const}+n"
          elif any(c < 0 for _, c in rest):
            ok, why = False, "negative offset term"
        if not ok:
          break
      if ok and top_phi and len(alts) > 1:
        # hoisted wrap-around: two alternatives of one address differ by the ring size in ADDRESS units. In a section whose
        # position is scaled by a per-sample stride (`p * dim`) the ring is n*dim cells long, so a difference of a bare n
        # wraps into the middle of the section (wrong sample / component).
        def _is_n(x):
          return isinstance(x, T) and x.op == "idx" and isinstance(x.args[0], T) and x.args[0].op == "ld" and _fname(lc, x.args[0].args[0]) in NSAMP
        strided = any(isinstance(x, T) and x.op == "bin" and x.args[0] == "*" and not any(_is_n(y) for y in x.args[1:]) for x in alts[0].coef)
        for other in alts[1:]:
          diff = other - alts[0]
          if strided and diff.const == 0 and diff.coef and all(_is_n(x) for x in diff.coef):
            ok, why = False, "wrap-around steps by n cells in a section addressed with a per-sample stride (ring size is n*stride)"
            break
      res.ob(ok, cons, Finding("R-LAYOUT.8", f"{lc.name}|history-index|{why[:60]}", f"{form}: {why}. Expected one of off+0 (user), off+1 (cursor), off+2+p (times), off+2+n+p*dim+d (values)", a.loc), sample={"kernel": lc.name, "const": af.const, "n_coef": ns[0][1] if ns else 0, "kind": a.kind} if n % 25 == 1 else None)
      if a.is_write:
        res.ob(lc.name.startswith(WRITERS_OK) or lc.name in set_state_kernels, f"{lc.name}|history-writer", Finding("R-LAYOUT.9", f"{lc.name}|history|unexpected-writer", "Data.history is written outside history.py / set_state", a.loc))
  res.floor("history accesses", n, 150)
  res.floor("history kernels", len(kernels), 7)
  # step path and the public readers use the same read functions
  for k in ("history._read_ctrl_delayed_kernel", "history._read_ctrl_kernel"):
    lcs = [lc for lc in db.launch_ctxs() if lc.name == k]
    res.ob(bool(lcs) and any(c.startswith("history._history_read") for lc in lcs for c in lc.keval.calls), f"{k}|read-func", Finding("R-LAYOUT.10", f"{k}|shared-read-function", "delayed control reads do not go through the shared _history_read_* functions", "mujoco_warp/_src/history.py"))
  # sibling initialisers: a fresh Data must start with an initialised buffer (put_data copies MuJoCo's; make_data must initialise)
  for fn in ("io.make_data", "io.put_data"):
    hi = HostInterp(db.sm)
    hi.run(fn)
    touched = False
    for e in hi.events:
      txt = " ".join([e.name or ""] + [x.text for x in (e.dst, e.src) if x is not None])
      if e.kind in ("launch", "hostwrite", "copy", "setattr", "alloc") and "history" in txt and "history" in (e.name or txt):
        if e.kind == "launch" and "init_" in e.name:
          touched = True
        if e.kind in ("hostwrite", "copy", "setattr") and ("mjd.history" in txt or "history" in (e.src.text if e.src is not None else "")):
          touched = True
    src = db.sm.func(fn)
    import ast

    txtsrc = ast.unparse(src.node)
    # put_data copies every same-named MjData field generically (getattr(mjd, name) over the Data schema)
    generic_copy = "getattr(mjd," in txtsrc.replace(" ", "").replace("getattr(mjd,", "getattr(mjd,") and "mjd" in [a.arg for a in src.node.args.args]
    init = "init_ctrl_history" in txtsrc or "init_sensor_history" in txtsrc or "mjd.history" in txtsrc or generic_copy
    res.ob(init, f"{fn}|history-init", Finding("R-LAYOUT.11", f"{fn}|history|not-initialised", f"{fn.split('.')[-1]}() allocates Data.history but neither copies MuJoCo's initialised buffer nor runs the history initialisers: delay/interval buffers start as zeros (MuJoCo starts with cursor, time stamps and interval phase set)", src.loc()))
  res.rule_text = "R-LAYOUT: every access to Data.history (resolved by binding, through inlined read/insert functions) has, in affine normal form over the element's history address off and sample count n, one of the canonical forms off+0, off+1, off+2+p, off+2+n+p*dim+d with off and n taken from the same element's tables; history is written only by history.py and set_state; make_data/put_data initialise the buffer"
  res.explanation = "Decides the layout and initialisation clauses of C30. Not decided: interpolation arithmetic, binary-search correctness."
  res.extra["analysed"] = {"history_kernels": sorted(kernels), "accesses": n}
  res.assumptions += ["MuJoCo's per-element history layout [user, cursor, times[n], values[n*dim]]"]
