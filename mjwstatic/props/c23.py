"""C23 - rotations stay valid: normalisation barrier (R-GATE must-pass-through)."""

from __future__ import annotations

from .. import kir
from ..db import LaunchCtx
from ..report import Finding
from ..rules.world import array_key
from ..terms import T, alternatives, pc_literals, show, subterms
from . import common

MARK = {"math.quat_to_mat", "math.quat_integrate", "math.mul_quat"}
ORIENT_MATS = ("Data.xmat", "Data.ximat", "Data.geom_xmat", "Data.site_xmat", "Data.cam_xmat")
# tabled: camera look-at frames are assembled from normalised cross products (numeric; not decided here)
LOOKAT = {("smooth._cam_local_to_global", "Data.cam_xmat")}


def _rooted(t: T, name: str) -> bool:
  return isinstance(t, T) and t.op == "call" and t.args[0] == name


def value_leaves(t):
  """Array loads that contribute *values* to t (loads used only inside indices of other loads are not values)."""
  out, seen, stack = [], set(), [t]
  while stack:
    x = stack.pop()
    if not isinstance(x, T) or x in seen:
      continue
    seen.add(x)
    if x.op == "ld":
      out.append(x)
      continue
    stack.extend(a for a in x.args if isinstance(a, T))
  return out


def _strip_ret(t):
  while isinstance(t, T) and t.op == "ret":
    t = t.args[1]
  return t


def run(db, res, tier):
  sm = db.sm
  # quat_integrate returns a normalised quaternion on every path
  qi = kir.evaluate(sm, sm.func("math.quat_integrate"))
  for pc, v in qi.returns:
    res.ob(all(_rooted(x, "wp.normalize") for x in alternatives(v)), "quat_integrate|returns-normalised", Finding("R-NORM.1", "math.quat_integrate|return", f"quat_integrate returns `{show(v)[:80]}` which is not wp.normalize(...)", qi.entry.loc()))
  res.floor("quat_integrate returns", len(qi.returns), 1)
  scope = common.scope_from_entries(db, ["forward.step"], res)
  nq = nx = nm = 0
  seen = set()
  for lc0 in scope:
    keys = {array_key(lc0, a.root) for a in lc0.keval.accesses if a.is_write}
    if not (keys & ({"Data.qpos", "Data.xquat"} | set(ORIENT_MATS))):
      continue
    if lc0.name in seen:
      continue
    seen.add(lc0.name)
    ke = kir.evaluate(sm, lc0.fi, lc0.kv.static_vals, None, None, mark_returns=MARK)
    lc = lc0
    for a in ke.accesses:
      if not a.is_write:
        continue
      key = array_key(lc, a.root)
      if key == "Data.qpos":
        lits = list(pc_literals(a.pc))
        jt = None
        for t, pol in lits:
          if pol and t.op == "cmp" and t.args[0] == "==" and isinstance(t.args[2], T) and t.args[2].op == "enum" and t.args[2].args[0] == "JointType":
            jt = t.args[2].args[1]
        off = None
        if len(a.idx) > 1:
          from ..terms import affine

          af = affine(a.idx[1])
          off = af.const
        quat_slot = (jt == "FREE" and off is not None and off >= 3) or (jt == "BALL")
        if quat_slot:
          nq += 1
          v = a.value
          ok = isinstance(v, T) and v.op == "idx" and isinstance(v.args[0], T) and v.args[0].op == "ret" and v.args[0].args[0] == "math.quat_integrate" and _rooted(_strip_ret(v.args[0]), "wp.normalize")
          res.ob(ok, f"{lc.name}|qpos|{jt}+{off}", Finding("R-NORM.2", f"{lc.name}|qpos|{jt}|quaternion-not-normalised", f"the {jt} joint quaternion component stored at qpos[adr+{off}] is `{show(v)[:90]}`, not a component of the normalised result of quat_integrate", a.loc), sample={"kernel": lc.name, "slot": f"{jt}+{off}", "value": show(v)[:80]} if nq % 4 == 1 else None)
      elif key == "Data.xquat":
        nx += 1
        ok = all(_rooted(_strip_ret(x), "wp.normalize") for x in alternatives(a.value))
        res.ob(ok, f"{lc.name}|xquat|{a.loc.split(':')[-1]}", Finding("R-NORM.3", f"{lc.name}|xquat|not-normalised", f"xquat is stored as `{show(a.value)[:90]}` without wp.normalize", a.loc))
      elif key in ORIENT_MATS:
        for x in alternatives(a.value):
          nm += 1
          if isinstance(x, T) and x.op == "ret" and x.args[0] == "math.quat_to_mat":
            leaves = value_leaves(x)
            bad = []
            for s in leaves:
              spec = lc.field(s.args[0])
              nmf = f"{spec.owner}.{spec.path}" if spec is not None else s.args[0]
              if not (nmf == "Data.xquat" or (nmf.startswith("Model.") and "quat" in nmf)):
                bad.append(nmf)
            res.ob(not bad, f"{lc.name}|{key}|quat_to_mat", Finding("R-NORM.4", f"{lc.name}|{key}|non-unit-source", f"{key} = quat_to_mat(...) of quaternions built from {sorted(set(bad))}, which are not normalised fields", a.loc))
          elif isinstance(x, T) and x.op == "ld" and lc.field(x.args[0]) is not None and lc.field(x.args[0]).owner == "Model" and "mat" in lc.field(x.args[0]).path:
            res.ob(True, f"{lc.name}|{key}|model-matrix")
          elif (lc.name, key) in LOOKAT:
            res.ob(True, f"{lc.name}|{key}|look-at(tabled)")
          else:
            res.ob(False, f"{lc.name}|{key}|other", Finding("R-NORM.4", f"{lc.name}|{key}|not-from-quat_to_mat", f"{key} is stored as `{show(x)[:90]}`, not quat_to_mat of a unit quaternion", a.loc))
  from ..rules import r_norm

  nsq = r_norm.check_state_quats_normalised(res, db.launch_ctxs())
  res.floor("quaternions assembled from qpos (R-NORM.5)", nsq, 8)
  res.floor("quaternion slots of qpos", nq, 8)
  res.floor("xquat stores", nx, 2)
  res.floor("orientation matrix stores", nm, 6)
  res.rule_text = "R-NORM.5: every quaternion assembled from four qpos loads passes through wp.normalize before any other use (all kernels); R-NORM (must-pass-through): every quaternion component stored into qpos by the integrators is a component of the normalised result of quat_integrate (whose every return is wp.normalize(...)); every store to xquat is wp.normalize(...); every orientation matrix (xmat, ximat, geom_xmat, site_xmat, cam_xmat) is quat_to_mat of quaternions assembled only from xquat and Model quaternions, or a Model reference matrix"
  res.explanation = "Decides the first clause of C23 structurally (unit norm is re-established by a normalisation barrier on every path, for any input state). Not decided: drift magnitude, unit norm of Model quaternions (MuJoCo compiler invariant), the camera look-at frame (numeric)."
  res.extra["analysed"] = {"kernels_examined": sorted(seen)}
  res.assumptions += ["Model quaternions (body_quat, body_iquat, geom_quat, site_quat, cam_quat, ...) are unit (MuJoCo compiler)", "wp.normalize returns a unit vector for non-zero input"]
