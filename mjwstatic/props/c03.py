"""C03 - family A clauses + range-limited outputs are stored as the clamp result (R-CLAMP)."""

from ..rules import r_clamp
from ..tables import clamp_tables
from . import family_a


def _extra(db, res, tier, scope):
  n = r_clamp.check_clamp_last(res, scope, clamp_tables.CLAMP_LAST, "C03")
  res.floor("clamp-last obligations", n, 4)


def run(db, res, tier):
  family_a.run_family(db, res, tier, "C03", extra=_extra)
  res.rule_text += "; R-CLAMP: qfrc_actuator (jnt_actfrcrange) and the advanced activation (actuator_actrange) are stored as the clamp result itself - nothing is added after the clamp"
