"""C03 - family A clauses + range-limited outputs are stored as the clamp result (R-CLAMP) + parameter-family
discipline of the gain/bias type dispatch (R-FAMILY)."""

import ast

from ..report import Finding
from ..rules import r_clamp
from ..srcmodel import unparse
from ..tables import clamp_tables
from . import family_a

# (dispatch enum, member) -> parameter family the branch must NOT read. GainType.X computes the gain from gainprm,
# BiasType.X computes the bias from biasprm; the shared member names (AFFINE, MUSCLE) are where the two are mixed up
# unnoticed (the <muscle> and <position>/<velocity> shortcuts write identical or complementary gainprm/biasprm).
# DCMOTOR is a genuinely shared parameter block (the bias branch reads R, K from gainprm): tabled, not checked.
FAMILY_FORBIDDEN = {
  ("GainType", "FIXED"): "biasprm",
  ("GainType", "AFFINE"): "biasprm",
  ("GainType", "MUSCLE"): "biasprm",
  ("BiasType", "AFFINE"): "gainprm",
  ("BiasType", "MUSCLE"): "gainprm",
}
FAMILY_FUNCS = ("forward._actuator_force", "derivative._qderiv_actuator_passive_vel")


def check_param_families(db, res) -> int:
  n = 0
  for key in FAMILY_FUNCS:
    fi = db.sm.func(key)
    for node in ast.walk(fi.node):
      if not isinstance(node, ast.If):
        continue
      t = node.test
      members = []
      for c in ast.walk(t):
        if isinstance(c, ast.Compare) and len(c.ops) == 1 and isinstance(c.ops[0], ast.Eq):
          for side in (c.left, c.comparators[0]):
            if isinstance(side, ast.Attribute) and isinstance(side.value, ast.Name) and (side.value.id, side.attr) in FAMILY_FORBIDDEN:
              members.append((side.value.id, side.attr))
      for enum, mem in members:
        forbidden = FAMILY_FORBIDDEN[(enum, mem)]
        n += 1
        bad = [x for st in node.body for x in ast.walk(st) if isinstance(x, ast.Name) and forbidden in x.id]
        res.ob(
          not bad,
          f"{key}|{enum}.{mem}|family",
          Finding(
            "R-FAMILY.1",
            f"{key}|{enum}.{mem}|reads-{forbidden}",
            f"the {enum}.{mem} branch of {key} reads `{bad[0].id if bad else ''}`: the {'gain' if enum == 'GainType' else 'bias'} of type {mem} is a function of {'gainprm' if enum == 'GainType' else 'biasprm'} only (MuJoCo); models whose gainprm and biasprm differ get a wrong actuator force",
            f"{fi.file}:{bad[0].lineno}" if bad else fi.file,
          ),
          sample={"function": key, "branch": f"{enum}.{mem}", "must_not_read": forbidden},
        )
  return n


def _extra(db, res, tier, scope):
  n = r_clamp.check_clamp_last(res, scope, clamp_tables.CLAMP_LAST, "C03")
  res.floor("clamp-last obligations", n, 4)
  nr = r_clamp.check_returns_clamped(res, db.sm, clamp_tables.RETURNS_CLAMPED, "C03")
  res.floor("returns of next_act examined (R-CLAMP.3)", nr, 2)
  nf = check_param_families(db, res)
  res.floor("gain/bias branch family obligations", nf, 6)


def run(db, res, tier):
  family_a.run_family(db, res, tier, "C03", extra=_extra)
  res.rule_text += "; R-CLAMP.3: every return of support.next_act that is not on the DynType.USER path carries the clamp to actuator_actrange; R-CLAMP: qfrc_actuator (jnt_actfrcrange) and the advanced activation (actuator_actrange) are stored as the clamp result itself - nothing is added after the clamp; R-FAMILY: the GainType.FIXED/AFFINE/MUSCLE branches of the actuator force law and of its velocity derivative read no biasprm, the BiasType.AFFINE/MUSCLE branches read no gainprm"
