"""C38 - compacted active-DOF solve (structural clauses): NVMAX detection, frozen DOFs get zero,
gather/scatter use the compaction maps as inverse pairs."""

from __future__ import annotations

from ..db import LaunchCtx
from ..report import Finding
from ..rules.world import array_key
from ..terms import T, pc_literals, show, subterms
from . import common


def _lc(db, key):
  out = [lc for lc in db.launch_ctxs() if lc.name == key]
  if not out:
    from ..srcmodel import AnalysisError

    raise AnalysisError(f"anchor vanished: launch of {key}")
  return out


def _loop_bounded(lc, t, cap) -> bool:
  """t == base + j with j a `for j in range(min(.., cap - base))` loop variable: base + j < cap by the loop bound."""
  from ..terms import alternatives, same_affine

  if not (isinstance(t, T) and t.op == "bin" and t.args[0] == "+"):
    return False
  for base, j in ((t.args[1], t.args[2]), (t.args[2], t.args[1])):
    if not (isinstance(j, T) and j.op == "lv"):
      continue
    info = lc.keval.loops.get(j.args[0])
    if not info or info.get("kind") != "for":
      continue
    for hi in alternatives(info["hi"]):
      if isinstance(hi, T) and hi.op == "call" and hi.args[0] in ("wp.min", "min"):
        for x in hi.args[1:]:
          if not isinstance(x, T):
            continue
          # `cap - base`, possibly floored at zero: `max(cap - base, 0)` (an empty range either way once base >= cap)
          if x.op == "call" and x.args[0] in ("wp.max", "max") and len(x.args) == 3:
            x = next((y for y in x.args[1:] if not (isinstance(y, T) and y.op == "c" and y.args[0] == 0)), x)
          if isinstance(x, T) and same_affine(x, T("bin", "-", cap, base)):
            return True
  return False


def _check_not_saturated(res, lc, counter_names, cap_name):
  import ast

  fn = lc.fi.node
  parents = {}
  for n in ast.walk(fn):
    for c in ast.iter_child_nodes(n):
      parents[c] = n

  def mentions(node, name):
    return any(isinstance(x, ast.Name) and x.id == name for x in ast.walk(node))

  def guards(node):
    """tests of the enclosing ifs (and whiles) up to the function"""
    out = []
    while node in parents:
      par = parents[node]
      if isinstance(par, (ast.If, ast.While)) and node is not par.test:
        out.append(par)
      node = par
    return out

  incs = [n for n in ast.walk(fn) if isinstance(n, (ast.AugAssign, ast.Assign)) and any(isinstance(t, ast.Name) and t.id in counter_names for t in ([n.target] if isinstance(n, ast.AugAssign) else n.targets)) and not (isinstance(n, ast.Assign) and isinstance(n.value, ast.Call) and not n.value.args == [] and isinstance(n.value.args[0], ast.Constant))]
  incs = [n for n in incs if any(isinstance(p, (ast.For, ast.While)) for p in _ancestors(parents, n))]
  res.ob(bool(incs), "compact|counter-increments", Finding("R-CAP.3", f"{lc.name}|counter|no-increment", f"no loop increment of the demand counter {sorted(counter_names)} found", lc.ev.loc))
  for inc in incs:
    bad = [g for g in guards(inc) if mentions(g.test, cap_name)]
    res.ob(
      not bad,
      f"compact|increment-unconditional|{inc.lineno - fn.lineno}",
      Finding("R-CAP.3", f"{lc.name}|counter|saturating-increment", f"the demand counter is only incremented under a test on the capacity `{cap_name}` (line {bad[0].lineno if bad else 0}): it saturates, so `count > {cap_name}` cannot detect the overflow", f"{lc.fi.file}:{inc.lineno}"),
    )
    loops = [p for p in _ancestors(parents, inc) if isinstance(p, (ast.For, ast.While))]
    for lp in loops:
      for x in ast.walk(lp):
        if isinstance(x, (ast.Break, ast.Return)) or (isinstance(x, ast.Continue)):
          gs = [g for g in guards(x) if mentions(g.test, cap_name) and any(g is y for y in ast.walk(lp))]
          res.ob(
            not gs,
            f"compact|loop-exit|{x.lineno - fn.lineno}",
            Finding("R-CAP.3", f"{lc.name}|counter|capacity-conditioned-exit", f"a loop that increments the demand counter is left (`{type(x).__name__.lower()}`) under a test on the capacity `{cap_name}`: demand beyond the capacity is no longer counted, so the NVMAX overflow bit is not raised when the capacity is reached exactly", f"{lc.fi.file}:{x.lineno}"),
          )
      if isinstance(lp, ast.While):
        res.ob(not mentions(lp.test, cap_name), f"compact|while-cond|{lp.lineno - fn.lineno}", Finding("R-CAP.3", f"{lc.name}|counter|capacity-conditioned-loop", f"the counting loop's condition tests the capacity `{cap_name}`", f"{lc.fi.file}:{lp.lineno}"))


def _ancestors(parents, n):
  out = []
  while n in parents:
    n = parents[n]
    out.append(n)
  return out


def check_compaction(db, res):
  """Sequential DOF compaction: guarded map writes, NVMAX bit on the same counter, ncdof clamped."""
  # (1) sequential compaction: slot writes guarded by count < nvmax, overflow bit from the same count, ncdof clamped
  lc = _lc(db, "island._compact_dofs")[0]
  acc = lc.keval.accesses
  nv = T("p", "nvmax_in")
  bound_ok = (lc.scalar_binding_text("nvmax_in") or "").endswith(".nvmax")
  res.ob(bound_ok, "compact|nvmax-binding", Finding("R-BIND.1", "island._compact_dofs|nvmax_in|binding", f"nvmax_in bound to `{lc.scalar_binding_text('nvmax_in')}`", lc.ev.loc))
  for root in ("dof_cdof_out", "cdof_dof_out"):
    ws = [a for a in acc if a.is_write and a.root == root]
    res.ob(bool(ws), f"compact|{root}|written", Finding("R-CAP.1", f"island._compact_dofs|{root}|missing", f"{root} is not written", lc.ev.loc))
    for a in ws:
      guards = [t for t, pol in pc_literals(a.pc) if pol and t.op == "cmp" and t.args[0] == "<" and t.args[2] is nv]
      bounded = a.idx[1] if root == "cdof_dof_out" else a.value  # the compact index that must stay below nvmax
      g_ok = (bool(guards) and any(g.args[1] is bounded for g in guards)) or _loop_bounded(lc, bounded, nv)
      res.ob(g_ok, f"compact|{root}|guard", Finding("R-CAP.1", f"island._compact_dofs|{root}|unguarded", f"`{root}` is written without the guard `count < nvmax` on the compact index (`{show(a.idx[1])}` / `{show(a.value)}`)", a.loc), sample={"array": root, "guard": [show(g) for g in guards]})
  ovf = [a for a in acc if a.is_write and lc.field(a.root) is not None and lc.field(a.root).flat == "overflow"]
  ok_ovf = False
  count_term = None
  for a in ovf:
    if any(s.op == "enum" and s.args[1] == "NVMAX" for s in subterms(a.value)):
      for t, pol in pc_literals(a.pc):
        if pol and t.op == "cmp" and t.args[0] == ">" and t.args[2] is nv:
          ok_ovf = True
          count_term = t.args[1]
  res.ob(ok_ovf, "compact|nvmax-bit", Finding("R-CAP.3", "island._compact_dofs|overflow|NVMAX", "the NVMAX overflow bit is not set under `count > nvmax`", lc.ev.loc))
  if count_term is not None:
    # the detector's count is the same running count that indexes the maps (not a clamped copy)
    ws = [a for a in acc if a.is_write and a.root == "cdof_dof_out"]
    same = any(set(subterms(a.idx[1])) & set(subterms(count_term)) for a in ws)
    res.ob(same, "compact|same-counter", Finding("R-CAP.3", "island._compact_dofs|overflow|different-counter", "the NVMAX detector tests a different counter than the one that indexes the compaction maps", lc.ev.loc))
    # (1b) the running count is a *demand* counter: it must keep counting past the capacity, otherwise `count > nvmax`
    # can never hold when the demand stops exactly at (or is cut off at) the capacity. Syntactic, on the kernel's AST:
    # no increment of the counter and no exit of a loop that contains one is conditioned on the capacity.
    names = {s.args[1] for s in subterms(count_term) if s.op == "carried"}
    _check_not_saturated(res, lc, names, "nvmax_in")
  nc = [a for a in acc if a.is_write and a.root == "ncdof_out"]
  clamp_ok = any(a.value is nv for a in nc) and len(nc) >= 2
  if not clamp_ok:
    # the same clamp as one expression: ncdof = min(count, nvmax)
    clamp_ok = any(isinstance(a.value, T) and a.value.op == "call" and a.value.args[0] in ("wp.min", "min") and any(x is nv for x in a.value.args[1:]) and not a.pc for a in nc)
  res.ob(clamp_ok, "compact|ncdof-clamp", Finding("R-CAP.4", "island._compact_dofs|ncdof|clamp", "ncdof is not clamped to nvmax on overflow (readers use it as a loop bound)", lc.ev.loc))


def _cleared_before(db, lc, root) -> bool:
  """on the forward() trace, every launch of this kernel is preceded - on a dominating path, inside the same function - by a
  full definition (host fill / copy, or an unconditional own-index store) of the array bound to `root`"""
  from .. import effects
  from ..rules import r_live

  hi = db.trace("forward.forward")
  effs = effects.trace_effects(db, hi)
  found = False
  for j, e in enumerate(effs):
    if e.ev.kind != "launch" or e.lc is None or e.lc.name != lc.name:
      continue
    hv = e.lc.binding.get(root)
    keys = effects._keys(hv) if hv is not None else []
    if len(keys) != 1:
      return False
    k = keys[0]
    fn = e.ev.stack[-1] if e.ev.stack else None
    if not any(i < j and fn in d.ev.stack and r_live._is_full_def(d, k) and set(d.ev.pc) <= set(e.ev.pc) for i, d in enumerate(effs)):
      return False
    found = True
  return found


def run(db, res, tier):
  check_compaction(db, res)

  # (2) scatter kernels: every output has a value write under ci >= 0 and a zero write under ci < 0
  n_sc = 0
  for key, maproot in (("solver._scatter_dof_vecs", "dof_cdof_in"), ("solver._scatter_solution", "dof_cdof_in")):
    for lc in _lc(db, key)[:1]:
      outs = {}
      for a in lc.keval.accesses:
        if a.is_write:
          outs.setdefault(a.root, []).append(a)
      for root, ws in outs.items():
        n_sc += 1
        ci = T("ld", maproot, T("tid", 0), T("tid", 1))
        zero = [a for a in ws if isinstance(a.value, T) and a.value.op == "c" and a.value.args[0] == 0.0 and any(t.op == "cmp" and t.args[0] == "<" and t.args[1] is ci and pol for t, pol in pc_literals(a.pc))]
        val = [a for a in ws if isinstance(a.value, T) and a.value.op == "ld" and ci in a.value.args[1:] and any(t.op == "cmp" and t.args[0] == ">=" and t.args[1] is ci and pol for t, pol in pc_literals(a.pc))]
        own = all(a.idx[:2] == (T("tid", 0), T("tid", 1)) for a in ws)
        res.ob(bool(zero) and bool(val) and own, f"{key}|{root}", Finding("R-GATE.11", f"{key}|{root}|frozen-dof-not-zeroed", f"`{root}` is not written as x_c[world, dof_cdof[world, i]] for active dofs and 0.0 for frozen ones (dof_cdof < 0)", ws[0].loc), sample={"kernel": key, "out": root, "value_writes": len(val), "zero_writes": len(zero)})
  res.floor("scatter outputs", n_sc, 3)

  # (3) gather kernels read full-space vectors through cdof_dof and write the compact slot of the thread
  g_roots = set()
  for key in ("solver._gather_dof_vecs_compact", "solver._gather_rhs_compact"):
    for lc in _lc(db, key)[:1]:
      dof = T("ld", "cdof_dof_in", T("tid", 0), T("tid", 1))
      for a in lc.keval.accesses:
        if not a.is_write:
          continue
        g_roots.add((key, a.root))
        v = a.value
        okv = isinstance(v, T) and ((v.op == "ld" and v.args[1:] == (T("tid", 0), dof)) or (v.op == "c" and v.args[0] == 0.0))
        oki = a.idx[:2] == (T("tid", 0), T("tid", 1))
        if not (okv and oki):
          # scatter form of the same map: thread i of the full space writes slot ci = dof_cdof[world, i] (ci >= 0). The
          # slots no active dof maps to are not touched, so the array must be fully (re)defined earlier in the same call.
          ci = T("ld", "dof_cdof_in", T("tid", 0), T("tid", 1))
          form = len(a.idx) >= 2 and a.idx[0] is T("tid", 0) and a.idx[1] is ci and isinstance(v, T) and v.op == "ld" and v.args[1:] == (T("tid", 0), T("tid", 1)) and any(t.op == "cmp" and t.args[0] == ">=" and t.args[1] is ci and pol for t, pol in pc_literals(a.pc))
          bound = lc.host("dof_cdof_in")
          form = form and bound is not None and bound.text.endswith(".dof_cdof")
          if form and _cleared_before(db, lc, a.root):
            okv = oki = True
        res.ob(okv and oki, f"{key}|{a.root}", Finding("R-GATE.12", f"{key}|{a.root}|gather-map", f"`{a.root}[{', '.join(show(i) for i in a.idx)}] = {show(v)[:60]}` does not gather x[world, cdof_dof[world, ci]] into compact slot ci", a.loc))
  res.floor("gathered compact vectors", len(g_roots), 4)
  # (4) the compact workspace is rebuilt from scratch on every solve: the compacted Jacobian is cleared before the gather
  # writes the active columns (columns vacated when the active set shrinks must not keep stale entries)
  from ..rules import r_live
  from ..tables import live_tables

  tab = {(f, k) for f, k in live_tables.CLEARED_BEFORE_PARTIAL if f.startswith("solver._compact")}
  ncl = r_live.check_cleared_before_partial(res, db, ["forward.step"], tab)
  res.floor("compact workspace cleared before gather", ncl, 1)
  res.rule_text = "R-LIVE.7: the compacted Jacobian is fully cleared on the host before the gather kernel writes the active columns; R-CAP on the sequential compaction (map writes guarded by count < nvmax, NVMAX bit set under count > nvmax on the same counter which keeps counting past the capacity, ncdof clamped); R-GATE: scatter kernels write x_c[dof_cdof[i]] for active dofs and 0.0 for frozen ones at [world, i]; gather kernels read x[cdof_dof[ci]] into compact slot ci"
  res.explanation = "Structural clauses of C38. Not decided: equivalence of the compacted Newton solve with the full solve (numeric)."
  res.extra["analysed"] = {"kernels": ["island._compact_dofs", "solver._scatter_dof_vecs", "solver._scatter_solution", "solver._gather_dof_vecs_compact", "solver._gather_rhs_compact"]}
  res.assumptions += ["dof_cdof / cdof_dof are reset to -1 before compaction (_reset_compact_maps)"]
