"""C16 - capacity overflow is never silent (R-CAP O1-O3)."""

from ..rules import r_cap
from ..tables import cap_tables
from . import common
from .c38 import check_compaction


def run(db, res, tier):
  all_lcs = db.launch_ctxs()
  if db.missing_sites():
    res.error(f"unresolved launch sites: {db.missing_sites()[:5]}")
  scope = common.scope_from_entries(db, ["forward.step", "forward.forward"], res)
  if tier == "thorough":
    sigs = {(lc.ev.loc, lc.kv.text) for lc in scope}
    scope = scope + [lc for lc in all_lcs if (lc.ev.loc, lc.kv.text) not in sigs]
  det = r_cap.overflow_detectors(scope + all_lcs)
  n = r_cap.check_allocations(res, scope, det)
  check_compaction(db, res)  # active-DOF capacity (sequential counter form)
  nsurv = sum(r_cap.check_counter_survives_to_detector(res, db, e) for e in ("forward.step", "forward.forward"))
  res.floor("allocation -> detector survival obligations", nsurv, 100)
  res.floor("slot allocations", n, 60)
  res.floor("overflow detectors (counters)", len(det), 5)
  res.rule_text = "R-CAP: for every slot = atomic_add(counter, n) whose result indexes or addresses an array: (O1) a dominating comparison bounds the slot by a capacity (or the allocation is tabled as bounded by construction); (O2) the surviving condition is equivalent to slot + n <= cap, so a block that fits exactly is not dropped; (O3) a statement that sets an overflow bit compares the same counter with the same capacity; (O3b) on the ordered trace of step()/forward() a counter that is checked after the fact is not re-initialised between an allocating launch and the detector; (O3c) under every single disable/enable flag an allocating launch that stays reachable is followed by a detector launch that stays reachable"
  res.explanation = (
    "Decides the first half of C16 structurally: no constraint row / Jacobian non-zero / contact / broadphase pair / CCD or flex candidate block can be "
    "dropped by a capacity guard without an overflow bit being derivable from the same counter, and no guard is stricter than the capacity (exact-fit loss). "
    "Scope: every launch reachable from step()/forward() (thorough: the whole package). Not decided: that absence of overflow bits implies equality with the ample-capacity result."
  )
  res.extra["analysed"] = common.analysed(db, scope)
  res.extra["detectors"] = {k: sorted(v) for k, v in det.items()}
  res.extra["tables_used"] = {"UNGUARDED_BY_DESIGN": {f"{k[0]}|{k[1]}": v for k, v in cap_tables.UNGUARDED_BY_DESIGN.items()}, "DETECTION_EXEMPT": {f"{k[0]}|{k[1]}": v for k, v in cap_tables.DETECTION_EXEMPT.items()}}
  res.assumptions += ["atomic_add returns the pre-increment value", "overflow bits are only ever set (sticky) during a step", "tabled allocations are bounded by construction as argued in tables/cap_tables.py"]
