"""C25 - solver termination is correctly reported and transparent (R-GATE on the solver loop)."""

from __future__ import annotations

from typing import Dict, List, Set

from ..db import LaunchCtx
from ..hostir import Field, root_array
from ..report import Finding
from ..rules.world import array_key
from ..terms import T, pc_literals, show, subterms
from . import common

DONE_KEY = "ctx:done"
ITER_FN = "solver._solver_iteration"


def _done_gate(lc: LaunchCtx, a):
  """The literal `not done[w]` dominating access a (binding-resolved), or None."""
  for t, pol in pc_literals(a.pc):
    if not pol and t.op == "ld" and len(t.args) == 2 and array_key(lc, t.args[0]) == DONE_KEY:
      return t
  return None


def run(db, res, tier):
  sm = db.sm
  hi = db.trace("solver.solve")
  if hi.unresolved_launches:
    res.error(f"unresolved launches in solver.solve: {hi.unresolved_launches[:3]}")
  evs = [e for e in hi.events if e.kind == "launch" and e.kernel is not None and e.arity_ok]
  it_evs = [e for e in evs if ITER_FN in e.stack]
  if len(it_evs) < 20:
    res.error(f"anchor vanished: only {len(it_evs)} launches under {ITER_FN}")
    return
  # arrays that carry the result: Data fields + ctx arrays read after the iteration loop inside _solve
  post_reads: Set[str] = set()
  for e in evs:
    if ITER_FN in e.stack or "solver._solve" not in e.stack:
      continue
    last_it = max(x.seq for x in it_evs if x.stack[: len(e.stack) - 0][:2] == e.stack[:2]) if it_evs else -1
    if e.seq > last_it:
      lc = LaunchCtx(db, e)
      for a in lc.keval.accesses:
        if not a.is_write:
          post_reads.add(array_key(lc, a.root))
  nw = 0
  seen = set()
  for e in it_evs:
    lc = LaunchCtx(db, e)
    for a in lc.keval.accesses:
      if not a.is_write:
        continue
      key = array_key(lc, a.root)
      hv = root_array(lc.binding.get(a.root.split(".")[0]))
      is_data = isinstance(hv, Field) and hv.owner == "Data"
      if not is_data and key not in post_reads:
        continue
      if key == DONE_KEY:
        continue
      sig = (lc.name, a.root, key, a.loc)
      if sig in seen:
        continue
      seen.add(sig)
      nw += 1
      g = _done_gate(lc, a)
      ok = g is not None
      # the gate must test the world that the write belongs to
      if ok and a.idx and g.args[1] is not a.idx[0]:
        spec = lc.field(a.root)
        if spec is not None and spec.first == "nworld":
          ok = False
      res.ob(
        ok,
        f"{lc.name}|{key}",
        Finding("R-GATE.5", f"{lc.name}|{key}|not-gated-by-done", f"inside the solver iteration `{a.root}` ({key}) is written without an early return on ctx.done for that world: iterating after a world converged changes its result", a.loc),
        sample={"kernel": lc.name, "array": key, "gate": show(g) if g is not None else None} if nw % 6 == 1 else None,
      )
      # solver_niter only ever +1
      if key == "Data.solver_niter":
        okn = a.kind == "atomic_add" and isinstance(a.value, T) and a.value.op == "c" and a.value.args[0] == 1
        if not okn and a.kind == "w" and isinstance(a.value, T) and a.value.op == "bin" and a.value.args[0] == "+":
          # the same update written out: niter[w] = niter[w] + 1 (one thread per world)
          x, y = a.value.args[1], a.value.args[2]
          if isinstance(y, T) and y.op == "ld":
            x, y = y, x
          okn = isinstance(x, T) and x.op == "ld" and array_key(lc, x.args[0]) == key and tuple(x.args[1:]) == tuple(a.idx) and isinstance(y, T) and y.op == "c" and y.args[0] == 1
        res.ob(okn, f"{lc.name}|niter-increment", Finding("R-GATE.6", f"{lc.name}|solver_niter|increment", f"solver_niter is updated by `{a.kind} {show(a.value)}` instead of += 1", a.loc))
  res.floor("gated result writes in the iteration", nw, 12)

  # finalisers: done := True on every path where niter can equal the limit; ITERATIONS bit exactly under (not done and niter == limit)
  fin = {}
  for e in it_evs:
    lc = LaunchCtx(db, e)
    writes_done = [a for a in lc.keval.accesses if a.is_write and array_key(lc, a.root) == DONE_KEY]
    writes_ovf = [a for a in lc.keval.accesses if a.is_write and array_key(lc, a.root) == "Data.overflow" and any(s.op == "enum" and s.args[1] == "ITERATIONS" for s in subterms(a.value) if isinstance(a.value, T))]
    incr = [a for a in lc.keval.accesses if a.is_write and array_key(lc, a.root) == "Data.solver_niter"]
    if writes_done or writes_ovf or incr:
      fin[lc.name] = (lc, writes_done, writes_ovf, incr)
  names = sorted(fin)
  res.ob(len(names) == 2, "finalisers", Finding("R-GATE.7", "solver|finalisers|count", f"expected exactly two sibling finalisers (Newton, CG) updating solver_niter/done/ITERATIONS, found {names}", "mujoco_warp/_src/solver.py"))
  shapes = {}
  for name, (lc, wd, wo, inc) in fin.items():
    def limit_cmp(t):
      return t.op == "cmp" and t.args[0] == "==" and any(s.op == "ld" and array_key(lc, s.args[0]) == "Data.solver_niter" for s in subterms(t.args[1])) and isinstance(t.args[2], T) and t.args[2].op == "p" and (lc.scalar_binding_text(t.args[2].args[0]) or "").endswith("opt.iterations")

    # Decided by truth table over the atoms of the path conditions (comparisons are normalised so that `a != b` is the
    # negation of `a == b`, `a >= b` of `a < b`): L = (niter == opt.iterations), D = the world's done flag (False: still
    # solving), every other atom is an opaque convergence test c_i.
    #   F(c, L) = some store `done := True` executes        R-GATE.8:  F(c, L=True) for every c
    #   G(c)    = F(c, L=False)   (the converged condition)  R-GATE.9:  the ITERATIONS store executes  <=>  L and not G(c)
    atoms: list = []

    def atom_of(t):
      """(key, negated) of a comparison / load atom"""
      neg = False
      if isinstance(t, T) and t.op == "cmp":
        op, a, b = t.args
        base = {"!=": ("==", True), ">=": ("<", True), "<=": (">", True)}.get(op)
        if base:
          op, neg = base[0], True
        t = T("cmp", op, a, b)
      if t not in atoms:
        atoms.append(t)
      return t, neg

    def ev(t, env):
      if isinstance(t, T) and t.op == "lit":
        v = ev(t.args[0], env)
        return v if t.args[1] else (not v)
      if isinstance(t, T) and t.op in ("all", "and"):
        return all(ev(x, env) for x in t.args)
      if isinstance(t, T) and t.op == "or":
        return any(ev(x, env) for x in t.args)
      if isinstance(t, T) and t.op == "not":
        return not ev(t.args[0], env)
      if isinstance(t, T) and t.op == "c":
        return bool(t.args[0])
      k, neg = atom_of(t)
      return env[k] != neg

    def collect(t):
      if isinstance(t, T) and t.op in ("lit", "all", "and", "or", "not"):
        for x in t.args:
          if isinstance(x, T):
            collect(x)
      elif isinstance(t, T) and t.op != "c":
        atom_of(t)

    done_stores = [a for a in wd if isinstance(a.value, T) and a.value.op == "c" and a.value.args[0] is True]
    for a in done_stores + list(wo):
      for l in a.pc:
        collect(l)
    is_L = [t for t in atoms if limit_cmp(t)]
    is_D = [t for t in atoms if t.op == "ld" and array_key(lc, t.args[0]) == DONE_KEY]
    free = [t for t in atoms if t not in is_L and t not in is_D]
    okd = bool(done_stores) and len(is_L) == 1 and len(free) <= 8
    oko = bool(wo) and okd
    if okd:
      import itertools

      for vals in itertools.product([False, True], repeat=len(free)):
        env = dict(zip(free, vals))
        for d in is_D:
          env[d] = False
        envL = dict(env)
        envL[is_L[0]] = True
        env0 = dict(env)
        env0[is_L[0]] = False
        F1 = any(all(ev(l, envL) for l in a.pc) for a in done_stores)
        G = any(all(ev(l, env0) for l in a.pc) for a in done_stores)
        if not F1:
          okd = False
        for L, e_ in ((True, envL), (False, env0)):
          H = any(all(ev(l, e_) for l in a.pc) for a in wo)
          if H != (L and not G):
            oko = False
      # only for worlds still solving
      oko = oko and all(_done_gate(lc, a) is not None for a in wo)
    res.ob(okd, f"{name}|done-at-limit", Finding("R-GATE.8", f"{name}|done|limit", "ctx.done is not set to True on every path where solver_niter == opt.iterations can hold (truth table over the path-condition atoms: with niter == iterations the store `done = True` must execute for every outcome of the convergence tests)", lc.fi.loc()))
    res.ob(oko, f"{name}|iterations-bit", Finding("R-GATE.9", f"{name}|overflow|ITERATIONS-condition", "the ITERATIONS overflow bit is not set exactly under `not converged and solver_niter == opt.iterations` (and only for worlds still solving); converged = the condition under which done is set when the limit is not reached", lc.fi.loc()), sample={"finaliser": name, "atoms": [show(t)[:50] for t in atoms][:6]})
    shapes[name] = (okd, oko, len(wd), len(wo), len(inc))
  # no other kernel sets the ITERATIONS bit
  for lc0 in db.launch_ctxs():
    if lc0.name in fin:
      continue
    for a in lc0.keval.accesses:
      if a.is_write and isinstance(a.value, T) and any(s.op == "enum" and s.args[1] == "ITERATIONS" for s in subterms(a.value)):
        res.ob(False, f"{lc0.name}|iterations-bit", Finding("R-GATE.9", f"{lc0.name}|overflow|ITERATIONS-elsewhere", "the ITERATIONS bit is set outside the two solver finalisers", a.loc))
  # graph-conditional on/off run the same body: same launch sequence in both loop forms
  loops: Dict[str, List[str]] = {}
  for e in it_evs:
    lp = [l for l in e.loops if "capture_while" in l or "for _" in l]
    tag = "capture_while" if any("capture_while" in l for l in e.loops) else "for"
    top = e.stack[1] if len(e.stack) > 1 else "?"
    loops.setdefault(f"{top}|{tag}", []).append(e.name)
  by_top: Dict[str, Dict[str, List[str]]] = {}
  for k, v in loops.items():
    top, tag = k.rsplit("|", 1)
    by_top.setdefault(top, {})[tag] = v
  for top, d_ in by_top.items():
    if len(d_) == 2:
      res.ob(d_["capture_while"] == d_["for"], f"loop-forms|{top}", Finding("R-GATE.10", f"solver._solve|loop-bodies|{top}", "the graph-conditional loop and the plain loop launch different kernel sequences", "mujoco_warp/_src/solver.py"))
  res.rule_text = "R-GATE: inside _solver_iteration every write to a Data field (and to solver-context arrays read after the loop) is dominated by an early return on the array bound to ctx.done for that world; solver_niter only ever += 1 under that gate; done := True on every path where niter == opt.iterations; the ITERATIONS bit is set only by the two finalisers exactly under `not converged and niter == iterations`; both loop forms launch the same body"
  res.explanation = "Binding-resolved dominance checks over the solver loop trace (Newton and CG, compact and full). Not decided: that the tolerance test is the right one; behaviour for iterations = 0."
  res.extra["analysed"] = {"iteration_launches": len(it_evs), "result_arrays_read_after_loop": sorted(post_reads)[:12], "finalisers": names}
  res.assumptions += ["ctx.done is only set (never cleared) during a solve", "iterations >= 1"]
