"""Shared helpers for property drivers."""

from __future__ import annotations

from typing import Dict, List

from ..db import DB, LaunchCtx
from ..report import Result


def scope_from_entries(db: DB, entries, res: Result = None) -> List[LaunchCtx]:
  """Distinct launch contexts reachable from public entry points (deep host traces)."""
  out: List[LaunchCtx] = []
  seen = set()
  for entry in entries:
    lit = {}
    if isinstance(entry, tuple):
      entry, lit = entry
    hi = db.trace(entry, **lit)
    if res is not None and hi.unresolved_launches:
      res.error(f"unresolved launches reachable from {entry}: {hi.unresolved_launches[:3]}")
    for e in hi.events:
      if e.kind != "launch" or e.kernel is None or not e.arity_ok:
        continue
      sig = (e.loc, e.kernel.text, tuple(v.text for _, v in e.bindings), tuple(d.text for d in e.dim))
      if sig in seen:
        continue
      seen.add(sig)
      out.append(LaunchCtx(db, e))
  return out


def analysed(db: DB, lcs: List[LaunchCtx]) -> dict:
  st = db.stats()
  st["launch_contexts_in_scope"] = len(lcs)
  st["kernels_in_scope"] = len({lc.name for lc in lcs})
  st["accesses_in_scope"] = sum(len(lc.keval.accesses) for lc in lcs)
  funcs = set()
  for lc in lcs:
    funcs |= set(lc.keval.calls)
  st["inlined_funcs_in_scope"] = len(funcs)
  return st


STEP_ENTRIES = ["forward.step", "forward.forward", "forward.step1", "forward.step2"]
PUBLIC_SIM_ENTRIES = STEP_ENTRIES + ["io.reset_data", "support.get_state", "support.set_state", "inverse.inverse"]
