"""Shared helpers for property drivers."""

from __future__ import annotations

from typing import Dict, List

from ..db import DB, LaunchCtx
from ..report import Result


def scope_from_entries(db: DB, entries, res: Result = None) -> List[LaunchCtx]:
  """Distinct launch contexts reachable from public entry points (deep host traces)."""
  out: List[LaunchCtx] = []
  seen = set()
  for entry in entries:
    lit = {}
    if isinstance(entry, tuple):
      entry, lit = entry
    hi = db.trace(entry, **lit)
    if res is not None and hi.unresolved_launches:
      res.error(f"unresolved launches reachable from {entry}: {hi.unresolved_launches[:3]}")
    for e in hi.events:
      if e.kind != "launch" or e.kernel is None or not e.arity_ok:
        continue
      sig = (e.loc, e.kernel.text, tuple(v.text for _, v in e.bindings), tuple(d.text for d in e.dim))
      if sig in seen:
        continue
      seen.add(sig)
      out.append(LaunchCtx(db, e))
  return out


def analysed(db: DB, lcs: List[LaunchCtx]) -> dict:
  st = db.stats()
  st["launch_contexts_in_scope"] = len(lcs)
  st["kernels_in_scope"] = len({lc.name for lc in lcs})
  st["accesses_in_scope"] = sum(len(lc.keval.accesses) for lc in lcs)
  funcs = set()
  for lc in lcs:
    funcs |= set(lc.keval.calls)
  st["inlined_funcs_in_scope"] = len(funcs)
  return st


STEP_ENTRIES = ["forward.step", "forward.forward", "forward.step1", "forward.step2"]
PUBLIC_SIM_ENTRIES = STEP_ENTRIES + ["io.reset_data", "support.get_state", "support.set_state", "inverse.inverse"]


_MASK_CANARY = """
def f(m, d, reset=None):
  if reset.dtype in (wp.int8, wp.uint8):
    reset_input = reset.view(wp.bool)
"""


def _reinterpreting_views(fn_node, param):
  import ast

  out = []
  for n in ast.walk(fn_node):
    if isinstance(n, ast.Call) and isinstance(n.func, ast.Attribute) and n.func.attr == "view":
      r = n.func.value
      while isinstance(r, (ast.Attribute, ast.Subscript, ast.Call)):
        r = r.value if not isinstance(r, ast.Call) else r.func
      if isinstance(r, ast.Name) and r.id == param:
        out.append(n)
  return out


def check_mask_normalisation(res: Result, db: DB, func_key: str, param: str) -> int:
  """R-VALID.5: a user-supplied per-world mask reaches the kernels as a genuine wp.bool array - the argument itself when
  its dtype is wp.bool, or a fresh bool array filled by a value cast. A reinterpreting `.view(...)` of an integer mask is
  not a cast: Warp's generated `!b` on a byte other than 0/1 is not C truthiness, so selected worlds would be skipped."""
  import ast

  from ..report import Finding

  assert _reinterpreting_views(ast.parse(_MASK_CANARY), "reset"), "canary: the .view() matcher lost its positive example"
  fi = db.sm.func(func_key)
  bad = _reinterpreting_views(fi.node, param)
  res.ob(
    not bad,
    f"{func_key}|{param}|mask-normalisation",
    Finding("R-VALID.5", f"{func_key}|{param}|reinterpreted-mask", f"the mask argument `{param}` is reinterpreted with .view() instead of being value-cast to bool: entries other than 0/1 are not treated as True by the kernels' `if not mask[worldid]` test", f"{fi.file}:{bad[0].lineno}" if bad else fi.file),
  )
  return 1
