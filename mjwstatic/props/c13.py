"""C13 - reset_data restores a fresh Data (R-RESET: coverage, extent, value family, mask gating)."""

from __future__ import annotations

from typing import Dict, List, Optional, Tuple

from .. import effects
from ..db import LaunchCtx
from ..hostir import HostInterp
from ..report import Finding
from ..rules import r_live
from ..rules.r_gate import dominated_by_mask
from ..rules.world import array_key
from ..tables import live_tables, mujoco_layouts, reset_tables
from ..terms import T, pc_literals, show, subterms
from . import common
from .c12 import state_keys


def _bound_name(lc: LaunchCtx, t) -> Optional[str]:
  """Model/Data dimension a scalar term denotes at this launch: nq for param bound to m.nq, 'F.shape[k]' for shapes."""
  if not isinstance(t, T):
    return None
  if t.op == "p":
    txt = lc.scalar_binding_text(t.args[0]) or ""
    if "." in txt and "(" not in txt:
      return txt.split(".")[-1]
    return None
  if t.op == "shape":
    spec = lc.field(t.args[0])
    if spec is not None and spec.is_array and 0 <= t.args[1] < len(spec.dims):
      d = spec.dims[t.args[1]]
      return d if isinstance(d, str) else None
  if t.op == "c" and isinstance(t.args[0], int):
    return str(t.args[0])
  return None


def _covers(name: Optional[str], dim) -> Optional[bool]:
  if name is None:
    return None
  if isinstance(dim, int):
    return name == str(dim)
  if name == dim:
    return True
  if (name, dim) in reset_tables.INVARIANTS_GE:
    return True
  return False


def extent_check(res, lc: LaunchCtx, a, spec):
  """Every non-world dimension of a reset write is covered over its declared extent."""
  for k in range(1, min(len(a.idx), len(spec.dims))):
    dim = spec.dims[k]
    t = a.idx[k]
    bounds: List[Tuple[str, Optional[str]]] = []
    if t.op == "lv":
      info = lc.keval.loops.get(t.args[0], {})
      lo = info.get("lo")
      if not (isinstance(lo, T) and lo.op == "c" and lo.args[0] == 0):
        continue
      bounds.append((f"range({show(info.get('hi'))})", _bound_name(lc, info.get("hi"))))
    elif t.op == "tid":
      txt = lc.dim_text(t.args[0])
      nm = None
      if "(" not in txt and "." in txt:
        nm = txt.split(".")[-1]
      elif ".shape[" in txt and txt.count("(") == 0:
        nm = None
      if ".shape[" in txt:
        # d.<field>.shape[k]
        import re

        m_ = re.fullmatch(r"[md]\w*\.([\w\.]+)\.shape\[(\d)\]", txt)
        if m_:
          fs = lc.db.sm.schema_by_path.get(("Data" if txt[0] == "d" else "Model", m_.group(1)))
          if fs is not None and fs.is_array and int(m_.group(2)) < len(fs.dims):
            d_ = fs.dims[int(m_.group(2))]
            nm = d_ if isinstance(d_, str) else str(d_)
      if nm is None and "max(" in txt:
        # max(a, b, ...) covers every listed extent; when every argument is a plain model dimension (or a constant) the
        # list is complete, so a dimension that is neither listed nor dominated by a listed one (nq >= nv) is NOT covered
        if isinstance(dim, str) and ("." + dim) in txt:
          nm = dim
        else:
          import ast as _ast

          try:
            node = _ast.parse(txt, mode="eval").body
          except SyntaxError:
            node = None
          if isinstance(node, _ast.Call) and isinstance(node.func, _ast.Name) and node.func.id == "max" and all(isinstance(x, _ast.Constant) or (isinstance(x, _ast.Attribute) and isinstance(x.value, _ast.Name) and x.value.id in ("m", "d")) for x in node.args):
            names = [x.attr for x in node.args if isinstance(x, _ast.Attribute)]
            dom = [n_ for n_ in names if (n_, dim) in reset_tables.INVARIANTS_GE]
            nm = dim if dom else ("max(" + ",".join(names) + ")")
      bounds.append((f"launch extent {txt}", nm))
    else:
      continue
    # guards `idx < X` on the path restrict the covered range further
    for c, pol in pc_literals(a.pc):
      if pol and c.op == "cmp" and c.args[0] == "<" and c.args[1] is t:
        bounds.append((f"guard {show(c)}", _bound_name(lc, c.args[2])))
    verdicts = [(desc, _covers(nm, dim)) for desc, nm in bounds]
    if any(v is None for _, v in verdicts):
      res.extra.setdefault("extent_unknown", []).append(f"{lc.name}|{a.root}|{[d for d, v in verdicts if v is None]}")
      continue
    bad = [d for d, v in verdicts if v is False]
    res.ob(
      not bad,
      f"{lc.name}|{a.root}|extent{k}",
      Finding("R-RESET.2", f"{lc.name}|{a.root}|extent", f"`{a.root}` ({spec.owner}.{spec.path}, dimension `{dim}`) is only reset over {' and '.join(bad)}: elements beyond that keep their pre-reset values unless that bound is always >= {dim}", a.loc),
      sample={"kernel": lc.name, "array": a.root, "dim": dim, "bounds": [d for d, _ in verdicts]},
    )


# launches of reset_data that take no mask and are harmless for unselected worlds (argument per kernel)
UNMASKED_LAUNCH_OK = {
  "sleep._zero_sleep_counters": "recomputes derived sleep bookkeeping of every world from its own tree_asleep (idempotent for worlds that were not reset)",
  "sleep._update_sleep_trees": "as above",
  "sleep._update_sleep_bodies": "as above",
  "sleep._update_sleep_dofs": "as above",
}


def check_host_writes_masked(db, res) -> int:
  """R-RESET.5: with a mask given (`reset` symbolic, not None), reset_data may touch per-world Data only through kernels
  that take the mask. A host-level fill / zero_ / copy of a Data array, or a launch without the mask parameter, acts on
  every world and must be confined to the `reset is None` path (or tabled as a pure recomputation)."""
  from .. import hostir

  hi = hostir.HostInterp(db.sm)
  hi.run("io.reset_data", args={"reset": hostir.Expr("reset")})
  effs = effects.trace_effects(db, hi)
  n = 0
  for e in effs:
    data_w = sorted(k for k in e.writes if k.startswith("Data."))
    if not data_w:
      continue
    unmasked_path = any(t == "(reset is None)" and pol for t, pol in e.ev.pc)
    if e.ev.kind in ("fill", "copy"):
      n += 1
      res.ob(
        unmasked_path,
        f"reset_data|host-{e.ev.kind}|{data_w[0]}",
        Finding("R-RESET.5", f"io.reset_data|{data_w[0]}|host-write-ignores-mask", f"reset_data {e.ev.kind}s {data_w} on the host also when a reset mask is given: the operation acts on every world, so worlds that were not selected lose this data", e.ev.loc),
      )
    elif e.ev.kind == "launch" and e.lc is not None and not any(p.name == "reset_in" for p in e.lc.keval.params):
      n += 1
      res.ob(
        unmasked_path or e.lc.name in UNMASKED_LAUNCH_OK,
        f"reset_data|unmasked-launch|{e.lc.name}",
        Finding("R-RESET.5", f"io.reset_data|{e.lc.name}|launch-ignores-mask", f"{e.lc.name} writes {data_w} for every world although a reset mask is given and the kernel does not take it", e.ev.loc),
        sample={"launch": e.lc.name, "writes": data_w[:3], "tabled": UNMASKED_LAUNCH_OK.get(e.lc.name)},
      )
  return n


def run(db, res, tier):
  sm = db.sm
  hi = db.trace("io.reset_data")
  if hi.unresolved_launches:
    res.error(f"unresolved launches in io.reset_data: {hi.unresolved_launches[:3]}")
  effs = effects.trace_effects(db, hi)
  common.check_mask_normalisation(res, db, "io.reset_data", "reset")
  nh = check_host_writes_masked(db, res)
  res.floor("ungated host-level operations examined (symbolic mask)", nh, 4)
  written: Dict[str, List] = {}
  for e in effs:
    for k in e.writes:
      written.setdefault(k, []).append(e)
  # (a) coverage: integration state + everything step() reads from before the call
  live, _, _ = r_live.live_in(db, db.trace("forward.step"))
  required = set(state_keys())
  for k in live:
    if k.startswith("Data.") and k not in live_tables.CONSTANT_AFTER_MAKE_DATA:
      required.add(k)
  for k in sorted(required):
    why = "integration state" if k in state_keys() else "read by step() from before the call"
    res.ob(k in written, f"coverage|{k}", Finding("R-RESET.1", f"io.reset_data|{k}|not-reset", f"reset_data never writes {k} ({why}): a reset world keeps its pre-reset contents", "mujoco_warp/_src/io.py"), sample={"field": k, "why": why, "reset_by": sorted({e.ev.name or e.ev.kind for e in written.get(k, [])})[:3]})
  # per-launch checks
  nlaunch = 0
  nwrites = 0
  for e in effs:
    if e.lc is None:
      continue
    lc = e.lc
    nlaunch += 1
    masked = "reset_in" in lc.binding
    if masked:
      dominated_by_mask(res, lc, mask_param="reset_in", static_name="reset is not None", writes_only=True)
    for a in lc.keval.accesses:
      if not a.is_write:
        continue
      spec = lc.field(a.root)
      nwrites += 1
      if spec is None or not spec.is_array:
        continue
      # (d) masked kernels write only cells owned by the gated world
      if masked and spec.owner == "Data" and spec.first not in ("nworld", "naconmax"):
        res.ob(False, f"{lc.name}|{a.root}|shared", Finding("R-WORLD.5", f"{lc.name}|{a.root}|shared-cell-in-masked-reset", f"the per-world masked reset writes `{a.root}` ({spec.path}), which has no world dimension: resetting some worlds changes a cell shared by all worlds (under `{' & '.join(show(t) for t, p in pc_literals(a.pc))[:120]}`)", a.loc))
      if spec.first == "nworld":
        extent_check(res, lc, a, spec)
        # (c) value family
        exp = reset_tables.RESET_VALUES.get(spec.path)
        if exp is not None and isinstance(a.value, T):
          v = a.value
          if exp == "zero":
            okv = v.op == "c" and v.args[0] in (0, 0.0, False) or (v.op == "call" and all(isinstance(x, T) and x.op == "c" and x.args[0] in (0, 0.0) for x in v.args[1:])) or v.op == "unk"
          else:
            okv = v.op == "ld" and lc.field(v.args[0]) is not None and lc.field(v.args[0]).path == exp
          res.ob(okv, f"{lc.name}|{a.root}|value", Finding("R-RESET.3", f"{lc.name}|{a.root}|value", f"`{a.root}` is reset to `{show(v)}`; a fresh Data has {'zeros' if exp == 'zero' else 'Model.' + exp}", a.loc))
  res.floor("reset launches", nlaunch, 8)
  res.floor("reset writes", nwrites, 60)
  res.rule_text = "R-RESET: (1) reset_data writes every State.INTEGRATION field and every Data field that step() reads from before the call; (2) each write covers the declared extent of its dimension (loop/launch bounds and guards compared by dimension name, with model invariants nq >= nv); (3) state fields are reset to the value family of a fresh Data; (5) with a mask given no host-level fill/copy and no launch without the mask parameter writes per-world Data (tabled: the sleep bookkeeping recomputation); (4) every access of the masked kernels is dominated by reset_in[world] and none writes a cell without a world dimension"
  res.explanation = "Decides coverage, extent, value-family and mask-gating clauses of C13 from the effect trace and kernel IR of reset_data. Not decided: trajectory equality beyond what C12's live-in analysis implies."
  res.extra["analysed"] = {"reset_launches": nlaunch, "reset_writes": nwrites, "required_fields": sorted(required)}
  res.extra["tables_used"] = {"INVARIANTS_GE": [list(x) for x in reset_tables.INVARIANTS_GE], "RESET_VALUES": reset_tables.RESET_VALUES}
  res.assumptions += ["model invariant nq >= nv", "value family of a fresh MjData: qpos0, eq_active0, mocap pose = body pose, zeros otherwise"]
