"""C17 - no out-of-bounds access or crash on accepted inputs (necessary conditions):
R-CAP guards on every allocated slot (incl. loose guards and block descriptors), R-COND allocation/use
condition agreement, configuration validation raises."""

from __future__ import annotations

import ast
import re
from typing import Dict, List, Set

from .. import hostir
from ..db import LaunchCtx
from ..hostir import Field, root_array
from ..report import Finding
from ..rules import r_cap
from ..rules.world import array_key
from ..tables import cap_tables, validation_tables
from ..terms import T, affine, pc_literals, show, subterms
from . import common

DESCRIPTORS = [("Data.efc.jtdaj_adr", "Data.efc.jtdaj_nrow", "njmax")]


def check_descriptors(res, lcs: List[LaunchCtx]):
  """Block descriptors (start row, row count) never describe rows beyond the capacity."""
  n = 0
  seen = set()
  for lc in lcs:
    for adr_key, cnt_key, cap in DESCRIPTORS:
      adrs = [a for a in lc.keval.accesses if a.is_write and array_key(lc, a.root) == adr_key]
      cnts = [a for a in lc.keval.accesses if a.is_write and array_key(lc, a.root) == cnt_key]
      for c in cnts:
        mate = next((a for a in adrs if a.idx == c.idx), None)
        if mate is None or (lc.name, c.loc) in seen:
          continue
        seen.add((lc.name, c.loc))
        n += 1
        A, V = mate.value, c.value
        ok = False
        why = ""
        slots = [s for s in subterms(A) if s.op == "at"]
        slot = slots[0] if slots and A is slots[0] else None
        if isinstance(V, T) and V.op == "call" and V.args[0] in ("wp.min", "min"):
          # min(n, cap - A)
          for x in V.args[1:]:
            d = affine(x) + affine(A)
            if len(d.coef) == 1 and d.const == 0:
              (atom, co), = d.coef.items()
              if co == 1 and atom.op == "p" and (lc.scalar_binding_text(atom.args[0]) or "").endswith("." + cap):
                ok = True
          why = f"count `{show(V)[:70]}` is not clamped to {cap} - start"
        elif slot is not None:
          for l in r_cap.effective_literals(c.pc, ()):
            ub = r_cap.upper_bound(l, slot)
            if ub is not None:
              g, capa = ub
              diff = g - affine(V)
              if diff.is_const() and diff.const >= 0:
                ok = True
          why = f"the guard on the start row does not imply start + {show(V)} <= {cap}"
        res.ob(
          ok,
          f"{lc.name}|{cnt_key}",
          Finding("R-CAP.5", f"{lc.name}|{cnt_key}|block-beyond-capacity", f"block descriptor ({adr_key.split('.')[-1]} = {show(A)[:50]}, {cnt_key.split('.')[-1]} = {show(V)[:50]}) can describe rows at or beyond {cap}: {why}; consumers iterate start..start+count over arrays of extent {cap}", c.loc),
          sample={"kernel": lc.name, "start": show(A)[:50], "count": show(V)[:60]} if n % 6 == 1 else None,
        )
  return n


def compact_fields(sm) -> Set[str]:
  fi = sm.func("io._allocate_compact_arrays")
  out = set()
  for n in ast.walk(fi.node):
    if isinstance(n, ast.Assign):
      for t in n.targets:
        if isinstance(t, ast.Attribute) and isinstance(t.value, ast.Name) and t.value.id == "d":
          out.add(t.attr)
  return out


def alloc_flags(sm) -> Set[str]:
  """Flags mentioned by the predicate under which make_data allocates the compact workspace."""
  fi = sm.func("io.make_data")
  flags = set()
  for n in ast.walk(fi.node):
    if isinstance(n, ast.Assign) and any(isinstance(t, ast.Name) and t.id in ("sleep_enabled", "compact_alloc") for t in n.targets):
      flags |= set(re.findall(r"mj(?:ENBL|DSBL)_(\w+)", ast.unparse(n.value)))
  return flags


def check_cond(res, db):
  sm = db.sm
  cf = compact_fields(sm)
  flags = alloc_flags(sm)
  if len(cf) < 8 or "SLEEP" not in flags:
    res.error(f"anchor vanished: compact allocation (fields={len(cf)}, flags={flags})")
    return 0
  n = 0
  seen = set()
  for entry in ("forward.step", "forward.forward", "forward.step1", "forward.step2", "solver.solve"):
    hi = db.trace(entry)
    for e in hi.events:
      if e.kind != "launch" or not e.bindings:
        continue
      used = []
      for p, hv in e.bindings:
        r = root_array(hv)
        if isinstance(r, Field) and r.owner == "Data" and r.path in cf:
          used.append(r.path)
      if not used:
        continue
      sig = (e.loc, tuple(sorted(used)), e.pc)
      if sig in seen:
        continue
      seen.add(sig)
      n += 1
      have = set()
      for t, pol in e.pc:
        if pol and "SLEEP" in t:
          have |= set(re.findall(r"(?:EnableBit|DisableBit)\.(\w+)", t))
      missing = flags - have
      caller = e.stack[-1] if e.stack else "?"
      guards = [t for t, pol in e.pc if pol and "SLEEP" in t]
      res.ob(
        not missing,
        f"{e.name}|{','.join(sorted(used))}|{caller}",
        Finding("R-COND.1", f"compact-workspace|{' & '.join(guards) or 'unguarded'}|missing-{'+'.join(sorted(missing))}|weaker-than-allocation", f"launch of {e.name} uses the compact workspace ({', '.join(sorted(used)[:3])}) under `{' & '.join(guards) or 'no sleep test'}`, but make_data allocates it only when {sorted(flags)} hold: with the missing flag(s) {sorted(missing)} set the other way the arrays have zero extent", e.loc),
        sample={"launch": e.name, "fields": sorted(used)[:3], "guard": guards[:1]} if n % 10 == 1 else None,
      )
  return n


def check_validations(res, db):
  cache: Dict[str, list] = {}
  n = 0
  for fn, ids, what in validation_tables.REQUIRED_VALIDATIONS:
    if fn not in cache:
      hi = hostir.HostInterp(db.sm, shallow=True)
      hi.run(fn)
      evs = hi.events
      first_launch = min([e.seq for e in evs if e.kind == "launch"] or [10**9])
      cache[fn] = [(" ".join(t for t, _ in e.pc), e.seq < first_launch) for e in evs if e.kind == "raise"]
    n += 1
    hit = [(txt, before) for txt, before in cache[fn] if all(i in txt for i in ids)]
    res.ob(bool(hit), f"{fn}|{'+'.join(ids)}", Finding("R-VALID.1", f"{fn}|{'+'.join(ids)}|validation-missing", f"{fn} no longer raises on a condition over {ids} ({what})", db.sm.func(fn).loc()))
    if hit:
      res.ob(all(b for _, b in hit), f"{fn}|{'+'.join(ids)}|before-launch", Finding("R-VALID.2", f"{fn}|{'+'.join(ids)}|after-launch", f"the validation over {ids} happens after kernels were already launched", db.sm.func(fn).loc()))
  return n


def run(db, res, tier):
  all_lcs = db.launch_ctxs()
  if db.missing_sites():
    res.error(f"unresolved launch sites: {db.missing_sites()[:5]}")
  scope = common.scope_from_entries(db, ["forward.step", "forward.forward"], res)
  sigs = {(lc.ev.loc, lc.kv.text) for lc in scope}
  scope_all = scope + [lc for lc in all_lcs if (lc.ev.loc, lc.kv.text) not in sigs]
  det = {}
  na = r_cap.check_allocations(res, scope_all if tier == "thorough" else scope, det, want=("O1", "O2loose"))
  nd = check_descriptors(res, scope_all)
  nc = check_cond(res, db)
  nv = check_validations(res, db)
  # the compaction maps hold indices into the nvmax-wide compact workspace: every value stored in dof_cdof and every
  # index of cdof_dof stays below nvmax (same clause as C38/C16, a memory-safety necessary condition here)
  from .c38 import check_compaction

  check_compaction(db, res)
  res.floor("slot allocations", na, 60)
  res.floor("block descriptors", nd, 12)
  res.floor("compact-workspace launches", nc, 10)
  res.floor("validations", nv, 25)
  res.rule_text = "R-CAP.1: every write through an atomically allocated slot is dominated by a capacity comparison covering the whole block (or tabled as bounded by construction); R-CAP.1 (sequential form): the DOF compaction maps only hold compact indices below nvmax; R-CAP.5: (start, count) block descriptors never describe rows beyond the capacity; R-COND: every launch that binds the conditionally allocated compact workspace is guarded by at least the flags of the allocation predicate; R-VALID: each documented configuration constraint is rejected by a raise before any launch"
  res.explanation = (
    "Necessary conditions for memory safety that are visible in the shape of the code. Not decided: bounds that depend on model-data invariants (adr + num <= n), Warp tile primitives. "
    "Note: Warp wraps negative indices (array.h), so -1 sentinels index the last element instead of leaving the array; sentinel guards are therefore not part of this check."
  )
  res.extra["analysed"] = common.analysed(db, scope_all)
  res.extra["compact_fields"] = sorted(compact_fields(db.sm))
  res.extra["allocation_flags"] = sorted(alloc_flags(db.sm))
  res.assumptions += ["model arrays satisfy MuJoCo's compiler invariants (address + count within extent)", "tabled allocations are bounded by construction (tables/cap_tables.py)"]
