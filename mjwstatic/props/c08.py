"""C08 - time integration: family A clauses + RK4 state save/restore pairing + advance ordering."""

from ..report import Finding
from ..rules import r_pair
from . import family_a
from .c12 import state_keys


def _extra(db, res, tier, scope):
  # RK4 perturbs qpos/qvel/act for its stage evaluations: they must be restored from the t0 clones before the final advance
  n = r_pair.check_pairs(res, db, "forward.rungekutta4", state_keys(), require_recompute=False, later_ok=lambda eff: "forward._advance" in eff.ev.stack)
  res.floor("RK4 save/restore pairs", n, 2)
  # _advance: history insertion precedes the time advance; warmstart is copied from qacc
  hi = db.trace("forward._advance")
  evs = hi.events
  ins = [e.seq for e in evs if e.kind == "enter" and e.name == "history.insert_ctrl_history"]
  tim = [e.seq for e in evs if e.kind == "launch" and e.name.endswith("_next_time")]
  res.ob(bool(ins) and bool(tim) and ins[0] < tim[0], "_advance|history-before-time", Finding("R-SEQ.3", "forward._advance|history-before-time", "the control history must be inserted before time is advanced (the sample is stamped with the pre-step time)", "mujoco_warp/_src/forward.py"))
  cps = [e for e in evs if e.kind == "copy" and e.dst is not None and e.dst.text.endswith(".qacc_warmstart")]
  res.ob(bool(cps) and cps[0].src is not None and cps[0].src.text.endswith(".qacc"), "_advance|warmstart", Finding("R-SEQ.3", "forward._advance|warmstart-from-qacc", "qacc_warmstart is not copied from qacc in _advance", "mujoco_warp/_src/forward.py"))
  # each state field is advanced by exactly one launch of _advance itself
  for fld, kern in (("qvel", "_next_velocity"), ("qpos", "_next_position"), ("act", "_next_activation")):
    ls = [e for e in evs if e.kind == "launch" and e.name.endswith(kern) and len(e.stack) == 1]
    res.ob(len(ls) == 1, f"_advance|{fld}", Finding("R-SEQ.3", f"forward._advance|{fld}|advanced-once", f"{fld} is advanced by {len(ls)} launches of {kern} in _advance (expected exactly one)", "mujoco_warp/_src/forward.py"))
  order = [next((e.seq for e in evs if e.kind == "launch" and e.name.endswith(k)), None) for k in ("_next_activation", "_next_velocity", "_next_position")]
  res.ob(None not in order and order[0] < order[1] < order[2], "_advance|order", Finding("R-SEQ.3", "forward._advance|order", "activation, velocity and position must be advanced in this order (semi-implicit Euler uses the new velocity for the position)", "mujoco_warp/_src/forward.py"))


# R-SIGN.10: (entry, array, callee on the stack, accumulation kinds allowed, the sign argument)
SYSTEM_MATRIX_SIGNS = [
  (
    "forward.implicit",
    "Data.qLU",
    "derivative.deriv_rne_vel",
    ("atomic_add",),
    "mj_implicit solves (M - dt*qDeriv) with qDeriv = d(qfrc_smooth)/d(qvel); the bias force enters qfrc_smooth with a minus sign, so its velocity derivative cdof . d(cfrc_body)/d(qvel) = +d(bias)/d(qvel), scaled by dt, is ADDED to qLU = M - dt*qDeriv_smooth (mjd_rne_vel does `qDeriv -= ...`, hence `M - dt*qDeriv` gets `+ dt * ...`); the repository's own derivative test asserts deriv_rne_vel(out) == -dt * mjd.qDeriv",
  ),
]


def check_system_matrix_signs(db, res) -> int:
  """R-SIGN.10: the tabled accumulations into the implicit integrator's system matrix have the tabled sign."""
  from ..rules.world import array_key

  n = 0
  for entry, key, callee, kinds, why in SYSTEM_MATRIX_SIGNS:
    hits = 0
    for lc in db.trace_launch_ctxs(entry):
      if callee not in lc.ev.stack:
        continue
      for a in lc.keval.accesses:
        if a.is_write and array_key(lc, a.root) == key:
          hits += 1
          n += 1
          res.ob(
            a.kind in kinds,
            f"{entry}|{key}|{lc.name}|{a.loc.rsplit(':', 1)[-1]}",
            Finding("R-SIGN.10", f"{entry}|{key}|{callee}|accumulation-sign", f"{lc.name} (called through {callee}) accumulates into {key} with `{a.kind}`, expected {kinds}: {why}", a.loc),
            sample={"entry": entry, "array": key, "kernel": lc.name, "kind": a.kind},
          )
    if hits == 0:
      res.error(f"anchor vanished: no accumulation into {key} under {callee} on the trace of {entry}")
  return n


def _integrator_pair(fn, k) -> bool:
  return any(x in k for x in ("forward.implicit", "forward.euler", "forward.rungekutta4")) or fn in ("forward.implicit", "forward.euler", "forward.rungekutta4", "forward._advance")


def run(db, res, tier):
  family_a.run_family(db, res, tier, "C08", extra=_extra)
  # the integrators' workspaces (qLU / qDeriv / qH_M / qLD, RK4's saved state) are fully (re)defined before they are
  # accumulated into or factorised in place: otherwise the second step on a Data starts from the first step's factors
  from ..rules import r_live
  from ..tables import live_tables

  nsg = check_system_matrix_signs(db, res)
  res.floor("system-matrix accumulation signs (R-SIGN.10)", nsg, 1)
  tab = {(fn, k) for fn, k in live_tables.INIT_BEFORE_PARTIAL if _integrator_pair(fn, k)}
  ninit = r_live.check_cleared_before_partial(res, db, ["forward.step"], tab)
  res.floor("integrator init-before-partial pairs (R-LIVE.7)", ninit, 6)
  res.rule_text += "; R-SIGN.10: the velocity derivative of the bias force is ADDED (scaled by dt) to the implicit integrator's system matrix M - dt*qDeriv_smooth (tabled sign with its derivation); R-LIVE.7: every integrator workspace that today's tree fully defines before accumulating into it / factorising it in place still has a dominating full definition"
  res.rule_text += "; R-PAIR: RK4 restores qpos/qvel/act from its t0 clones before the final advance; R-SEQ: _advance inserts history before advancing time, advances act, qvel, qpos once each in that order, copies qacc into qacc_warmstart"
