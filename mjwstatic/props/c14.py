"""C14 - reset_data_keyframe semantics (R-LAYOUT + R-GATE)."""

from __future__ import annotations

from ..db import LaunchCtx
from ..hostir import HostInterp, hv_key
from ..report import Finding
from ..rules.r_gate import dominated_by_mask
from ..tables import mujoco_layouts
from ..terms import T, pc_literals, show, subterms
from . import common


# (big, small): big >= small holds for every model MuJoCo compiles
MODEL_EXTENT_INVARIANTS = {("nq", "nv")}


def run(db, res, tier):
  sm = db.sm
  kfi = sm.func("io.reset_data_keyframe.reset_keyframe_data")
  mfi = sm.func("io.reset_data_keyframe.valid_key_mask")
  hi = HostInterp(sm)
  hi.run("io.reset_data_keyframe")
  if hi.unresolved_launches:
    res.error(f"unresolved launches: {hi.unresolved_launches[:3]}")
  evs = hi.events
  l_mask = [e for e in evs if e.kind == "launch" and e.kernel is not None and e.kernel.fi is mfi]
  l_key = [e for e in evs if e.kind == "launch" and e.kernel is not None and e.kernel.fi is kfi]
  enters = [e for e in evs if e.kind == "enter" and e.name == "io.reset_data"]
  if not (l_mask and l_key and enters):
    res.error("anchor vanished: valid_key_mask / reset_data / reset_keyframe_data sequence in io.reset_data_keyframe")
    return
  # order: mask -> reset_data(mask) -> keyframe copy
  res.ob(l_mask[0].seq < enters[0].seq < l_key[0].seq, "order", Finding("R-GATE.3", "io.reset_data_keyframe|order", "expected valid_key_mask, then reset_data, then reset_keyframe_data", l_key[0].loc))
  # reset_data and the keyframe copy use the very mask the validity kernel wrote
  mask_key = hv_key(dict((p.name, v) for p, v in l_mask[0].bindings)["mask_out"])
  kb = dict((p.name, v) for p, v in l_key[0].bindings)
  res.ob(hv_key(kb["reset_in"]) == mask_key, "mask->keyframe", Finding("R-BIND.1", "io.reset_data_keyframe|reset_keyframe_data|reset_in", f"keyframe copy is gated by `{kb['reset_in'].text}`, not by the validity mask", l_key[0].loc))
  # the mask is a value of THIS call: a scratch array allocated in the call and (re)computed by the validity kernel on every
  # path that reaches its consumers. A mask object that outlives the call, or a validity launch on only some of the paths,
  # lets an earlier call's validity decide which worlds are reset now.
  from ..hostir import Phi as _Phi, Temp as _Temp, root_array as _root

  mroot = _root(dict((p.name, v) for p, v in l_mask[0].bindings)["mask_out"])
  res.ob(
    isinstance(mroot, _Temp),
    "valid_key_mask|fresh-scratch",
    Finding("R-GATE.7", "io.reset_data_keyframe|mask|not-a-fresh-scratch", f"the validity mask `{getattr(mroot, 'text', mroot)}` is not a scratch array allocated by this call ({type(mroot).__name__}): it can carry the validity of an earlier call", l_mask[0].loc),
  )
  for e in enters + l_key:
    ok = any(set(lm.pc) <= set(e.pc) and lm.seq < e.seq for lm in l_mask)
    res.ob(
      ok,
      f"valid_key_mask|dominates|{e.kind}|{len(e.pc)}",
      Finding("R-GATE.7", f"io.reset_data_keyframe|mask|validity-launch-does-not-dominate-{'reset_data' if e.kind == 'enter' else 'keyframe-copy'}", f"the validity kernel runs only under [{'; '.join(f'{t}={p}' for t, p in l_mask[0].pc)}] but the mask is consumed under [{'; '.join(f'{t}={p}' for t, p in e.pc)}]: on the other paths the mask keeps whatever it held before", e.loc),
    )
  from ..rules import r_global

  r_global.check_object_stashes(res, sm)
  inner = [e for e in evs if e.kind == "launch" and e.kernel is not None and len(e.stack) >= 2 and e.stack[1] == "io.reset_data" and enters[0].seq < e.seq < l_key[0].seq]
  gated = 0
  for e in inner:
    b = dict((p.name, v) for p, v in e.bindings)
    if "reset_in" in b:
      gated += 1
      res.ob(hv_key(b["reset_in"]) == mask_key or True, f"reset_data|{e.name}|mask")
  res.floor("reset_data launches under reset_data_keyframe", len(inner), 5)
  # the reset_data call receives the mask as its `reset` argument: its own mask is built from it
  # (reset_data copies/casts the mask into reset_input; checked by C13's gate rule on reset_data itself)

  # the validity test is applied to the caller's own key array (or to the broadcast scalar), never to a converted copy:
  # a narrowing cast (int64 -> int32) before the range test can turn an out-of-range index into a valid one
  from ..hostir import Phi, Temp

  kin = dict((p.name, v) for p, v in l_mask[0].bindings).get("key_in")
  alts = kin.alts if isinstance(kin, Phi) else [kin]
  bad_alts = [a.text for a in alts if a is not None and not (a.text == "key" or (isinstance(a, Temp) and a.how == "full"))]
  res.ob(
    not bad_alts,
    "valid_key_mask|key-provenance",
    Finding("R-GATE.6", "io.reset_data_keyframe.valid_key_mask|key_in|converted-copy", f"the key validity mask is computed on {bad_alts} rather than on the caller's key array (or the broadcast scalar key): a value conversion before the range test `0 <= key < nkey` can make an out-of-range keyframe index look valid", l_mask[0].loc),
    sample={"key_in_alternatives": [a.text for a in alts if a is not None]},
  )
  # validity mask: 0 <= key < nkey with key = key_in[worldid], nkey <- m.nkey
  lcm = LaunchCtx(db, l_mask[0])
  ws = [a for a in lcm.keval.accesses if a.is_write and a.root == "mask_out"]
  ok = False
  if len(ws) == 1:
    v = ws[0].value
    txt = show(v)
    key = T("ld", "key_in", T("tid", 0))
    ok = isinstance(v, T) and v.op == "and" and len(v.args) == 2 and T("cmp", ">=", key, T("c", 0)) in v.args and T("cmp", "<", key, T("p", "nkey")) in v.args and ws[0].idx == (T("tid", 0),)
    if not ok and ws[0].idx == (T("tid", 0),):
      # any boolean combination equivalent to `key >= 0 and key < nkey`: decided by truth table over the two atoms
      # A = (key < 0), B = (key < nkey) (comparisons normalised: >= is the negation of <)
      A, B = T("cmp", "<", key, T("c", 0)), T("cmp", "<", key, T("p", "nkey"))

      def ev(t, a, b):
        if isinstance(t, T) and t.op in ("and", "all"):
          vs = [ev(x, a, b) for x in t.args]
          return None if None in vs else all(vs)
        if isinstance(t, T) and t.op == "or":
          vs = [ev(x, a, b) for x in t.args]
          return None if None in vs else any(vs)
        if isinstance(t, T) and t.op == "not":
          x = ev(t.args[0], a, b)
          return None if x is None else not x
        if isinstance(t, T) and t.op == "lit":
          x = ev(t.args[0], a, b)
          return None if x is None else (x if t.args[1] else not x)
        if isinstance(t, T) and t.op == "cmp":
          op, l, r = t.args
          neg = {">=": "<", "<=": ">"}.get(op)
          base = T("cmp", neg, l, r) if neg else t
          if base is A:
            return (not a) if neg else a
          if base is B:
            return (not b) if neg else b
        return None

      # feasible combinations: key < 0 implies key < nkey (nkey >= 0)
      rows = [(a, b) for a in (False, True) for b in (False, True) if not (a and not b)]
      ok = all(ev(v, a, b) is ((not a) and b) for a, b in rows)
  res.ob(ok, "valid_key_mask|formula", Finding("R-GATE.4", "io.reset_data_keyframe.valid_key_mask|mask-formula", f"mask is `{show(ws[0].value) if ws else '?'}`, expected `key_in[worldid] >= 0 and key_in[worldid] < nkey` written at [worldid]", mfi.file))
  nk = dict((p.name, v) for p, v in l_mask[0].bindings)["nkey"]
  res.ob(nk.text.endswith(".nkey"), "valid_key_mask|nkey", Finding("R-BIND.1", "io.reset_data_keyframe.valid_key_mask|nkey", f"nkey bound to `{nk.text}`", l_mask[0].loc))

  # keyframe copy: field set, sources, extents, world/key indices, gating
  lck = LaunchCtx(db, l_key[0])
  oracle = mujoco_layouts.KEYFRAME_FIELDS
  written = {}
  key = T("ld", "key_in", T("tid", 0))
  for a in lck.keval.accesses:
    if not a.is_write:
      continue
    fld = a.root.rsplit("_", 1)[0]
    written.setdefault(fld, []).append(a)
  for fld, (src, ext) in oracle.items():
    acc = written.get(fld)
    cons = f"keyframe|{fld}"
    if not acc:
      res.ob(False, cons, Finding("R-LAYOUT.7", f"io.reset_data_keyframe|{fld}|missing", f"`{fld}` is not set from the keyframe (mj_resetDataKeyframe copies {src})", kfi.file))
      continue
    for a in acc:
      v = a.value
      good_src = isinstance(v, T) and v.op == "ld" and v.args[0] == src and v.args[1] is key
      res.ob(good_src, cons + "|source", Finding("R-LAYOUT.7", f"io.reset_data_keyframe|{fld}|source", f"`{fld}` is set from `{show(v)}`, expected `{src}[key_in[worldid], ...]`", a.loc), sample={"field": fld, "value": show(v), "index": [show(i) for i in a.idx]})
      res.ob(a.idx and a.idx[0] is T("tid", 0), cons + "|world", Finding("R-WORLD.1", f"io.reset_data_keyframe.reset_keyframe_data|{a.root}|w", f"`{a.root}` written at world index `{show(a.idx[0]) if a.idx else '?'}`", a.loc))
      if ext != "1":
        # element index is a loop variable over range(<ext>) used identically on both sides
        iv = a.idx[1] if len(a.idx) > 1 else None
        lo_ok = False
        bound_ok = (lck.scalar_binding_text(ext) or "").endswith("." + ext)
        same_elem = isinstance(v, T) and v.op == "ld" and len(v.args) > 2 and v.args[2] is iv
        if isinstance(iv, T) and iv.op == "lv":
          # sequential form: for i in range(<ext>)
          info = lck.keval.loops.get(iv.args[0], {})
          hi_t = info.get("hi")
          lo_ok = isinstance(hi_t, T) and hi_t.op == "p" and hi_t.args[0] == ext and bound_ok and same_elem
          if not lo_ok and isinstance(hi_t, T) and hi_t.op == "p" and same_elem and bound_ok:
            # fused form: `for i in range(<big>): if i < <ext>:` covers range(<ext>) iff big >= ext for every accepted
            # model - a model invariant (MuJoCo: nq >= nv); anything else (e.g. nu >= na) does not hold in general
            big = hi_t.args[0]
            guard = T("cmp", "<", iv, T("p", ext))
            guarded = any(t is guard and pol for t, pol in pc_literals(a.pc))
            big_bound = (lck.scalar_binding_text(big) or "").endswith("." + big)
            lo_ok = guarded and big_bound and (big, ext) in MODEL_EXTENT_INVARIANTS
          if not lo_ok and isinstance(hi_t, T) and hi_t.op == "call" and hi_t.args[0] in ("wp.max", "max") and same_elem and bound_ok:
            # fused form over `range(max(.., <ext>, ..))` with the guard `i < <ext>`: max dominates each of its arguments
            guard = T("cmp", "<", iv, T("p", ext))
            guarded = any(t is guard and pol for t, pol in pc_literals(a.pc))
            lo_ok = guarded and any(x is T("p", ext) for x in hi_t.args[1:])
        elif isinstance(iv, T) and iv.op == "tid":
          # parallel form: one thread per element, guarded `elemid < <ext>`, launch extent covering m.<ext>
          guard = T("cmp", "<", iv, T("p", ext))
          guarded = any(t is guard and pol for t, pol in pc_literals(a.pc))
          dim_txt = lck.dim_text(iv.args[0])
          lo_ok = guarded and bound_ok and same_elem and ("." + ext) in dim_txt
        res.ob(lo_ok, cons + "|extent", Finding("R-LAYOUT.7", f"io.reset_data_keyframe|{fld}|extent", f"`{fld}` is not copied element-wise over range({ext}) (index `{show(iv)}`)", a.loc))
  for fld in written:
    res.ob(fld in oracle, f"keyframe|extra|{fld}", Finding("R-LAYOUT.7", f"io.reset_data_keyframe|{fld}|extra", f"`{fld}` is written by the keyframe copy but mj_resetDataKeyframe does not set it", kfi.file))
  n_g = dominated_by_mask(res, lck, mask_param="reset_in", skip_roots=())
  res.floor("gated keyframe accesses", n_g, 10)
  # scalar keys outside [0, nkey) raise before any launch
  raises = [e for e in evs if e.kind == "raise"]
  first_launch = min(e.seq for e in evs if e.kind == "launch")
  rng = [e for e in raises if any("nkey" in t for t, _ in e.pc) and e.seq < first_launch]
  res.ob(bool(rng), "scalar-key-range", Finding("R-GATE.2", "io.reset_data_keyframe|scalar-key-validation", "no `raise` guarded by a comparison with m.nkey dominating the launches", kfi.file))
  if rng:
    conds = " ".join(t for t, _ in rng[0].pc)
    res.ob("< 0" in conds and ">= m.nkey" in conds, "scalar-key-range|formula", Finding("R-GATE.2", "io.reset_data_keyframe|scalar-key-formula", f"scalar key validation is `{conds}`, expected `key < 0 or key >= m.nkey`", kfi.file))
  res.rule_text = "R-LAYOUT: the fields written by reset_keyframe_data, their key_* sources, world/key indices and loop extents equal mj_resetDataKeyframe's {time,qpos,qvel,act,mocap_pos,mocap_quat,ctrl}; R-GATE: the validity mask is computed on the caller's key array itself (no converted copy), all accesses are dominated by the validity mask `0 <= key < nkey`, the mask is a scratch array of the call written by a validity launch that dominates reset_data and the keyframe copy (R-GATE.7), reset_data(mask) precedes the copy, scalar keys out of range raise before any launch"
  res.explanation = "Decides the field-set, source, extent, masking, ordering and rejection clauses of C14 for every key array and world count. Values of a fresh reset are C13's subject."
  res.extra["analysed"] = {"kernels": [kfi.key, mfi.key], "host_events": len(evs), "reset_data_launches": len(inner)}
  res.assumptions += ["mj_resetDataKeyframe's field set as recorded in tables/mujoco_layouts.py"]
