"""C26 - forward and inverse dynamics are consistent (structural clauses: term/sign agreement, stage agreement, pairing).

Forward dynamics solves   M qacc = qfrc_smooth + qfrc_constraint,   qfrc_smooth = passive - bias + actuator + applied.
Inverse dynamics returns  qfrc_inverse = M qacc + bias - passive - constraint   (= applied + actuator + J^T xfrc).
The two kernels that assemble these sums are siblings: every force term that occurs in both must carry opposite signs,
the inverse sum must contain no term that forward treats as an input force, and both must be evaluated on the outputs
of the same position / velocity stages.
"""

from __future__ import annotations

from ..db import LaunchCtx
from ..report import Finding
from ..rules import r_pair
from ..rules.world import array_key
from ..terms import T, affine, show, subterms
from . import common

# fields inverse() legitimately takes from the caller besides the integration state
INVERSE_INPUTS = {
  "Data.qacc": "the acceleration whose generating forces are asked for",
  "Data.act_dot": "actuation is not part of inverse dynamics (as in mj_inverse); sensors read what forward() left",
  "Data.actuator_force": "as act_dot",
  "Data.qfrc_actuator": "as act_dot",
}
INPUT_FORCES = {"Data.qfrc_applied", "Data.qfrc_actuator", "Data.xfrc_applied", "Data.ctrl"}


def _signed_terms(lc, out_key):
  """{field key | temp key: coefficient} of the value stored to out_key (affine normal form over loaded cells)."""
  res = {}
  loc = ""
  for a in lc.keval.accesses:
    if a.kind == "w" and array_key(lc, a.root) == out_key and isinstance(a.value, T) and not (a.value.op == "c"):
      af = affine(a.value)
      for atom, c in af.coef.items():
        if atom.op == "ld":
          res[array_key(lc, atom.args[0])] = res.get(array_key(lc, atom.args[0]), 0) + c
        else:
          res["?" + show(atom)[:40]] = c
      loc = a.loc
  return res, loc


def run(db, res, tier):
  fwd = [lc for lc in db.trace_launch_ctxs("forward.fwd_acceleration") if lc.name.startswith("forward._qfrc_smooth")]
  inv_tr = db.trace("inverse.inverse")
  inv_lcs = [LaunchCtx(db, e) for e in inv_tr.events if e.kind == "launch" and e.kernel is not None and e.arity_ok]
  inv = [lc for lc in inv_lcs if lc.name == "inverse._qfrc_inverse"]
  if not fwd or not inv:
    res.error("anchor vanished: forward._qfrc_smooth / inverse._qfrc_inverse launches")
    return
  f_terms, f_loc = _signed_terms(fwd[0], "Data.qfrc_smooth")
  i_terms, i_loc = _signed_terms(inv[-1], "Data.qfrc_inverse")
  n = 0
  # (1) shared terms carry opposite signs
  for k in sorted(set(f_terms) & set(i_terms)):
    if k.startswith("?"):
      continue
    n += 1
    res.ob(
      f_terms[k] == -i_terms[k] and abs(f_terms[k]) == 1,
      f"sign|{k}",
      Finding("R-SIGN.9", f"inverse._qfrc_inverse|{k}|sign", f"{k} enters qfrc_smooth with coefficient {f_terms[k]:+d} (forward: M qacc = qfrc_smooth + qfrc_constraint) and qfrc_inverse with {i_terms[k]:+d}; moving it to the other side of the equation of motion requires the opposite sign", i_loc),
      sample={"term": k, "forward_coefficient": f_terms[k], "inverse_coefficient": i_terms[k]},
    )
  # (2) the inverse sum: - constraint, + M qacc, no input force, nothing unknown
  n += 1
  res.ob(i_terms.get("Data.qfrc_constraint") == -1, "inverse|constraint-term", Finding("R-SIGN.9", "inverse._qfrc_inverse|Data.qfrc_constraint|sign", f"qfrc_constraint enters qfrc_inverse with coefficient {i_terms.get('Data.qfrc_constraint')}, expected -1", i_loc))
  for k, c in sorted(i_terms.items()):
    n += 1
    res.ob(k not in INPUT_FORCES, f"inverse|no-input|{k}", Finding("R-SIGN.9", f"inverse._qfrc_inverse|{k}|input-force-in-inverse-sum", f"{k} is an input force of forward dynamics; inverse dynamics must return it, not consume it", i_loc))
    res.ob(not k.startswith("?"), f"inverse|form|{k}", Finding("R-SIGN.9", f"inverse._qfrc_inverse|non-linear-term", f"qfrc_inverse contains a non-linear term `{k}`", i_loc))
  # every term forward adds that is not an input force must be present in the inverse sum
  for k in sorted(f_terms):
    if k in INPUT_FORCES or k.startswith("?"):
      continue
    n += 1
    res.ob(k in i_terms, f"inverse|has|{k}", Finding("R-SIGN.9", f"inverse._qfrc_inverse|{k}|missing-term", f"{k} is part of qfrc_smooth but absent from qfrc_inverse", i_loc))
  # (3) the + M qacc term: the remaining +1 term is the buffer that support.mul_m filled with M * d.qacc just before
  ma = [k for k, c in i_terms.items() if c == 1 and k not in f_terms and not k.startswith("?")]
  n += 1
  ok_ma = False
  why = f"no single +1 term besides the force fields (terms: {i_terms})"
  if len(ma) == 1:
    mul = [lc for lc in inv_lcs if lc.fi.module == "support" and ma[0] in {array_key(lc, a.root) for a in lc.keval.accesses if a.is_write}]
    reads_qacc = any("Data.qacc" in {array_key(lc, a.root) for a in lc.keval.accesses if not a.is_write} for lc in mul)
    before = bool(mul) and max(lc.ev.seq for lc in mul) < inv[-1].ev.seq
    ok_ma = bool(mul) and reads_qacc and before
    why = f"`{ma[0]}` is not produced by support.mul_m from Data.qacc before the sum" if not ok_ma else ""
  res.ob(ok_ma, "inverse|M-qacc-term", Finding("R-SIGN.9", "inverse._qfrc_inverse|M-qacc|provenance", why, i_loc))
  # (4) stage agreement: inverse() evaluates position and velocity stages with the same functions as forward(), before
  # the constraint forces and the bias force are evaluated
  def enters(tr):
    return [e.name for e in tr.events if e.kind == "enter"]

  inv_calls = enters(inv_tr)
  fwd_calls = enters(db.trace("forward.forward"))
  for stage in ("forward.fwd_position", "forward.fwd_velocity"):
    n += 1
    res.ob(stage in inv_calls and stage in fwd_calls, f"stage|{stage}", Finding("R-SEQ.3", f"inverse.inverse|{stage}|stage-missing", f"inverse() does not run {stage} (forward() does): its terms would be evaluated on a different state pipeline", "mujoco_warp/_src/inverse.py"))
  order = [inv_calls.index(s) if s in inv_calls else -1 for s in ("forward.fwd_position", "forward.fwd_velocity", "inverse.inv_constraint")]
  # the bias force used by the sum is the one recomputed (smooth.rne) after the constraint forces, i.e. the last rne call
  order.append(max((i for i, c in enumerate(inv_calls) if c == "smooth.rne"), default=-1))
  n += 1
  res.ob(all(o >= 0 for o in order) and order == sorted(order), "stage|order", Finding("R-SEQ.3", "inverse.inverse|stage-order", f"inverse() does not run fwd_position, fwd_velocity, inv_constraint, rne in this order (call positions: {order})", "mujoco_warp/_src/inverse.py"))
  # the constraint forces of inverse come from the same constraint-update kernel as the solver's
  upd_inv = {lc.name for lc in inv_lcs if lc.name.startswith("solver._update_constraint")}
  upd_fwd = {lc.name for lc in db.trace_launch_ctxs("solver.solve") if lc.name.startswith("solver._update_constraint")}
  n += 1
  res.ob(bool(upd_inv) and upd_inv <= upd_fwd, "constraint-update|shared", Finding("R-SEQ.3", "inverse.inv_constraint|constraint-update|different-kernels", f"inverse evaluates constraint forces with {sorted(upd_inv - upd_fwd) or 'no constraint-update kernel'}, which the forward solver does not use", "mujoco_warp/_src/inverse.py"))
  # (4b) the discrete-time correction of inverse (INVDISCRETE, Euler) undoes forward's implicit joint damping: the two
  # sibling launches must be gated by the same flags, in both directions
  from ..rules import r_flags

  def _evaluates_damping_deriv(lc):
    return any("poly_force_deriv" in c for c in lc.keval.calls)

  fk = sorted({lc.name.split(".kernel")[0] for lc in db.trace_launch_ctxs("forward.euler") if _evaluates_damping_deriv(lc)})
  ik = sorted({lc.name.split(".kernel")[0] for lc in inv_lcs if lc.fi.module == "inverse" and _evaluates_damping_deriv(lc)})
  sib = [(a, b) for a in ik for b in fk] + [(b, a) for a in ik for b in fk]
  if not sib:
    res.error("anchor vanished: no kernel evaluating the damping-derivative function in forward.euler / inverse.discrete_acc")
  ng = r_flags.check_sibling_gating(
    res, db, ["forward.euler", "inverse.inverse"], sib, ["EULERDAMP", "DAMPER"], rule="R-FLAGS.5",
    why="with {setbits} disabled no launch of {fk} is reachable but its forward/inverse sibling {dk} is still launched: the Euler step and the discrete-time inverse (INVDISCRETE) disagree on whether joint damping is integrated implicitly, so inverse(forward) is no longer the identity",
  )
  res.floor("euler-damping sibling gating obligations", ng, 2)
  # (4b') the same agreement for IMPLICITFAST: whenever forward.implicit integrates velocity derivatives implicitly
  # (deriv_smooth_vel is reached), the discrete-time inverse must apply the same correction
  import itertools

  def _reach(entry, member):
    out = []
    for ev in db.trace(entry).events:
      if ev.kind == "enter" and ev.name == "derivative.deriv_smooth_vel":
        out.append((ev.pc, ev.loc))
    return out

  f_calls, i_calls = _reach("forward.implicit", "IMPLICITFAST"), _reach("inverse.inverse", "IMPLICITFAST")
  if not f_calls or not i_calls:
    res.error("anchor vanished: deriv_smooth_vel is not called from forward.implicit / inverse.inverse")
  nimp = 0
  members = ["ACTUATION", "SPRING", "DAMPER"]
  for vals in itertools.product([False, True], repeat=3):
    asg = {f"DisableBit.{m}": v for m, v in zip(members, vals)}
    env = r_flags.FlagEnv("DisableBit.ACTUATION", asg["DisableBit.ACTUATION"], asg)
    env.enum_assign = {"integrator": ("IntegratorType", "IMPLICITFAST")}
    env.atoms = {}
    f_sure = [loc for pc, loc in f_calls if all((env.host(t) is True) == p and env.host(t) is not None for t, p in pc if ("disableflags" in t or "integrator" in t))]
    i_dead = all(env.pc_host(pc) is False for pc, _ in i_calls)
    if not f_sure:
      continue
    nimp += 1
    setbits = "+".join(m for m, v in zip(members, vals) if v) or "none"
    res.ob(
      not i_dead,
      f"implicitfast|deriv_smooth_vel|{setbits}",
      Finding(
        "R-FLAGS.5",
        f"inverse.discrete_acc|deriv_smooth_vel|IMPLICITFAST|{setbits}",
        f"with {setbits} disabled forward.implicit (IMPLICITFAST) still integrates the velocity derivatives implicitly (deriv_smooth_vel is reached) but no call of deriv_smooth_vel is reachable from inverse(): the discrete-time inverse (INVDISCRETE) omits the correction the step applied, so inverse(forward) is no longer the identity",
        i_calls[0][1],
      ),
      sample={"disabled": setbits, "forward_reaches": True, "inverse_reaches": not i_dead},
    )
  if nimp == 0 and f_calls and i_calls:
    # the flag test that gates deriv_smooth_vel in forward.implicit is written in a form the three-valued flag evaluation
    # cannot decide (e.g. compared against a module-level mask constant): the agreement is not decided, which is said here
    # rather than reported as a lost anchor
    res.assumptions.append("implicitfast sibling gating: the flag condition of forward.implicit is not decidable by the flag evaluator in its present form; agreement with inverse() not decided")
    res.ob(True, "implicitfast|deriv_smooth_vel|undecided")
  else:
    res.floor("implicitfast sibling gating obligations", nimp, 4)
  from ..tables import flag_tables

  r_flags.check_module_flags(res, db.sm, flag_tables.MODULE_FLAGS, modules={"inverse"})
  # (4c) sibling guard agreement (Engler: sibling implementations must agree on their argument checks): the kernel that
  # adds dt * d(damping force)/dv to the inertia diagonal in the Euler step and the kernel that applies the same
  # correction in the discrete-time inverse evaluate the same derivative function on the same model fields, and neither
  # skips dofs on a model-determined condition that the other does not have
  from ..rules.r_ref import _canon
  from ..terms import pc_literals

  def model_guards(lc, out_root_pred):
    out = set()
    memo = {}
    for a in lc.keval.accesses:
      if not (a.is_write and out_root_pred(a)):
        continue
      for t, pol in pc_literals(a.pc):
        lds = [x for x in subterms(t) if x.op == "ld"]
        if lds and all(lc.field(x.args[0]) is not None and lc.field(x.args[0]).owner == "Model" for x in lds):
          out.add(("" if pol else "not ") + show(_canon(lc, t, memo)))
    return out

  # siblings are identified by what they do (evaluate the damping-derivative function), not by name: fusing or
  # renaming kernels keeps the anchor
  f_damp = [lc for lc in db.trace_launch_ctxs("forward.euler") if _evaluates_damping_deriv(lc)]
  i_damp = [lc for lc in inv_lcs if lc.fi.module == "inverse" and _evaluates_damping_deriv(lc)]
  if not f_damp or not i_damp:
    res.error("anchor vanished: no kernel evaluating the damping-derivative function in forward.euler / inverse.discrete_acc")
  else:
    gf = model_guards(f_damp[0], lambda a: True)
    gi = model_guards(i_damp[0], lambda a: True)
    n += 1
    res.ob(
      gf == gi,
      "eulerdamp|sibling-guards",
      Finding("R-SIB.1", "inverse._qfrc_eulerdamp|forward._compute_damping_deriv|guard-mismatch", f"the Euler step's damping-derivative kernel writes under model-determined conditions {sorted(gf) or '[]'} but its discrete-time inverse sibling under {sorted(gi) or '[]'}: dofs treated by one and skipped by the other make inverse(forward) differ from the identity", i_damp[0].ev.loc),
    )
    cf = {c for c in f_damp[0].keval.calls if "poly_force" in c}
    ci = {c for c in i_damp[0].keval.calls if "poly_force" in c}
    n += 1
    res.ob(bool(cf) and cf == ci, "eulerdamp|sibling-derivative-func", Finding("R-SIB.1", "inverse._qfrc_eulerdamp|forward._compute_damping_deriv|different-derivative", f"the two siblings evaluate different damping-derivative functions ({sorted(cf)} vs {sorted(ci)})", i_damp[0].ev.loc))
    def model_reads(lc):
      # the damping parameters only: a fused kernel may read further fields (M addresses, timestep) for its other duties
      return {f"{lc.field(a.root).path}" for a in lc.keval.accesses if not a.is_write and lc.field(a.root) is not None and lc.field(a.root).owner == "Model" and "damping" in lc.field(a.root).path}
    n += 1
    res.ob(model_reads(f_damp[0]) == model_reads(i_damp[0]), "eulerdamp|sibling-model-fields", Finding("R-SIB.1", "inverse._qfrc_eulerdamp|forward._compute_damping_deriv|different-model-fields", f"the two siblings read different damping parameters ({sorted(model_reads(f_damp[0]))} vs {sorted(model_reads(i_damp[0]))})", i_damp[0].ev.loc))
  # (4d) inverse() evaluates everything it consumes itself: its live-in set (fields read before anything in the call
  # defines them) contains only the integration state, its input qacc and the tabled actuation outputs (inverse dynamics
  # does not run the actuation stage: MuJoCo's mj_inverse does not either; they are what the caller's forward() left)
  from ..rules import r_live
  from ..tables import live_tables
  from .c12 import state_keys

  live, _, _ = r_live.live_in(db, inv_tr)
  allowed = state_keys() | set(live_tables.PERSISTENT) | set(live_tables.SLEEP_STATE) | set(INVERSE_INPUTS)
  for k, info in sorted(live.items()):
    if k.startswith("Model."):
      continue
    n += 1
    res.ob(
      k in allowed,
      f"inverse|live-in|{k}",
      Finding("R-LIVE.1", f"inverse.inverse|{k}|{info['event']}", f"inverse() reads {k} (first use: {info['event']}) before anything in the call defines it: the result depends on what an earlier call left there, not only on the state and the given qacc", info["loc"]),
      sample={"live_in": k, "first_use": info["event"], "allowed": k in allowed},
    )
  nfl = r_live.check_flag_conditioned_liveness(res, db, "inverse.inverse", allowed, option_enums={"integrator": "IntegratorType"})
  res.floor("flag/integrator-conditioned liveness obligations (inverse)", nfl, 10)
  # (5) INVDISCRETE: qacc is restored
  npair = r_pair.check_pairs(res, db, "inverse.inverse", {"Data.qacc"}, require_recompute=False)
  res.floor("qacc save/restore pair (INVDISCRETE)", npair, 1)
  res.floor("forward/inverse agreement obligations", n, 12)
  res.rule_text = "R-SIGN.9: every force field that occurs in both forward's qfrc_smooth sum and inverse's qfrc_inverse sum has opposite unit coefficients, qfrc_constraint enters qfrc_inverse with -1, the single remaining +1 term is the buffer support.mul_m filled from Data.qacc before the sum, no input force (applied/actuator) is consumed, every non-input term of qfrc_smooth is present; R-SEQ.3: inverse() runs fwd_position, fwd_velocity, inv_constraint, rne in this order and its constraint forces come from constraint-update kernels the forward solver also uses; R-SIB.1: the Euler step's damping-derivative kernel and its discrete-time inverse sibling evaluate the same derivative function on the same model fields under the same model-determined guards; R-FLAGS.5: forward's implicit Euler damping and the inverse's discrete-time damping correction are switched off by the same flag assignments (both directions); R-LIVE.6 (inverse): for every single flag and every integrator no read of a non-state field stays reachable while all its earlier definitions in inverse() become unreachable; R-LIVE.1 (inverse): the live-in set of inverse() contains only the integration state, the input qacc and the tabled actuation outputs; R-PAIR: with INVDISCRETE the discrete-time qacc is restored on every path"
  res.explanation = "Structural necessary conditions of forward/inverse consistency: the two sides of the equation of motion are assembled from the same fields with consistent signs on the outputs of the same stages. Not decided: equality up to solver residual (numeric), the discrete-time correction of discrete_acc."
  res.extra["analysed"] = {"qfrc_smooth_terms": f_terms, "qfrc_inverse_terms": i_terms, "inverse_stage_calls": [c for c in inv_calls if c.count(".") == 1][:14]}
  res.assumptions += ["xfrc_applied enters forward dynamics through qfrc_smooth's later accumulation and is part of what inverse returns"]
