"""C39 - contact_force: family A clauses on the decode kernel + record consistency of the decoded rows."""

from ..report import Finding
from ..rules.world import array_key
from ..terms import T, alternatives, show, subterms
from . import family_a


def run(db, res, tier):
  scope = family_a.run_family(db, res, tier, "C39")
  # record consistency: every constraint force the decode reads sits in the world of the requested contact
  # (contact.worldid[cid]) at a row taken from that same contact's efc_address record
  n = 0
  for lc in scope:
    for a in lc.keval.accesses:
      if a.is_write or array_key(lc, a.root) != "Data.efc.force" or len(a.idx) < 2:
        continue
      n += 1
      w, r = a.idx[0], a.idx[1]
      cids = {alt.args[1] for alt in alternatives(w) if isinstance(alt, T) and alt.op == "ld" and array_key(lc, alt.args[0]) == "Data.contact.worldid" and len(alt.args) == 2}
      okw = bool(cids) and all(isinstance(alt, T) and alt.op == "ld" and array_key(lc, alt.args[0]) == "Data.contact.worldid" for alt in alternatives(w))
      rows = [s for s in subterms(r) if s.op == "ld" and array_key(lc, s.args[0]) == "Data.contact.efc_address"]
      okr = bool(rows) and all(s.args[1] in cids for s in rows)
      res.ob(
        okw and okr,
        f"{lc.name}|efc_force|{show(r)[:40]}",
        Finding(
          "R-RECORD.2",
          f"{lc.name}|efc.force|row-of-another-contact-or-world",
          f"the decode reads efc.force[{show(w)[:50]}, {show(r)[:70]}]: the world must be contact.worldid[cid] and the row an entry of contact.efc_address[cid, .] of the SAME requested contact cid",
          a.loc,
        ),
        sample={"kernel": lc.name, "world": show(w)[:50], "row": show(r)[:60]} if n <= 2 else None,
      )
  res.floor("constraint-force reads of the decode (R-RECORD.2)", n, 2)
  res.rule_text += "; R-RECORD.2: every efc.force cell the decode reads is in world contact.worldid[cid] at a row from contact.efc_address[cid, .] of the same requested contact"
