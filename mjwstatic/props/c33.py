"""C33 - set_const (state-restoration and batched-write clauses)."""

from ..report import Finding
from ..rules import r_batch, r_bind, r_live, r_pair, r_ref, r_world
from . import common
from .c12 import state_keys


def run(db, res, tier):
  st = state_keys()
  npairs = 0
  for entry in ("set_const.set_const_0", "set_const.set_const_spring", "set_const.set_const"):
    npairs += r_pair.check_pairs(res, db, entry, st, lit={"restore": True})
    npairs += r_pair.check_pairs(res, db, entry, st, lit={"restore": False}, require_recompute=False)
  res.floor("save/restore pairs", npairs, 4)
  nmw = 0
  for entry in ("set_const.set_const_0", "set_const.set_const_spring"):
    nmw += r_pair.check_model_writes_before_restore(res, db, entry, st, lit={"restore": True})
  res.floor("model-writes-before-restore obligations", nmw, 2)
  ncomp = r_pair.check_composed_restore(res, db, "set_const.set_const", st, lit={"restore": True})
  res.floor("composed restore obligations (set_const)", ncomp, 1)
  nloop = 0
  for entry in ("set_const.set_const_0", "set_const.set_const_spring"):
    nloop += r_live.check_loop_scratch(res, db, db.trace(entry, restore=True), entry)
  res.floor("scatter-then-read scratch vectors in per-object loops", nloop, 2)
  lcs = [lc for lc in db.launch_ctxs() if lc.fi.module == "set_const"]
  tags = r_world.discover_tags(db.launch_ctxs())
  nb, unknown = r_batch.check_batch(res, lcs, tags)
  res.floor("batched accesses in set_const", nb, 34)
  n, same, temp, other = r_bind.check_bindings(res, lcs)
  res.floor("set_const bindings", n, 65)
  n1, n2 = r_ref.check_reference_fields(res, db.launch_ctxs())
  res.floor("reference-offset decode sites (package-wide)", n1, 4)
  res.rule_text = "R-REF.1: every reference offset field written by set_const as `X - base[idx]` is decoded by the step kernels against one of the same base cells; R-PAIR: set_const_0 / set_const_spring / set_const restore every integration-state field they overwrite, on every path and as the last write; with restore=True every Data field computed at the temporary state is recomputed after the restore; R-PAIR.4: in set_const_0 / set_const_spring no launch writes a Model field from Data or scratch arrays after the state field was restored (derived Model fields are evaluated at the reference configuration); R-PAIR.3: the composed set_const(restore=True) recomputes after the last restore every Data field that any nested helper evaluated at a temporary state, also under a case split on each configuration atom of the re-run stages (e.g. `m.ntendon == 0`); R-LIVE.4: the scratch vectors that the per-tendon / per-actuator / per-body loops fill by sparse-column scatter and then solve with are cleared inside each iteration before the scatter; R-BATCH: every batched field read or written by the set_const kernels is indexed by the thread's batch index modulo that field's own size; R-BIND: launch bindings conform"
  res.explanation = "Decides the state-restoration and batched-indexing clauses of C33. Not decided: that the derived values equal mj_setConst's (numeric)."
  res.extra["analysed"] = common.analysed(db, lcs)
  res.assumptions += ["tabled binding exception qpos0 <- m.qpos_spring in set_const_spring"]
