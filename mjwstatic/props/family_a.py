"""Family A (C01-C05, C07, C08): 'agrees with MuJoCo C' - structural clauses only.

Decided: every launch reachable from the property's stage functions binds each schema-named formal to
the same-named field (R-BIND), read-only Data formals are not written, every enum member the stage
dispatches on is still handled where the confirmed baseline handles it (R-DISPATCH), and index spaces
agree (R-SORT, when available). NOT decided: any arithmetic.
"""

from __future__ import annotations

from ..rules import r_batch, r_bind, r_dispatch, r_ref, r_sort, r_world, r_norm
from . import common

SPEC = {
  "C01": dict(
    entries=["forward.fwd_kinematics"],
    enums=["JointType", "CamLightType", "WrapType"],
    areas={"kinematics_dynamics"},
    what="kinematics, com_pos, camlight, flex and tendon stages",
    floor_bind=200,
    floor_frame=5,
    floor_quat=2,
    floor_ref=(4, 1),
    floor_sparse=3,
  ),
  "C02": dict(
    entries=["smooth.crb", "smooth.tendon_armature", "smooth.factor_m", "forward.fwd_velocity", "forward.fwd_acceleration", "smooth.solve_m", "support.mul_m", "smooth.rne", "passive.passive"],
    enums=["JointType", "GeomType", "DisableBit"],
    areas={"kinematics_dynamics", "passive", "forward"},
    what="inertia, bias force, passive force and smooth acceleration stages",
    floor_bind=290,
    floor_frame=6,
  ),
  "C03": dict(
    entries=["forward.fwd_actuation", "smooth.transmission", "forward._advance"],
    enums=["TrnType", "DynType", "GainType", "BiasType"],
    areas={"kinematics_dynamics", "forward"},
    what="transmission, actuator force and activation integration",
    floor_bind=400,
    floor_frame=9,
  ),
  "C04": dict(
    entries=["collision_driver.collision"],
    enums=["GeomType", "CollisionType", "ContactType", "BroadphaseType", "BroadphaseFilter"],
    areas={"collision"},
    what="broadphase, narrowphase and contact writer",
    floor_bind=450,
  ),
  "C05": dict(
    entries=["constraint.make_constraint"],
    enums=["EqType", "ConstraintType", "ConeType", "ObjType"],
    areas={"constraint_solver"},
    what="constraint row builders",
    floor_bind=560,
    floor_frame=12,
    floor_ref=(0, 3),
  ),
  "C07": dict(
    entries=["sensor.sensor_pos", "sensor.sensor_vel", "sensor.sensor_acc", "sensor.energy_pos", "sensor.energy_vel"],
    enums=["SensorType", "ObjType", "DataType"],
    areas={"sensor"},
    what="sensor stages and energy",
    floor_bind=450,
    floor_frame=10,
  ),
  "C39": dict(
    entries=["support.contact_force"],
    enums=[],
    areas=set(),
    what="contact wrench decode kernel",
    floor_bind=8,
    floor_sort=2,
  ),
  "C22": dict(
    entries=["support.jac", "constraint.make_constraint", "smooth.transmission", "smooth.tendon"],
    select=lambda lc: any(k in lc.name.lower() for k in ("jac", "transmission", "tendon")) or lc.fi.module == "support",
    enums=[],
    areas=set(),
    what="point, constraint-row, tendon and actuator Jacobian kernels",
    floor_sparse=3,
    floor_bind=150,
    floor_sort=20,
  ),
  "C27": dict(
    entries=["derivative.deriv_smooth_vel", "forward.implicit"],
    select=lambda lc: lc.fi.module == "derivative",
    enums=[],
    areas=set(),
    what="velocity-derivative kernels (actuation, damping, fluid, tendon, Coriolis)",
    floor_bind=60,
    floor_sort=10,
  ),
  "C40": dict(
    entries=["smooth.flex", "passive.passive", "constraint.make_constraint", "collision_driver.collision", "forward.fwd_velocity"],
    select=lambda lc: "flex" in lc.name.lower() or lc.fi.module == "collision_flex",
    enums=[],
    areas=set(),
    what="flex kinematics, flex passive forces, flex constraint rows and flex collision kernels",
    floor_bind=300,
    floor_sort=20,
  ),
  "C08": dict(
    entries=["forward.euler", "forward.implicit", "forward.rungekutta4"],
    enums=["IntegratorType", "JointType"],
    areas={"forward", "kinematics_dynamics"},
    what="integrators and state advance",
    floor_bind=2800,
    floor_frame=40,
  ),
}


def run_family(db, res, tier, prop, extra=None):
  spec = SPEC[prop]
  scope = common.scope_from_entries(db, spec["entries"], res)
  if "select" in spec:
    scope = [lc for lc in scope if spec["select"](lc)]
  n, same, temp, other = r_bind.check_bindings(res, scope)
  nw = r_bind.check_in_not_written(res, scope)
  res.floor("schema-named bindings", n, spec["floor_bind"])
  ns, nknown = r_sort.check_sorts(res, scope)
  res.extra["index_space_checks"] = {"indices_examined": ns, "with_known_space": nknown}
  if nknown < spec.get("floor_sort", 20):
    res.error(f"floor index-space checks: {nknown} < {spec.get('floor_sort', 20)}")
  tags = r_world.discover_tags(list(db.launch_ctxs()) + list(scope))
  nb, _ = r_batch.check_batch(res, scope, tags)
  res.extra["batched_model_accesses"] = nb
  nd = r_dispatch.check_dispatch(res, db.sm, spec["enums"], spec["areas"]) if spec["enums"] else 0
  if spec["enums"]:
    res.floor("dispatch obligations", nd, 3)
  enc_side = [lc for lc in db.launch_ctxs() if lc.fi.module == "set_const"]
  n1, n2 = r_ref.check_reference_fields(res, list(scope) + enc_side)
  if "floor_ref" in spec:
    res.floor("reference-offset decode sites", n1, spec["floor_ref"][0])
    res.floor("reference/current paired-index sites", n2, spec["floor_ref"][1])
  nsq = r_norm.check_state_quats_normalised(res, list(scope))
  res.extra["state_quaternion_sites"] = nsq
  if "floor_quat" in spec:
    res.floor("quaternions assembled from qpos (R-NORM.5)", nsq, spec["floor_quat"])
  nsp = r_sort.check_model_structured_sparse(res, list(scope))
  res.extra["model_structured_sparse_stores"] = nsp
  if "floor_sparse" in spec:
    res.floor("stores into model-structured sparse rows (R-SPARSE.1)", nsp, spec["floor_sparse"])
  nfr = r_ref.check_com_frame(res, list(scope))
  res.extra["com_frame_sites"] = nfr
  if "floor_frame" in spec:
    res.floor("subtree_com reads in com-based kernels (R-FRAME.1)", nfr, spec["floor_frame"])
  if extra is not None:
    extra(db, res, tier, scope)
  res.rule_text = "R-SPARSE.1: a store into a slot of the model-structured sparse tendon Jacobian is dominated by the test that the slot's ten_J_colind entry is the intended dof; R-NORM.5: every quaternion assembled from four qpos loads passes through wp.normalize before any other use; R-FRAME.1: a kernel that touches a com-based spatial quantity (cdof, cvel, cacc, cfrc_*, cinert) reads Data.subtree_com only at body_rootid[...] cells (the reference point those quantities are expressed about); R-REF: a Model reference field that set_const stores as an offset from a Data base cell is decoded against one of the base cells it was encoded against, and a Data field combined with its same-space reference field (qpos/qpos0, ten_length/tendon_length0, ...) is read at the same element; R-BATCH: every batched Model field the stage kernels touch is indexed by the thread's world index modulo that field's own leading extent; R-SORT: an index whose index space is known (thread index over a model extent, value of an index-valued model array, address + offset) is never used in an array dimension of a different space; R-BIND: each launch formal named after a schema field is bound to that field (or a temp/ctx array/tabled pair), ranks agree, read-only Data formals are not written; R-DISPATCH: every enum member the stage dispatches on is still referenced in the areas where the confirmed baseline handles it"
  res.explanation = (
    f"Structural necessary conditions of {prop} for the {spec['what']}: the kernels reachable from {', '.join(spec['entries'])} read and write the arrays "
    "they are declared to (a swapped pair of same-typed launch arguments compiles and passes any test that does not vary both fields), no type member lost its handler, and index spaces (body / joint / dof / qpos / geom / ... ids) are not mixed - a bug class that fixtures hide whenever the spaces coincide numerically (hinge-only models have jntid == dofid == qposadr). "
    " NOT decided: numerical agreement with MuJoCo (formulas, signs, tolerances) - no static argument in reach bounds float results."
  )
  res.extra["analysed"] = common.analysed(db, scope)
  res.extra["bindings"] = {"same_field": same, "temp_or_ctx": temp, "different_field_tabled": other}
  res.extra["enums"] = spec["enums"]
  res.assumptions += ["the confirmed dispatch baseline (tables/dispatch_tables.py) was correct on the pinned tree", "kernel parameter naming convention (_in/_out, opt_/stat_/efc_/contact_ prefixes) as enforced by contrib/kernel_analyzer"]
  return scope
