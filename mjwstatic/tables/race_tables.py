"""Tables for R-RACE. Every entry carries its argument; keys are (kernel key, array parameter / host key)."""

# index-valued arrays that map distinct elements to distinct cells (beyond the `Model.*adr` naming rule)
INJECTIVE_MAPS = {
  "Data.contact.efc_address": "rows are allocated per (contact, dim) by atomic_add in _efc_contact_init: distinct pairs get distinct rows of their own world",
  "Data.efc.J_rowadr": "row start addresses are allocated by atomic_add on the per-world nnz counter: distinct rows own disjoint address ranges",
  "Data.dof_cdof": "compaction map built by the sequential _compact_dofs: distinct active dofs get distinct compact ids (inactive: -1, guarded)",
  "Data.cdof_dof": "inverse of dof_cdof",
  "Data.moment_rowadr": "per-actuator row start addresses in actuator_moment allocated by atomic_add in _transmission: disjoint ranges",
  "expr:body_tree": "body_tree[level] lists each body of a level once",
  "Model.body_tree": "body_tree[level] lists each body of a level once",
  "Model.M_elemid": "element ids of the (i, j) pairs of M: distinct pairs -> distinct elements",
  "Model.body_mocapid": "mocap ids enumerate the mocap bodies: distinct mocap bodies have distinct ids (non-mocap bodies: -1, guarded by `mocapid >= 0`)",
  "ctx:adr": "TileSet.adr: first dof of each diagonal tile block; blocks are disjoint",
}

# `*adr` arrays that are NOT injective
NON_INJECTIVE_ADR = set()

BRANCH = ("branch-redundant", "one thread per root-to-leaf branch (Model.body_branches holds complete chains): threads of different branches write identical values to shared ancestors and read only cells they themselves wrote earlier in program order. Relies on put_model building complete chains (assumption listed in the evidence)")
WAKE = ("unverified-idiom", "sleep-cycle waking: concurrent walkers write wake values into one cycle; not decided by this rule (sleeping is outside C11's verdict, see C29)")
GROUP = ("partition-by-data", "one thread per candidate group / per sorted candidate: sort_val is the permutation produced by radix_sort_pairs and groups partition the candidates, so distinct threads touch disjoint candidates")

# (kernel, array param | '*') -> (idiom class, argument)
WRITE_IDIOMS = {
  ("smooth._kinematics_branch", "*"): BRANCH,
  ("smooth._comvel_branch", "*"): BRANCH,
  ("smooth._cacc_branch", "*"): BRANCH,
  ("sleep._wake_kernel", "tree_asleep_out"): WAKE,
  ("sleep._wake_collision_kernel", "tree_asleep_out"): WAKE,
  ("sleep._wake_equality_kernel", "tree_asleep_out"): WAKE,
  ("sleep._wake_tendon_kernel", "tree_asleep_out"): WAKE,
  ("collision_flex._filter_flex_candidates_sorted", "cand_active_out"): GROUP,
  ("collision_flex._filter_flex_fps", "*"): GROUP,
  ("collision_flex._populate_group_starts.kernel", "flex_group_start_indices_out"): ("partition-by-data", "exactly one sorted candidate per group carries the group-start flag"),
  ("collision_flex._populate_group_starts.kernel", "flex_num_groups_out"): ("partition-by-data", "written only by the thread si == ncand_limit - 1 (a data-dependent pin)"),
  ("derivative._qderiv_actuator_passive", "qDeriv_out"): ("injective-pair-map", "thread t handles element (Mi[t], Mj[t]) of M; the pairs are distinct and M_elemid is injective on pairs"),
  ("derivative.deriv_rne_cvel_cdof_dot", "Dcdof_dot_out"): ("own-range", "thread (world, body, k) writes the dof rows of its own body: dof_i runs over body_dofadr[body] .. + body_dofnum[body]"),
  ("sensor._limit_pos", "sensordata_out"): ("unique-match", "threads scan constraint rows; at most one row has type LIMIT_* and id equal to the sensor's object, so one thread writes"),
  ("sensor._limit_vel", "sensordata_out"): ("unique-match", "as _limit_pos"),
  ("sensor._limit_frc", "sensordata_out"): ("unique-match", "as _limit_pos"),
  ("sensor._sensor_collision", "sensor_collision_out"): ("unique-match", "(pair id, geomcollisionid) identifies a contact of a geom pair uniquely within its world"),
  ("smooth._qLD_acc", "L_out"): ("level-scheduled", "one launch per elimination level; the updates of one level target distinct (i, j) cells"),
  ("solver._solve_init_jaref_kernel.kernel", "ctx_Jaref_out"): ("variant-correlated", "the plain store exists only in the variants launched with one thread per row (sparse, or dofs_per_thread >= nv); the multi-thread variant uses atomic_add"),
  ("solver._linesearch_jv_fused_kernel.kernel", "ctx_jv_out"): ("variant-correlated", "as _solve_init_jaref_kernel"),
}

LEVEL = lambda why, marker="body_tree": ("level-scheduled", why, marker)  # noqa: E731
BLOCK = ("block-private", "reads and writes stay inside the diagonal block / scratch region owned by the thread (index rooted at an injective block address)")

# (kernel, host array key | '*') -> (idiom class, argument[, host loop marker])
READ_IDIOMS = {
  ("smooth._kinematics_branch", "*"): BRANCH,
  ("smooth._comvel_branch", "*"): BRANCH,
  ("smooth._cacc_branch", "*"): BRANCH,
  ("smooth._subtree_com_acc", "Data.subtree_com"): LEVEL("leaves-to-root: a level's threads read their own cell and atomically add into the parent, whose level is not processed in this launch"),
  ("smooth._crb_accumulate", "Data.crb"): LEVEL("as _subtree_com_acc"),
  ("smooth._cfrc_backward", "Data.cfrc_int"): LEVEL("as _subtree_com_acc"),
  ("smooth._qLD_acc", "*"): LEVEL("one launch per elimination level: the cells read belong to rows finished in earlier levels", "qLD_update"),
  ("derivative.deriv_rne_cacc_cfrcbody_forward", "*"): LEVEL("root-to-leaves: reads the parent's cell written by the previous level's launch"),
  ("derivative.deriv_rne_cfrcbody_backward", "*"): LEVEL("leaves-to-root accumulation into the parent with atomics"),
  ("derivative.deriv_rne_cvel_cdof_dot", "*"): LEVEL("root-to-leaves: reads the parent's cell written by the previous level's launch"),
  ("smooth._small_cholesky_factorize_solve_block.kernel", "*"): BLOCK,
  ("smooth._small_cholesky_solve_block.kernel", "*"): BLOCK,
  ("smooth._solve_LD_sparse_fused.kernel", "*"): ("one-thread-per-world", "dim = nworld with sequential loops over dofs: every cell of the world's row is owned by its single thread"),
  ("collision_flex._filter_flex_fps", "*"): GROUP,
  ("collision_flex._flex_active_element_collisions_detect.kernel", "*"): ("thread-private-scratch", "workspace_verts is addressed by the thread's own flattened pair index * 8"),
  ("collision_flex._flex_narrowphase.kernel", "*"): ("thread-private-scratch", "workspace_verts is addressed by the thread's own pair id * 8"),
  ("solver._linesearch_iterative_kernel.kernel", "*"): ("block-cooperative", "one thread block per world: reads of Ma / Jaref precede a block barrier and the final atomic updates; trusted like Warp tile primitives"),
  ("sleep._wake_collision_kernel", "Data.tree_asleep"): WAKE,
  ("sleep._wake_equality_kernel", "Data.tree_asleep"): WAKE,
  ("sleep._wake_tendon_kernel", "Data.tree_asleep"): WAKE,
  ("sleep._wake_kernel", "Data.tree_asleep"): WAKE,
}

ATOMIC_VALUE_IDIOMS = {
}

# (kernel, host key): plain reads of a cell that other threads of the same launch update atomically
COUNTER_READ_IDIOMS = {
}
