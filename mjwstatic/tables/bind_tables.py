"""Tables for R-BIND."""

# (kernel, formal) -> (actual field, reason)
BINDING_EXCEPTIONS = {
  ("collision_driver._nxn_broadphase.kernel", "nxn_geom_pair"): ("Model.nxn_geom_pair_filtered", "NXN iterates the pre-filtered pair list"),
  ("collision_driver._nxn_broadphase.kernel", "nxn_pairid"): ("Model.nxn_pairid_filtered", "NXN iterates the pre-filtered pair list"),
  ("set_const._copy_qpos0_to_qpos", "qpos0"): ("Model.qpos_spring", "set_const_spring evaluates kinematics at qpos_spring"),
}

# `_in` formals that kernels legitimately write
IN_WRITTEN_EXCEPTIONS = {}

MODEL_WRITER_MODULES = ("set_const", "io", "bvh", "render_util")

# (kernel, formal) whose rank differs from the schema field because the launch sits on the compacted-solve path,
# where `d` is the dataclasses.replace()d Data whose M is the dense (nworld, nv_pad, nv_pad) compact inertia d.cM
RANK_EXCEPTIONS = {
  ("solver._update_gradient_JTDAJ_dense_tiled_compact.kernel", "M_in"): "compact path binds d2.M = d.cM (rank 3)",
}
