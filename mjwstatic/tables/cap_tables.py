"""Hand-confirmed tables for R-CAP. Keys are (kernel key or 'module.*', counter key); one reason each."""

# slot allocations that need no capacity comparison because the slot is bounded by construction
UNGUARDED_BY_DESIGN = {
  ("constraint.*", "Data.efc.jtdaj_nblock"): "one JTDAJ block per row block that already passed the njmax guard; blocks <= rows <= njmax = extent of efc.jtdaj_adr/nrow",
  ("island._island_map_dofs", "Data.island_nv"): "each dof increments its island's count once: count <= nv = extent of the idof maps",
  ("island._island_map_dofs", "temp:island.compute_island_mapping:unconstrained_cnt"): "each unconstrained dof increments once; written index nidof + cnt < nv",
  ("island._island_map_constraints", "temp:island.compute_island_mapping:ne_mapped"): "each row < min(nefc, njmax) increments once: slot < njmax",
  ("island._island_map_constraints", "temp:island.compute_island_mapping:nf_mapped"): "as ne_mapped",
  ("island._island_map_constraints", "temp:island.compute_island_mapping:nother_mapped"): "as ne_mapped",
  ("sleep._update_sleep_bodies", "Data.nbody_awake"): "each body increments at most once: slot < nbody = extent of body_awake_ind",
  ("sleep._update_sleep_dofs", "Data.nv_awake"): "each dof increments at most once: slot < nv = extent of dof_awake_ind",
  ("smooth._transmission", "temp:smooth.transmission:moment_nnz"): "per-actuator blocks whose sizes are the rownnz that put_model summed into the extent of actuator_moment (model-derived bound)",
  ("solver._update_constraint_efc.kernel", "ctx:quad_changed_count"): "each row whose state changed increments once per iteration after the count is zeroed: slot < njmax = extent of quad_changed_ids",
}

# (kernel, counter) pairs whose dropped blocks need no overflow bit (documented truncation, not an overflow)
DETECTION_EXEMPT = {
  ("sensor._contact_match", "temp:sensor.sensor_acc:sensor_contact_nmatch"): "opt.contact_sensor_maxmatch is a documented truncation of contact-sensor matches, not a capacity of Data",
  ("sensor._preprocess_tactile_contacts", "temp:sensor.sensor_acc:weld_geom_count"): "MJ_MAXCONPAIR bounds geoms per weld pair as in MuJoCo C; not a Data capacity",
}
