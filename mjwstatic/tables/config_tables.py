"""Configuration combinations that put_model rejects; host paths that require them are infeasible.
Each entry: ((substring, polarity), ...), reason. The corresponding validation is itself checked by R-VALID (C17)."""

INFEASIBLE = [
  ((("EnableBit.SLEEP", True), ("solver == SolverType.CG", True)), "put_model: sleeping requires the Newton solver"),
]


def infeasible(pc) -> bool:
  for combo, _ in INFEASIBLE:
    if all(any(sub in t and pol == want for t, pol in pc) for sub, want in combo):
      return True
  return False
