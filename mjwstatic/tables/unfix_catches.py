"""Reverse patches of the `fix:` commits in /repo (selftest_patches/unfix_<commit>.diff): if a repaired defect returns,
the checks that found it must report it again. Fire lists observed by running every check on every reverse patch."""

UNFIX = [
  ("unfix_edf71a8.diff", ['C16']),
  ("unfix_523d33e.diff", ['C12', 'C24']),
  ("unfix_7e84739.diff", ['C07']),
  ("unfix_19e00e5.diff", ['C16']),
  ("unfix_3daf361.diff", ['C36']),
  ("unfix_439deab.diff", ['C12']),
  ("unfix_5a31686.diff", ['C13']),
  ("unfix_652a443.diff", ['C12', 'C17', 'C32']),
  ("unfix_7f2b526.diff", ['C32']),
  ("unfix_944abff.diff", ['C26']),
  ("unfix_ab430b4.diff", ['C04', 'C08', 'C09', 'C10']),
  ("unfix_b287e1f.diff", ['C10', 'C33']),
  ("unfix_bfc1528.diff", ['C37']),
  ("unfix_ceeabbb.diff", ['C07']),
  ("unfix_cfd3d29.diff", ['C12', 'C13', 'C37']),
  ("unfix_dbefd5f.diff", ['C10', 'C33']),
  ("unfix_e893d1a.diff", ['C10']),
  ("unfix_fe8bfe6.diff", ['C17']),
  ("unfix_ffef13a.diff", ['C16']),
]
