"""Tables for R-LIVE (C12 / C37 / C13)."""

# Data fields that legitimately survive from one step to the next although they are not part of State.INTEGRATION
PERSISTENT = {
  "Data.overflow": "sticky diagnostic: bits are only ever OR-ed in; never feeds physics",
  "Data.cdof_tri_row": "constant index table written once by make_data (compact solve workspace)",
  "Data.cdof_tri_col": "constant index table written once by make_data (compact solve workspace)",
  "Data.ctol": "constant scaled tolerance written once by make_data (compact solve)",
  "Data.cls_tol": "constant scaled tolerance written once by make_data (compact solve)",
}

# persistent sleep state: history dependent by design and only consulted when sleeping is enabled (C29 is not applicable)
SLEEP_STATE = {
  "Data.tree_asleep": "sleep cycle links / countdown",
  "Data.tree_awake": "awake flag derived from tree_asleep by update_sleep",
  "Data.body_awake": "per-body awake state; constant AWAKE/STATIC when sleeping is disabled",
  "Data.body_awake_ind": "compaction of body_awake",
  "Data.dof_awake_ind": "compaction of awake dofs",
  "Data.nbody_awake": "counter of body_awake_ind",
  "Data.nv_awake": "counter of dof_awake_ind",
  "Data.ntree_awake": "counter",
}

# fields of PERSISTENT that must have no kernel writer anywhere in the package (checked)
CONSTANT_AFTER_MAKE_DATA = ("Data.cdof_tri_row", "Data.cdof_tri_col", "Data.ctol", "Data.cls_tol")

# R-LIVE.6: fields that may be read without a live definition under a flag, with the argument why it is harmless
FLAG_STALE_OK = {
  "Data.ncollision": "with CONTACT/CONSTRAINT disabled collision() returns before zeroing the broadphase counter; its only reader on that path is the overflow detector of _next_time (ncollision > naconmax), which can only re-raise a sticky bit that the overflowing step already raised (inside C12's no-overflow proviso)",
}

# R-LIVE.7: (host function, field) pairs where today's tree fully (re)defines the field - host zero_/fill_/copy or an
# initialising launch storing it unconditionally at the thread's own index - before launches of the same function, on a
# compatible path, accumulate into it or write it only partially. Generated from the traces of step/forward/inverse
# (r_live.init_then_partial_pairs) and confirmed by reading: all are init-then-accumulate / init-then-scatter patterns.
# The reference for later changes; keys are function + field, never lines.
INIT_BEFORE_PARTIAL = {
  ("collision_driver.collision", "Data.nacon"),
  ("collision_driver.collision", "Data.ncollision"),
  ("collision_driver.sap_broadphase", "temp:collision_driver.sap_broadphase:projection_lower"),
  ("collision_driver.sap_broadphase", "temp:collision_driver.sap_broadphase:sort_index"),
  ("constraint.make_constraint", "Data.efc.Jqvel"),
  ("constraint.make_constraint", "Data.efc.jtdaj_nblock"),
  ("constraint.make_constraint", "Data.ne"),
  ("constraint.make_constraint", "Data.nefc"),
  ("constraint.make_constraint", "Data.nf"),
  ("constraint.make_constraint", "Data.nl"),
  ("constraint.make_constraint", "temp:constraint.make_constraint:efc_nnz"),
  ("forward.implicit", "Data.qLU"),  # _map_m2d stores every D entry (M value or 0, if/else) before deriv_rne_vel accumulates and the LU factorisation overwrites in place
  ("derivative.deriv_smooth_vel", "temp:forward.implicit:qDeriv"),
  ("derivative.deriv_smooth_vel", "temp:forward.implicit:qH_M"),
  ("derivative.deriv_smooth_vel", "temp:inverse.discrete_acc:qDeriv"),
  ("forward._advance", "Data.qvel"),
  ("forward.forward", "Data.sensordata"),
  ("forward.fwd_actuation", "Data.actuator_force"),
  ("forward.fwd_actuation", "Data.qfrc_actuator"),
  ("forward.rungekutta4", "Data.qpos"),
  ("forward.rungekutta4", "Data.qvel"),
  ("island.compute_island_mapping", "Data.efc.island"),
  ("island.compute_island_mapping", "Data.island_dofadr"),
  ("island.compute_island_mapping", "Data.island_iefcadr"),
  ("island.compute_island_mapping", "Data.island_ne"),
  ("island.compute_island_mapping", "Data.island_nefc"),
  ("island.compute_island_mapping", "Data.island_nf"),
  ("island.compute_island_mapping", "Data.island_nv"),
  ("island.compute_island_mapping", "Data.map_efc2iefc"),
  ("island.compute_island_mapping", "Data.map_idof2dof"),
  ("island.compute_island_mapping", "Data.map_iefc2efc"),
  ("island.compute_island_mapping", "Data.nidof"),
  ("island.compute_island_mapping", "temp:island.compute_island_mapping:#1"),
  ("island.compute_island_mapping", "temp:island.compute_island_mapping:#10"),
  ("island.compute_island_mapping", "temp:island.compute_island_mapping:#11"),
  ("island.compute_island_mapping", "temp:island.compute_island_mapping:#2"),
  ("island.compute_island_mapping", "temp:island.compute_island_mapping:#3"),
  ("island.compute_island_mapping", "temp:island.compute_island_mapping:#9"),
  ("island.compute_island_mapping", "temp:island.compute_island_mapping:efc_tree"),
  ("island.flood_fill", "Data.tree_island"),
  ("island.tree_edges", "temp:island.island:tree_tree"),
  ("island.update_active_dofs", "Data.cdof_dof"),
  ("island.update_active_dofs", "Data.dof_cdof"),
  ("passive.passive", "Data.qfrc_adhesion"),
  ("passive.passive", "Data.qfrc_gravcomp"),
  ("sensor.energy_pos", "Data.energy"),
  ("sensor.sensor_acc", "temp:sensor.sensor_acc:sensor_contact_criteria"),
  ("sensor.sensor_acc", "temp:sensor.sensor_acc:sensor_contact_matchid"),
  ("sensor.sensor_acc", "temp:sensor.sensor_acc:sensor_contact_nmatch"),
  ("sleep.update_sleep", "Data.nbody_awake"),
  ("sleep.update_sleep", "Data.ntree_awake"),
  ("sleep.update_sleep", "Data.nv_awake"),
  ("sleep.update_sleep_trees", "Data.ntree_awake"),
  ("smooth._factor_i_sparse", "Data.qLD"),
  ("smooth._factor_i_sparse", "temp:forward.euler:qLD"),
  ("smooth._factor_i_sparse", "temp:forward.implicit:qLD"),
  ("smooth.com_pos", "Data.subtree_com"),
  ("smooth.crb", "Data.M"),
  ("smooth.crb", "Data.crb"),
  ("smooth.rne_postconstraint", "Data.cfrc_ext"),
  ("smooth.subtree_vel", "Data.subtree_angmom"),
  ("smooth.subtree_vel", "Data.subtree_linvel"),
  ("smooth.tendon", "Data.ten_J"),
  ("smooth.tendon", "Data.ten_length"),
  ("smooth.tendon", "Data.wrap_obj"),
  ("smooth.tendon", "Data.wrap_xpos"),
  ("solver._compact_gather", "Data.cJ"),
  ("solver._compact_gather", "Data.cM"),
  ("solver._solve", "Data.cqacc"),
  ("solver._solve", "Data.qacc"),
  ("solver._solve", "ctx:search_dot"),
  ("solver._solver_iteration", "ctx:beta"),
  ("solver._solver_iteration", "ctx:beta_den"),
  ("solver.init_context", "ctx:search_dot"),
  ("solver.smooth_solve_compact", "Data.cM"),
}
CLEARED_BEFORE_PARTIAL = INIT_BEFORE_PARTIAL  # former name
