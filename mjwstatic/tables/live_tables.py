"""Tables for R-LIVE (C12 / C37 / C13)."""

# Data fields that legitimately survive from one step to the next although they are not part of State.INTEGRATION
PERSISTENT = {
  "Data.overflow": "sticky diagnostic: bits are only ever OR-ed in; never feeds physics",
  "Data.cdof_tri_row": "constant index table written once by make_data (compact solve workspace)",
  "Data.cdof_tri_col": "constant index table written once by make_data (compact solve workspace)",
  "Data.ctol": "constant scaled tolerance written once by make_data (compact solve)",
  "Data.cls_tol": "constant scaled tolerance written once by make_data (compact solve)",
}

# persistent sleep state: history dependent by design and only consulted when sleeping is enabled (C29 is not applicable)
SLEEP_STATE = {
  "Data.tree_asleep": "sleep cycle links / countdown",
  "Data.tree_awake": "awake flag derived from tree_asleep by update_sleep",
  "Data.body_awake": "per-body awake state; constant AWAKE/STATIC when sleeping is disabled",
  "Data.body_awake_ind": "compaction of body_awake",
  "Data.dof_awake_ind": "compaction of awake dofs",
  "Data.nbody_awake": "counter of body_awake_ind",
  "Data.nv_awake": "counter of dof_awake_ind",
  "Data.ntree_awake": "counter",
}

# fields of PERSISTENT that must have no kernel writer anywhere in the package (checked)
CONSTANT_AFTER_MAKE_DATA = ("Data.cdof_tri_row", "Data.cdof_tri_col", "Data.ctol", "Data.cls_tol")

# R-LIVE.6: fields that may be read without a live definition under a flag, with the argument why it is harmless
FLAG_STALE_OK = {
  "Data.ncollision": "with CONTACT/CONSTRAINT disabled collision() returns before zeroing the broadphase counter; its only reader on that path is the overflow detector of _next_time (ncollision > naconmax), which can only re-raise a sticky bit that the overflowing step already raised (inside C12's no-overflow proviso)",
}

# R-LIVE.7: (host function, field) pairs where today's tree fully (re)defines the field (zero_/fill_) on the host before
# launches of the same function, on a compatible path, accumulate into it or write it only partially - the reference for
# later changes (list generated from the traces and confirmed by reading). Keys are function + field, never lines.
CLEARED_BEFORE_PARTIAL = {
  ("collision_driver.collision", "Data.nacon"),
  ("collision_driver.collision", "Data.ncollision"),
  ("constraint.make_constraint", "Data.efc.Jqvel"),
  ("derivative.deriv_smooth_vel", "temp:forward.implicit:qDeriv"),
  ("derivative.deriv_smooth_vel", "temp:forward.implicit:qH_M"),
  ("derivative.deriv_smooth_vel", "temp:inverse.discrete_acc:qDeriv"),
  ("forward.forward", "Data.sensordata"),
  ("forward.fwd_actuation", "Data.qfrc_actuator"),
  ("island.compute_island_mapping", "Data.island_dofadr"),
  ("island.flood_fill", "Data.tree_island"),
  ("island.tree_edges", "temp:island.island:tree_tree"),
  ("passive.passive", "Data.qfrc_adhesion"),
  ("passive.passive", "Data.qfrc_gravcomp"),
  ("sensor.sensor_acc", "temp:sensor.sensor_acc:sensor_contact_criteria"),
  ("sensor.sensor_acc", "temp:sensor.sensor_acc:sensor_contact_matchid"),
  ("sensor.sensor_acc", "temp:sensor.sensor_acc:sensor_contact_nmatch"),
  ("smooth.crb", "Data.M"),
  ("smooth.tendon", "Data.ten_J"),
  ("smooth.tendon", "Data.ten_length"),
  ("smooth.tendon", "Data.wrap_obj"),
  ("smooth.tendon", "Data.wrap_xpos"),
  ("solver._compact_gather", "Data.cJ"),
  ("solver._solve", "ctx:search_unchanged"),
}
