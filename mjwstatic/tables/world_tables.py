"""Hand-confirmed tables for R-WORLD / R-BATCH. One line of reason per entry; keyed by
(kernel key, array parameter), never by line or text."""

# kernels whose world id is derived arithmetically from a flattened (world, item) index
WORLD_INDEX_EXCEPTIONS = {
  # sweep-and-prune: thread index ranges over the cumulative sum of per-(world,geom) overlap counts; the binary
  # search returns i in [0, nworld*ngeom) and worldid = i // ngeom by construction of the flattened sort keys.
  ("collision_driver._sap_broadphase.kernel", "*"): "flattened worldgeomid // ngeom",
  ("collision_flex._self_flex_sap_sweep.kernel", "*"): "flattened (world, element) index // nelem",
  ("collision_flex._flex_flex_sap_sweep.kernel", "*"): "flattened (world, element) index // nelem",
}

# modules in which the launch's first dimension is a *batch* index (size of a batched Model field);
# set_const recomputes per-batch-entry model constants from the Data of the world of the same index.
BATCH_INDEX_MODULES = ("set_const",)

TAG_WRITE_EXCEPTIONS = {}

# Data arrays without a world dimension that step kernels write: cross-world counters.
GLOBAL_COUNTERS = ("nacon", "ncollision")

# arrays whose modulus in a batched read may legitimately be another array's shape[0]
# (none on the pinned tree)
BATCH_MODULUS_ALIASES = {}
