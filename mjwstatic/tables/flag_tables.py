"""C32 tables (confirmed by reading). FLAG_OFF: fields that must be absent (never written, or written as zero)
when the DisableBit is set / the EnableBit is clear. FLAG_KEEPS: fields that a flag must NOT switch off
(they are another flag's contribution) - guards against testing the wrong flag."""

FLAG_OFF = {
  "DisableBit.SPRING": ["Data.qfrc_spring"],
  "DisableBit.DAMPER": ["Data.qfrc_damper"],
  "DisableBit.GRAVITY": ["Data.qfrc_gravcomp"],
  "DisableBit.ACTUATION": ["Data.qfrc_actuator", "Data.actuator_force"],
  "DisableBit.CONSTRAINT": ["Data.ne", "Data.nf", "Data.nl", "Data.nefc"],
  "DisableBit.EQUALITY": ["Data.ne"],
  "DisableBit.FRICTIONLOSS": ["Data.nf"],
  "DisableBit.LIMIT": ["Data.nl"],
  "DisableBit.SENSOR": ["Data.sensordata"],
  "EnableBit.SLEEP": ["Data.cM", "Data.cqacc"],
}

FLAG_KEEPS = {
  "DisableBit.SPRING": ["Data.qfrc_damper", "Data.qfrc_gravcomp", "Data.nf"],
  "DisableBit.DAMPER": ["Data.qfrc_spring", "Data.qfrc_gravcomp", "Data.nf"],
  "DisableBit.GRAVITY": ["Data.qfrc_spring", "Data.qfrc_damper"],
  "DisableBit.EQUALITY": ["Data.nf", "Data.nl"],
  "DisableBit.FRICTIONLOSS": ["Data.ne", "Data.nl"],
  "DisableBit.LIMIT": ["Data.ne", "Data.nf"],
  "DisableBit.CONTACT": ["Data.ne", "Data.nf", "Data.nl"],
  "DisableBit.ACTUATION": ["Data.qfrc_spring", "Data.qfrc_damper"],
}

# R-FLAGS.2b: (flag, fields, enable flags assumed on) - the field must stay computed for both values of every model atom
KEEPS_CASES = [
  ("DisableBit.SENSOR", ["Data.energy"], ("EnableBit.ENERGY",)),
]

# (velocity-derivative kernel, the force kernel it differentiates) - confirmed by reading derivative.py against passive.py / forward.py
DERIVATIVE_OF = [
  ("derivative._qderiv_ellipsoid_fluid", "passive._fluid_force"),
  ("derivative._qderiv_box_fluid", "passive._fluid_force"),
  ("derivative._qderiv_tendon_damping", "passive._spring_damper_tendon_passive"),
  ("derivative._qderiv_actuator_passive_vel", "forward._actuator_force"),
]
DERIVATIVE_FLAGS = ["ACTUATION", "SPRING", "DAMPER"]

# (velocity-derivative kernel, force kernel, DisableBits that must be clear for the force to have a velocity-dependent
# part) - whenever the force kernel is launched under a flag assignment with those bits clear, the implicit integrators
# must still reach the derivative kernel (R-FLAGS.4). The tendon kernel computes spring+damper; only the damper part has
# a velocity derivative, hence DAMPER must be clear for the obligation to arise.
DERIVATIVE_NEEDED = [
  ("derivative._qderiv_ellipsoid_fluid", "passive._fluid_force", []),
  ("derivative._qderiv_box_fluid", "passive._fluid_force", []),
  ("derivative._qderiv_tendon_damping", "passive._spring_damper_tendon_passive", ["DAMPER"]),
  ("derivative._qderiv_actuator_passive_vel", "forward._actuator_force", []),
]
IMPLICIT_INTEGRATORS = ["IMPLICIT", "IMPLICITFAST"]


# R-FLAGS.6: which option flags each stage module consults on the confirmed tree (MuJoCo's flags are stage-scoped: mj_passive
# looks at SPRING / DAMPER / GRAVITY (+ CONTACT for adhesion) and not at ACTUATION, the constraint builder at its row-class
# flags, ...). A module that starts testing a further flag changes what that flag does.
MODULE_FLAGS = {
  "collision_convex": ["DisableBit.MULTICCD"],
  "collision_driver": ["DisableBit.CONSTRAINT", "DisableBit.CONTACT", "DisableBit.NATIVECCD", "EnableBit.SLEEP"],
  "constraint": ["DisableBit.CONSTRAINT", "DisableBit.CONTACT", "DisableBit.EQUALITY", "DisableBit.FRICTIONLOSS", "DisableBit.LIMIT", "DisableBit.REFSAFE"],
  "derivative": ["DisableBit.ACTUATION", "DisableBit.DAMPER", "DisableBit.SPRING"],
  "forward": ["DisableBit.ACTUATION", "DisableBit.CLAMPCTRL", "DisableBit.DAMPER", "DisableBit.EULERDAMP", "DisableBit.GRAVITY", "DisableBit.ISLAND", "DisableBit.SENSOR", "DisableBit.SPRING", "EnableBit.ENERGY", "EnableBit.SLEEP"],  # SENSOR since fix f-energy: forward computes the energy itself when the sensor stage is off
  "inverse": ["DisableBit.DAMPER", "DisableBit.EULERDAMP", "EnableBit.INVDISCRETE"],
  "io": ["DisableBit.FILTERPARENT", "DisableBit.MULTICCD", "DisableBit.NATIVECCD", "EnableBit.SLEEP"],
  "passive": ["DisableBit.CONTACT", "DisableBit.DAMPER", "DisableBit.GRAVITY", "DisableBit.SPRING"],
  "sensor": ["DisableBit.GRAVITY", "DisableBit.SENSOR", "DisableBit.SPRING"],
  "smooth": ["DisableBit.GRAVITY"],
  "solver": ["DisableBit.ISLAND", "DisableBit.WARMSTART", "EnableBit.SLEEP"],
}
