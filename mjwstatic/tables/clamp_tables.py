"""R-CLAMP instances (confirmed by reading against MuJoCo C): outputs whose limited value is the clamp result itself.

(kernel name without .kernel suffix, output array formal, range array formal, property, reason)
Not tabled on purpose: forward._actuator_force / actuator_forcerange (DC-motor mechanical forces are added after the
clamp by design), ctrlrange (an input clamp, the clamped ctrl is then scaled by the gain), tendon_actfrcrange (rescales).
"""

CLAMP_LAST = [
  ("forward._qfrc_actuator_gravcomp_limits", "qfrc_actuator_out", "jnt_actfrcrange", "C03", "mj_fwdActuation clamps the total joint actuator force (incl. actuator gravcomp) to actfrcrange"),
  ("forward._next_activation", "act_out", "actuator_actrange", "C03", "mj_nextActivation clamps the advanced activation to actrange"),
  ("sensor._sensor_pos", "sensordata_out", "sensor_cutoff", "C07", "apply_cutoff is the last operation on a sensor value"),
  ("sensor._sensor_vel", "sensordata_out", "sensor_cutoff", "C07", "apply_cutoff is the last operation on a sensor value"),
  ("sensor._sensor_acc", "sensordata_out", "sensor_cutoff", "C07", "apply_cutoff is the last operation on a sensor value"),
]

# R-CLAMP.3 (function, range parameter, exempt (Enum, MEMBER) literal, property, reason)
RETURNS_CLAMPED = [
  ("support.next_act", "actuator_actrange", ("DynType", "USER"), "C03", "mj_nextActivation clamps the activation to actrange whenever actlimited, also when act_dot is zero; DynType.USER activations are not advanced by this port"),
]
