"""R-GLOBAL tables."""

# (module, global) -> (functions allowed to mutate it ('*' = any), contract)
ALLOWED_GLOBAL_MUTATIONS = {
  ("warp_util", "_KERNEL_CACHE"): (("warp_util.cache_kernel",), "memoisation keyed by the complete factory arguments + factory name (completeness is R-GLOBAL.2/4/5)"),
  ("warp_util", "_STACK"): (("warp_util.EventTracer", "warp_util.event_scope", "warp_util._merge"), "profiling stack of EventTracer; never read by simulation code"),
}

# module-level containers that are never mutated (checked by R-GLOBAL.1) and may be captured by cached kernels
IMMUTABLE_BY_CONVENTION = set()
