"""Oracle constants taken from MuJoCo's public documentation / headers (not from the code under test)."""

# mjtState: bit index -> (name, field of mjData, size expression in model dimensions)
# (mj_stateSize / mj_getState in engine_io.c; mjNSTATE = 14)
STATE_ELEMENTS = [
  ("TIME", "time", "1"),
  ("QPOS", "qpos", "nq"),
  ("QVEL", "qvel", "nv"),
  ("ACT", "act", "na"),
  ("HISTORY", "history", "nhistory"),
  ("WARMSTART", "qacc_warmstart", "nv"),
  ("CTRL", "ctrl", "nu"),
  ("QFRC_APPLIED", "qfrc_applied", "nv"),
  ("XFRC_APPLIED", "xfrc_applied", "6*nbody"),
  ("EQ_ACTIVE", "eq_active", "neq"),
  ("MOCAP_POS", "mocap_pos", "3*nmocap"),
  ("MOCAP_QUAT", "mocap_quat", "4*nmocap"),
  ("USERDATA", "userdata", "nuserdata"),
  ("PLUGIN", None, "0"),  # plugin state: size 0 for every model put_model accepts (plugins unsupported)
]
NSTATE = 14

# mj_resetDataKeyframe copies exactly these fields from the keyframe (engine_io.c)
KEYFRAME_FIELDS = {
  "time": ("key_time", "1"),
  "qpos": ("key_qpos", "nq"),
  "qvel": ("key_qvel", "nv"),
  "act": ("key_act", "na"),
  "mocap_pos": ("key_mpos", "nmocap"),
  "mocap_quat": ("key_mquat", "nmocap"),
  "ctrl": ("key_ctrl", "nu"),
}

# history buffer layout per element (engine_support.c / mjData.history): [user, cursor, times[n], values[n*dim]]
HISTORY_LAYOUT = ("user@+0", "cursor@+1", "times@+2+p", "values@+2+n+p*dim+d")
