"""R-SORT tables: index-valued arrays and the index space (schema dimension name) their values live in.
Each entry confirmed by reading MuJoCo's model documentation / put_model."""

VALUE_SORTS = {
  "Model.body_parentid": "nbody",
  "Model.body_rootid": "nbody",
  "Model.body_weldid": "nbody",
  "Model.body_mocapid": "nmocap",
  "Model.body_jntadr": "njnt",
  "Model.body_dofadr": "nv",
  "Model.body_geomadr": "ngeom",
  "Model.body_treeid": "ntree",
  "Model.jnt_bodyid": "nbody",
  "Model.jnt_dofadr": "nv",
  "Model.jnt_qposadr": "nq",
  "Model.dof_bodyid": "nbody",
  "Model.dof_jntid": "njnt",
  "Model.dof_parentid": "nv",
  "Model.dof_treeid": "ntree",
  "Model.geom_bodyid": "nbody",
  "Model.site_bodyid": "nbody",
  "Model.cam_bodyid": "nbody",
  "Model.cam_targetbodyid": "nbody",
  "Model.light_bodyid": "nbody",
  "Model.light_targetbodyid": "nbody",
  "Model.mocap_bodyid": "nbody",
  "Model.actuator_actadr": "na",
  "Model.tree_dofadr": "nv",
  "Model.eq_connect_adr": "neq",
  "Model.eq_wld_adr": "neq",
  "Model.eq_jnt_adr": "neq",
  "Model.eq_ten_adr": "neq",
  "Model.eq_flex_adr": "neq",
  "Model.jnt_limited_slide_hinge_adr": "njnt",
  "Model.jnt_limited_ball_adr": "njnt",
  "Model.tendon_limited_adr": "ntendon",
  "Model.sensor_adr": "nsensordata",
  "Model.sensor_pos_adr": "nsensor",
  "Model.sensor_vel_adr": "nsensor",
  "Model.sensor_acc_adr": "nsensor",
  "Model.sensor_limitpos_adr": "nsensor",
  "Model.sensor_limitvel_adr": "nsensor",
  "Model.sensor_limitfrc_adr": "nsensor",
  "Model.sensor_touch_adr": "nsensor",
  "Model.sensor_tendonactfrc_adr": "nsensor",
  "Model.body_tree": "nbody",
  # flex address tables (confirmed against the field docs in types.py: "first <x> address", "<x> body ids")
  "Model.flex_vertadr": "nflexvert",
  "Model.flex_edgeadr": "nflexedge",
  "Model.flex_elemadr": "nflexelem",
  "Model.flex_nodeadr": "nflexnode",
  "Model.flex_vertbodyid": "nbody",
  "Model.flex_nodebodyid": "nbody",
  "expr:body_tree": "nbody",
  "Data.contact.worldid": "nworld",
  "Data.contact.efc_address": "njmax",
}

# launch extents (host text suffix) -> index space of the thread index
EXTENT_SORTS = {
  ".nworld": "nworld",
  ".nbody": "nbody",
  ".njnt": "njnt",
  ".nv": "nv",
  ".nq": "nq",
  ".nu": "nu",
  ".na": "na",
  ".ngeom": "ngeom",
  ".nsite": "nsite",
  ".ncam": "ncam",
  ".nlight": "nlight",
  ".ntendon": "ntendon",
  ".neq": "neq",
  ".nsensor": "nsensor",
  ".nmocap": "nmocap",
  ".ntree": "ntree",
  ".nflex": "nflex",
  ".nflexvert": "nflexvert",
  ".nflexedge": "nflexedge",
  ".nflexelem": "nflexelem",
  ".nflexnode": "nflexnode",
  ".nwrap": "nwrap",
  ".naconmax": "naconmax",
  ".njmax": "njmax",
}

# dimension names that denote the same index space
SAME_SPACE = [
  {"njmax", "njmax_pad"},
  {"nv", "nv_pad", "nv_plus_1"},
]

# fields whose declared shape is only one of several run-time layouts (dense / sparse variants)
LAYOUT_VARIANT_FIELDS = {"Data.efc.J", "Data.efc.J_colind", "Data.M", "Data.qLD", "Data.cM", "Data.cJ"}

# (kernel, array) pairs where two index spaces are deliberately mixed (one reason each)
SORT_EXCEPTIONS = {
  ("solver._mul_m_sparse_compact", "cdof_dof_in"): "launched by the compacted solve, whose shallow-replaced Model has nv = nvmax_pad; the per-function resolution sees the plain parameter m",
}

# R-SORT.3: id-valued fields whose index space depends on a tag stored next to them (a tagged union):
# field -> (tag field, {tag enum member: index space})   - members not listed have no id space this rule knows
TAGGED_IDS = {
  "Data.efc.id": (
    "Data.efc.type",
    "ConstraintType",
    {"EQUALITY": "neq", "FRICTION_DOF": "nv", "FRICTION_TENDON": "ntendon", "LIMIT_JOINT": "njnt", "LIMIT_TENDON": "ntendon", "CONTACT_FRICTIONLESS": "naconmax", "CONTACT_PYRAMIDAL": "naconmax", "CONTACT_ELLIPTIC": "naconmax"},
  ),
  "Model.sensor_objid": (
    "Model.sensor_type",
    "SensorType",
    {"JOINTLIMITPOS": "njnt", "JOINTLIMITVEL": "njnt", "JOINTLIMITFRC": "njnt", "TENDONLIMITPOS": "ntendon", "TENDONLIMITVEL": "ntendon", "TENDONLIMITFRC": "ntendon", "JOINTPOS": "njnt", "JOINTVEL": "njnt", "TENDONPOS": "ntendon", "TENDONVEL": "ntendon", "JOINTACTFRC": "njnt", "TENDONACTFRC": "ntendon", "ACTUATORPOS": "nu", "ACTUATORVEL": "nu", "ACTUATORFRC": "nu"},
  ),
}
