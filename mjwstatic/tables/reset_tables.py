"""Tables for R-RESET."""

# (a, b): dimension a is always >= dimension b for every model MuJoCo compiles
INVARIANTS_GE = {("nq", "nv")}

# initial value family of a fresh Data per field path: 'zero' or the Model field it is copied from
RESET_VALUES = {
  "qpos": "qpos0",
  "qvel": "zero",
  "act": "zero",
  "ctrl": "zero",
  "qacc_warmstart": "zero",
  "qfrc_applied": "zero",
  "xfrc_applied": "zero",
  "eq_active": "eq_active0",
  "mocap_pos": "body_pos",
  "mocap_quat": "body_quat",
  "time": "zero",
  "userdata": "zero",
}
