"""Self-test catalogue for the thorough tier (see mjwstatic/selftest.py).

`fire`   : properties whose check MUST report the mutated construct.
`silent` : properties whose check MUST NOT report anything new (behaviour-preserving refactor).
Seeded changes come from sub-agents that saw only the property text; their `fire` lists record which checks were
observed to catch them (tools/catch_matrix.py) - the instances confirmed on today's tree are the reference for later
changes of the checker. Substitution mutants/refactors are single textual replacements (pattern must be unique).
"""

S = "mujoco_warp/_src/"


def sub(file, old, new, nth=None):
  d = {"file": S + file, "old": old, "new": new}
  if nth is not None:
    d["nth"] = nth
  return d


from .seeded_catches import SEEDED  # (id, properties observed to catch it)
from .unfix_catches import UNFIX  # (reverse patch of a fix: commit, properties that re-report the defect)

MUTANTS = [
  # ---- R-BATCH / R-WORLD
  dict(id="mut:batch-drop-modulo", subs=[sub("passive.py", "body_mass[worldid % body_mass.shape[0], bodyid] * gravcomp", "body_mass[worldid, bodyid] * gravcomp")], fire=["C10", "C09", "C02"]),
  dict(id="mut:batch-const-world", subs=[sub("forward.py", "time_in[worldid] + opt_timestep[worldid % opt_timestep.shape[0]]", "time_in[worldid] + opt_timestep[0 % opt_timestep.shape[0]]")], fire=["C10", "C09"]),
  dict(id="mut:batch-foreign-modulus", subs=[sub("derivative.py", "mass = body_mass[worldid % body_mass.shape[0], bodyid]", "mass = body_mass[worldid % body_inertia.shape[0], bodyid]")], fire=["C10"]),
  dict(id="mut:world-index-zero", subs=[sub("smooth.py", "wp.atomic_add(subtree_com_out, worldid, pid, subtree_com_in[worldid, bodyid])", "wp.atomic_add(subtree_com_out, worldid, pid, subtree_com_in[0, bodyid])")], fire=["C09"]),
  # ---- R-RACE
  dict(id="mut:atomic-to-plain-store", subs=[sub("smooth.py", "wp.atomic_add(subtree_com_out, worldid, pid, subtree_com_in[worldid, bodyid])", "subtree_com_out[worldid, pid] = subtree_com_out[worldid, pid] + subtree_com_in[worldid, bodyid]")], fire=["C11"]),
  # ---- R-CAP
  dict(id="mut:contact-guard-off-by-one", subs=[sub("collision_core.py", "  if cid < naconmax_in:\n    contact_dist_out[cid] = dist_in", "  if cid <= naconmax_in:\n    contact_dist_out[cid] = dist_in")], fire=["C16", "C17"]),
  dict(id="mut:row-guard-removed", subs=[sub("constraint.py", "    wp.atomic_add(ne_out, worldid, 1)\n    efcid = wp.atomic_add(nefc_out, worldid, 1)\n\n    if efcid >= njmax_in:\n      return\n", "    wp.atomic_add(ne_out, worldid, 1)\n    efcid = wp.atomic_add(nefc_out, worldid, 1)\n", nth=0)], fire=["C16", "C17"]),
  # ---- R-LIVE
  dict(id="mut:accumulator-not-cleared", subs=[sub("forward.py", "  # TODO(team): optimize performance\n  d.qfrc_actuator.zero_()\n", "")], fire=["C12"]),
  dict(id="mut:row-counters-not-zeroed", subs=[sub("constraint.py", "  wp.launch(\n    _zero_constraint_counts,\n    dim=d.nworld,\n    inputs=[d.ne, d.nf, d.nl, d.nefc, d.efc.jtdaj_nblock, efc_nnz],\n  )\n", "")], fire=["C12"]),
  dict(id="mut:subtree-com-not-initialised", subs=[sub("smooth.py", "subtree_com_out[worldid, bodyid] = ", "subtree_com_out[worldid, bodyid] += ", nth=0)], fire=["C12"]),
  # ---- R-RESET
  dict(id="mut:reset-drops-warmstart", subs=[sub("io.py", "        qacc_warmstart_out[worldid, i] = 0.0\n", "")], fire=["C13"]),
  # ---- R-LAYOUT
  dict(id="mut:state-act-size", subs=[sub("support.py", "            state_out[worldid, adr + j] = act_in[worldid, j]\n          adr += na", "            state_out[worldid, adr + j] = act_in[worldid, j]\n          adr += nv")], fire=["C15"]),
  dict(id="mut:keyframe-omits-ctrl", subs=[sub("io.py", "      ctrl_out[worldid, i] = key_ctrl[key, i]", "      pass")], fire=["C14"]),
  # ---- R-GATE
  dict(id="mut:solver-done-gate-removed", subs=[sub("solver.py", "    worldid, efcid = wp.tid()\n\n    if ctx_done_in[worldid]:\n      return\n", "    worldid, efcid = wp.tid()\n", nth=0)], fire=["C25"]),
  dict(id="mut:xquat-not-normalised", subs=[sub("smooth.py", "    xquat = wp.normalize(xquat)\n", "", nth=0)], fire=["C23"]),
  # ---- R-PAIR
  dict(id="mut:qpos-not-restored", subs=[sub("set_const.py", "  wp.copy(d.qpos, qpos_saved)\n", "", nth=0)], fire=["C33"]),
  # ---- C24
  dict(id="mut:satisfied-threshold", subs=[sub("solver.py", "  if jaref >= 0.0:", "  if jaref >= 1.0:")], fire=["C24"]),
  # ---- C37
  dict(id="mut:step2-drops-sensor-acc", subs=[sub("forward.py", "  sensor.sensor_acc(m, d)\n", "", nth=1)], fire=["C37"]),
]

MUTANTS += [
  # ---- R-BIND
  dict(id="mut:launch-args-swapped", subs=[sub("passive.py", "      m.dof_jntid,\n      d.qfrc_spring,\n      d.qfrc_damper,\n      d.qfrc_gravcomp,", "      m.dof_jntid,\n      d.qfrc_damper,\n      d.qfrc_spring,\n      d.qfrc_gravcomp,")], fire=["C02"]),
  # ---- R-SORT
  dict(id="mut:index-space-mixed", subs=[sub("forward.py", "    qvel_lin = wp.vec3(qvel[dof_adr], qvel[dof_adr + 1], qvel[dof_adr + 2]) * qvel_scale_in", "    qvel_lin = wp.vec3(qvel[qpos_adr], qvel[qpos_adr + 1], qvel[qpos_adr + 2]) * qvel_scale_in")], fire=["C08"]),
  dict(id="mut:parent-of-wrong-space", subs=[sub("smooth.py", "  bodyid = body_tree_[nodeid]\n  pid = body_parentid[bodyid]\n  if bodyid != 0:\n    wp.atomic_add(subtree_com_out", "  bodyid = body_tree_[nodeid]\n  pid = body_parentid[nodeid]\n  if bodyid != 0:\n    wp.atomic_add(subtree_com_out")], fire=["C01"]),
  # ---- R-GLOBAL
  dict(id="mut:cache-key-drops-name", subs=[sub("warp_util.py", "    key = tuple(_hash_arg(a) for a in args) + (hash(func.__name__),)", "    key = tuple(_hash_arg(a) for a in args)")], fire=["C36"]),
  # ---- C31
  dict(id="mut:get-data-into-wrong-field", subs=[sub("io.py", "  result.qfrc_spring[:] = d.qfrc_spring.numpy()[world_id]", "  result.qfrc_spring[:] = d.qfrc_damper.numpy()[world_id]")], fire=["C31"]),
  dict(id="mut:get-data-into-world0", subs=[sub("io.py", "  result.qfrc_spring[:] = d.qfrc_spring.numpy()[world_id]", "  result.qfrc_spring[:] = d.qfrc_spring.numpy()[0]")], fire=["C31"]),
  # ---- C30
  dict(id="mut:history-values-offset", subs=[sub("history.py", "  values_offset = buf_offset + 2 + n", "  values_offset = buf_offset + 1 + n", nth=0)], fire=["C30"]),
  # ---- C32
  dict(id="mut:wrong-flag-tested", subs=[sub("passive.py", "  has_damping = (damping != 0.0 or dpoly[0] != 0.0 or dpoly[1] != 0.0) and not (opt_disableflags & DisableBit.DAMPER)", "  has_damping = (damping != 0.0 or dpoly[0] != 0.0 or dpoly[1] != 0.0) and not (opt_disableflags & DisableBit.SPRING)")], fire=["C32"]),
  # ---- R-SEQ.2 / R-BIND
  dict(id="mut:friction-rows-counted-as-limits", subs=[sub("constraint.py", "        outputs=[\n          d.nf,\n          d.nefc,", "        outputs=[\n          d.nl,\n          d.nefc,", nth=0)], fire=["C05"]),
  # ---- C26
  dict(id="mut:inverse-passive-sign", subs=[sub("inverse.py", "  qfrc_inverse -= qfrc_passive_in[worldid, dofid]", "  qfrc_inverse += qfrc_passive_in[worldid, dofid]")], fire=["C26"]),
  dict(id="mut:inverse-skips-velocity-stage", subs=[sub("inverse.py", "  forward.fwd_velocity(m, d)\n  sensor.sensor_vel(m, d)\n\n  invdiscrete", "  sensor.sensor_vel(m, d)\n\n  invdiscrete")], fire=["C26"]),
  dict(id="mut:inverse-qacc-not-restored", subs=[sub("inverse.py", "    wp.copy(d.qacc, qacc_discrete)", "    pass")], fire=["C26"]),
  # ---- R-PAIR / C08
  # ---- R-WORLD.6 / R-TRACK / R-REF covered by the seeded changes C09_2 / C24_1 / C01_1
  # ---- C22 / C27 / C39 / C40 (claimed late)
  dict(id="mut:jac-com-of-body", subs=[sub("support.py", "  offset = point - wp.vec3(subtree_com_in[worldid, body_rootid[bodyid]])", "  offset = point - wp.vec3(subtree_com_in[worldid, bodyid])")], fire=["C22"]),
  dict(id="mut:fluid-deriv-com-of-body", subs=[sub("derivative.py", "  subtree_root = subtree_com_in[worldid, body_rootid[bodyid]]", "  subtree_root = subtree_com_in[worldid, bodyid]")], fire=["C27"]),
  dict(id="mut:contact-force-world-of-thread", subs=[sub("support.py", "  worldid = contact_worldid_in[contactid]\n\n  out[tid]", "  worldid = contact_worldid_in[tid]\n\n  out[tid]")], fire=["C39"]),
  dict(id="mut:flex-vertex-id-as-body-id", subs=[sub("smooth.py", "    bodyid = flex_vertbodyid[vertid]\n    xpos = xpos_in[worldid, bodyid]", "    bodyid = flex_vertbodyid[vertid]\n    xpos = xpos_in[worldid, vertid]")], fire=["C40", "C01"]),
]

REFACTORS = [
  dict(id="ref:clear-via-helper", subs=[sub("solver.py", "  d.cJ.zero_()\n", "  _clear_compact_jacobian(d)\n"), sub("solver.py", "def _compact_gather(", "def _clear_compact_jacobian(d: types.Data):\n  d.cJ.zero_()\n\n\ndef _compact_gather(")], silent=["C12", "C38"]),
  dict(id="ref:counter-zero-order", subs=[sub("collision_driver.py", "  d.ncollision.zero_()\n  if not incremental:\n    d.nacon.zero_()\n", "  if not incremental:\n    d.nacon.zero_()\n  d.ncollision.zero_()\n")], silent=["C16", "C12"]),
  dict(id="ref:scratch-zeros-like", subs=[sub("set_const.py", "    dof_M0 = wp.zeros((d.nworld, m.nv), dtype=float)", "    dof_M0 = wp.zeros_like(d.qvel)")], silent=["C10", "C33"]),
  dict(id="ref:inverse-local-flag", subs=[sub("inverse.py", "    if m.opt.disableflags & (DisableBit.EULERDAMP | DisableBit.DAMPER):", "    no_implicit_damping = m.opt.disableflags & (DisableBit.EULERDAMP | DisableBit.DAMPER)\n    if no_implicit_damping:")], silent=["C26"]),
  # verified silent under all 28 checks (tools run 2026-09-22); listed under the properties whose rules look at the construct
  dict(id="ref:rename-local", subs=[sub("smooth.py", "  mat = ximat_in[worldid, bodyid]\n", "  ximat_local = ximat_in[worldid, bodyid]\n  mat = ximat_local\n")], silent=["C01", "C02", "C09", "C11"]),
  dict(id="ref:alias-address", subs=[sub("forward.py", "  qpos_adr = jnt_qposadr[jntid]\n  dof_adr = jnt_dofadr[jntid]\n", "  qpos_address = jnt_qposadr[jntid]\n  qpos_adr = qpos_address\n  dof_adr = jnt_dofadr[jntid]\n")], silent=["C08", "C23", "C11"]),
  dict(id="ref:row-guard-negated", subs=[sub("constraint.py", "    if efcid >= njmax_in:\n      return\n", "    if not (efcid < njmax_in):\n      return\n", nth=0)], silent=["C16", "C17", "C05"]),
  dict(id="ref:done-via-local", subs=[sub("solver.py", "    worldid, efcid = wp.tid()\n\n    if ctx_done_in[worldid]:\n      return\n", "    worldid, efcid = wp.tid()\n\n    done = ctx_done_in[worldid]\n    if done:\n      return\n", nth=0)], silent=["C25", "C24", "C11"]),
  dict(id="ref:flag-helper", subs=[sub("passive.py", "  dsbl_spring = m.opt.disableflags & DisableBit.SPRING\n  dsbl_damper = m.opt.disableflags & DisableBit.DAMPER\n", "  dsbl_spring = _disabled(m, DisableBit.SPRING)\n  dsbl_damper = _disabled(m, DisableBit.DAMPER)\n"), sub("passive.py", "@event_scope\ndef passive(m: Model, d: Data):", "def _disabled(m: Model, bit: int):\n  return m.opt.disableflags & bit\n\n\n@event_scope\ndef passive(m: Model, d: Data):")], silent=["C32", "C12", "C37"]),
  dict(id="ref:launch-dim-local", subs=[sub("smooth.py", "  wp.launch(\n    _cam_local_to_global,\n    dim=(d.nworld, m.ncam),\n    inputs=[", "  cam_dim = (d.nworld, m.ncam)\n  wp.launch(\n    _cam_local_to_global,\n    dim=cam_dim,\n    inputs=[")], silent=["C01", "C09", "C33"]),
  dict(id="ref:inverse-sum-reordered", subs=[sub("inverse.py", "  qfrc_inverse = qfrc_bias_in[worldid, dofid]\n  qfrc_inverse += Ma[worldid, dofid]", "  qfrc_inverse = Ma[worldid, dofid]\n  qfrc_inverse += qfrc_bias_in[worldid, dofid]")], silent=["C26"]),
  dict(id="ref:hoist-modulo-into-local", subs=[sub("derivative.py", "  mass = body_mass[worldid % body_mass.shape[0], bodyid]", "  body_mass_id = worldid % body_mass.shape[0]\n  mass = body_mass[body_mass_id, bodyid]")], silent=["C10", "C09", "C08"]),
  dict(id="ref:world-alias", subs=[sub("smooth.py", "  if bodyid != 0:\n    wp.atomic_add(subtree_com_out, worldid, pid, subtree_com_in[worldid, bodyid])", "  w = worldid\n  if bodyid != 0:\n    wp.atomic_add(subtree_com_out, w, pid, subtree_com_in[w, bodyid])")], silent=["C09", "C11", "C01"]),
  dict(id="ref:guard-negated-form", subs=[sub("collision_core.py", "  if cid < naconmax_in:\n    contact_dist_out[cid] = dist_in", "  if not (cid >= naconmax_in):\n    contact_dist_out[cid] = dist_in")], silent=["C16", "C17", "C04"]),
  dict(id="ref:zero-via-fill", subs=[sub("forward.py", "  # TODO(team): optimize performance\n  d.qfrc_actuator.zero_()\n", "  d.qfrc_actuator.fill_(0.0)\n")], silent=["C12", "C37"]),
  dict(id="ref:satisfied-negated", subs=[sub("solver.py", "  if jaref >= 0.0:", "  if not (jaref < 0.0):")], silent=["C24"]),
  # the corrected twin of seeded change C30_3 (ring wrap by stepping back one slot, addresses hoisted out of the loops)
  dict(id="ref:history-hoisted-wrap", patch="selftest_patches/refactor_history_hoisted_wrap.diff", silent=["C30"]),
  dict(id="ref:mocap-fast-path", patch="selftest_patches/refactor_mocap_fast_path.diff", silent=["C10", "C23", "C01", "C09"]),
  dict(id="ref:compact-gather-scatter-form", patch="selftest_patches/refactor_compact_gather_scatter_form.diff", silent=["C38", "C12", "C11"]),
  # behaviour-preserving refactors written by independent sub-agents (refactors/RFn/notes.md: bit-identical digests, suite intact)
  dict(id="ref:RF1-1", patch="refactors/RF1/patch1.diff", silent=["C01", "C02", "C09", "C10", "C11", "C12", "C32"]),
  dict(id="ref:RF1-2", patch="refactors/RF1/patch2.diff", silent=["C01", "C02", "C09", "C10", "C11", "C12", "C32"]),
  dict(id="ref:RF1-3", patch="refactors/RF1/patch3.diff", silent=["C01", "C02", "C09", "C10", "C11", "C12", "C32"]),
  dict(id="ref:RF1-4", patch="refactors/RF1/patch4.diff", silent=["C01", "C02", "C09", "C10", "C11", "C12", "C32"]),
  dict(id="ref:RF1-5", patch="refactors/RF1/patch5.diff", silent=["C01", "C02", "C09", "C10", "C11", "C12", "C32"]),
  dict(id="ref:RF2-1", patch="refactors/RF2/patch1.diff", silent=["C05", "C11", "C12", "C16", "C17", "C24", "C25", "C38"]),
  dict(id="ref:RF2-2", patch="refactors/RF2/patch2.diff", silent=["C05", "C11", "C12", "C16", "C17", "C24", "C25", "C38"]),
  dict(id="ref:RF2-3", patch="refactors/RF2/patch3.diff", silent=["C05", "C11", "C12", "C16", "C17", "C24", "C25", "C38"]),
  dict(id="ref:RF2-4", patch="refactors/RF2/patch4.diff", silent=["C05", "C11", "C12", "C16", "C17", "C24", "C25", "C38"]),
  dict(id="ref:RF2-5", patch="refactors/RF2/patch5.diff", silent=["C05", "C11", "C12", "C16", "C17", "C24", "C25", "C38"]),
  dict(id="ref:RF3-1", patch="refactors/RF3/patch1.diff", silent=["C04", "C09", "C11", "C12", "C16", "C17", "C19"]),
  dict(id="ref:RF3-2", patch="refactors/RF3/patch2.diff", silent=["C04", "C09", "C11", "C12", "C16", "C17", "C19"]),
  dict(id="ref:RF3-3", patch="refactors/RF3/patch3.diff", silent=["C04", "C09", "C11", "C12", "C16", "C17", "C19"]),
  dict(id="ref:RF3-4", patch="refactors/RF3/patch4.diff", silent=["C04", "C09", "C11", "C12", "C16", "C17", "C19"]),
  dict(id="ref:RF3-5", patch="refactors/RF3/patch5.diff", silent=["C04", "C09", "C11", "C12", "C16", "C17", "C19"]),
  dict(id="ref:RF4-1", patch="refactors/RF4/patch1.diff", silent=["C02", "C03", "C08", "C11", "C12", "C26", "C32", "C37"]),
  dict(id="ref:RF4-2", patch="refactors/RF4/patch2.diff", silent=["C02", "C03", "C08", "C11", "C12", "C26", "C32", "C37"]),
  dict(id="ref:RF4-3", patch="refactors/RF4/patch3.diff", silent=["C02", "C03", "C08", "C11", "C12", "C26", "C32", "C37"]),
  dict(id="ref:RF4-4", patch="refactors/RF4/patch4.diff", silent=["C02", "C03", "C08", "C11", "C12", "C26", "C32", "C37"]),
  dict(id="ref:RF4-5", patch="refactors/RF4/patch5.diff", silent=["C02", "C03", "C08", "C11", "C12", "C26", "C32", "C37"]),
  dict(id="ref:RF5-1", patch="refactors/RF5/patch1.diff", silent=["C12", "C13", "C14", "C15", "C30", "C31", "C09"]),
  dict(id="ref:RF5-2", patch="refactors/RF5/patch2.diff", silent=["C12", "C13", "C14", "C15", "C30", "C31", "C09"]),
  dict(id="ref:RF5-3", patch="refactors/RF5/patch3.diff", silent=["C12", "C13", "C14", "C15", "C30", "C31", "C09"]),
  dict(id="ref:RF5-4", patch="refactors/RF5/patch4.diff", silent=["C12", "C13", "C14", "C15", "C30", "C31", "C09"]),
  dict(id="ref:RF5-5", patch="refactors/RF5/patch5.diff", silent=["C12", "C13", "C14", "C15", "C30", "C31", "C09"]),
  dict(id="ref:RF6-1", patch="refactors/RF6/patch1.diff", silent=["C07", "C09", "C11", "C12", "C33", "C17"]),
  dict(id="ref:RF6-2", patch="refactors/RF6/patch2.diff", silent=["C07", "C09", "C11", "C12", "C33", "C17"]),
  dict(id="ref:RF6-3", patch="refactors/RF6/patch3.diff", silent=["C07", "C09", "C11", "C12", "C33", "C17"]),
  dict(id="ref:RF6-4", patch="refactors/RF6/patch4.diff", silent=["C07", "C09", "C11", "C12", "C33", "C17"]),
  dict(id="ref:RF6-5", patch="refactors/RF6/patch5.diff", silent=["C07", "C09", "C11", "C12", "C33", "C17"]),
  # corrected twins of seeded changes, written by independent sub-agents (twins/<id>/twin_notes.md): the seed's refactor with
  # its wrong detail put right must be silent under the very checks that report the seed
  dict(id="ref:twin-C07_2", patch="twins/C07_2/twin.diff", silent=["C07"]),
  dict(id="ref:twin-C08_2", patch="twins/C08_2/twin.diff", silent=["C08", "C09", "C10"]),
  dict(id="ref:twin-C13_4", patch="twins/C13_4/twin.diff", silent=["C13"]),
  dict(id="ref:twin-C14_1", patch="twins/C14_1/twin.diff", silent=["C14"]),
  dict(id="ref:twin-C15_2", patch="twins/C15_2/twin.diff", silent=["C36"]),
  dict(id="ref:twin-C12_3", patch="twins/C12_3/twin.diff", silent=["C12", "C32"]),
  dict(id="ref:twin-C33_4", patch="twins/C33_4/twin.diff", silent=["C33"]),
  dict(id="ref:twin-C14_2", patch="twins/C14_2/twin.diff", silent=["C14"]),
  dict(id="ref:twin-C11_2", patch="twins/C11_2/twin.diff", silent=["C11"]),
  dict(id="ref:twin-C11_3", patch="twins/C11_3/twin.diff", silent=["C11"]),
  dict(id="ref:twin-C37_3", patch="twins/C37_3/twin.diff", silent=["C08", "C37"]),
  dict(id="ref:twin-C25_1", patch="twins/C25_1/twin.diff", silent=["C25"]),
  dict(id="ref:twin-C04_2", patch="twins/C04_2/twin.diff", silent=["C04", "C08", "C09", "C10"]),
  dict(id="ref:RF7-1", patch="refactors/RF7/patch1.diff", silent=["C04", "C09", "C11", "C12", "C16", "C17", "C40"]),
  dict(id="ref:RF7-2", patch="refactors/RF7/patch2.diff", silent=["C04", "C09", "C11", "C12", "C16", "C17", "C40"]),
  dict(id="ref:RF7-3", patch="refactors/RF7/patch3.diff", silent=["C04", "C09", "C11", "C12", "C16", "C17", "C40"]),
  dict(id="ref:RF7-4", patch="refactors/RF7/patch4.diff", silent=["C04", "C09", "C11", "C12", "C16", "C17", "C40"]),
  dict(id="ref:RF7-5", patch="refactors/RF7/patch5.diff", silent=["C04", "C09", "C11", "C12", "C16", "C17", "C40"]),
  dict(id="ref:RF8-1", patch="refactors/RF8/patch1.diff", silent=["C05", "C09", "C11", "C12", "C16", "C17", "C22", "C32", "C40"]),
  dict(id="ref:RF8-2", patch="refactors/RF8/patch2.diff", silent=["C05", "C09", "C11", "C12", "C16", "C17", "C22", "C32", "C40"]),
  dict(id="ref:RF8-3", patch="refactors/RF8/patch3.diff", silent=["C05", "C09", "C11", "C12", "C16", "C17", "C22", "C32", "C40"]),
  dict(id="ref:RF8-4", patch="refactors/RF8/patch4.diff", silent=["C05", "C09", "C11", "C12", "C16", "C17", "C22", "C32", "C40"]),
  dict(id="ref:RF8-5", patch="refactors/RF8/patch5.diff", silent=["C05", "C09", "C11", "C12", "C16", "C17", "C22", "C32", "C40"]),
  dict(id="ref:RF9-1", patch="refactors/RF9/patch1.diff", silent=["C11", "C12", "C24", "C25", "C38", "C16", "C17"]),
  dict(id="ref:RF9-2", patch="refactors/RF9/patch2.diff", silent=["C11", "C12", "C24", "C25", "C38", "C16", "C17"]),
  dict(id="ref:RF9-3", patch="refactors/RF9/patch3.diff", silent=["C11", "C12", "C24", "C25", "C38", "C16", "C17"]),
  dict(id="ref:RF9-4", patch="refactors/RF9/patch4.diff", silent=["C11", "C12", "C24", "C25", "C38", "C16", "C17"]),
  dict(id="ref:RF9-5", patch="refactors/RF9/patch5.diff", silent=["C11", "C12", "C24", "C25", "C38", "C16", "C17"]),
  dict(id="ref:RF10-1", patch="refactors/RF10/patch1.diff", silent=["C02", "C09", "C10", "C11", "C12", "C27", "C32", "C40"]),
  dict(id="ref:RF10-2", patch="refactors/RF10/patch2.diff", silent=["C02", "C09", "C10", "C11", "C12", "C27", "C32", "C40"]),
  dict(id="ref:RF10-3", patch="refactors/RF10/patch3.diff", silent=["C02", "C09", "C10", "C11", "C12", "C27", "C32", "C40"]),
  dict(id="ref:RF10-4", patch="refactors/RF10/patch4.diff", silent=["C02", "C09", "C10", "C11", "C12", "C27", "C32", "C40"]),
  dict(id="ref:RF10-5", patch="refactors/RF10/patch5.diff", silent=["C02", "C09", "C10", "C11", "C12", "C27", "C32", "C40"]),
  dict(id="ref:RF11-1", patch="refactors/RF11/patch1.diff", silent=["C31", "C19", "C11", "C13", "C12", "C36"]),
  dict(id="ref:RF11-2", patch="refactors/RF11/patch2.diff", silent=["C31", "C19", "C11", "C13", "C12", "C36"]),
  dict(id="ref:RF11-3", patch="refactors/RF11/patch3.diff", silent=["C31", "C19", "C11", "C13", "C12", "C36"]),
  dict(id="ref:RF11-4", patch="refactors/RF11/patch4.diff", silent=["C31", "C19", "C11", "C13", "C12", "C36"]),
  dict(id="ref:RF11-5", patch="refactors/RF11/patch5.diff", silent=["C31", "C19", "C11", "C13", "C12", "C36"]),
  dict(id="ref:RF12-1", patch="refactors/RF12/patch1.diff", silent=["C08", "C12", "C37", "C26", "C07", "C39", "C03", "C32"]),
  dict(id="ref:RF12-2", patch="refactors/RF12/patch2.diff", silent=["C08", "C12", "C37", "C26", "C07", "C39", "C03", "C32"]),
  dict(id="ref:RF12-3", patch="refactors/RF12/patch3.diff", silent=["C08", "C12", "C37", "C26", "C07", "C39", "C03", "C32"]),
  dict(id="ref:RF12-4", patch="refactors/RF12/patch4.diff", silent=["C08", "C12", "C37", "C26", "C07", "C39", "C03", "C32"]),
  dict(id="ref:RF12-5", patch="refactors/RF12/patch5.diff", silent=["C08", "C12", "C37", "C26", "C07", "C39", "C03", "C32"]),
  dict(id="ref:RF13-1", patch="refactors/RF13/patch1.diff", silent=["C13", "C14", "C09", "C12", "C31", "C17"]),
  dict(id="ref:RF13-2", patch="refactors/RF13/patch2.diff", silent=["C13", "C14", "C09", "C12", "C31", "C17"]),
  dict(id="ref:RF13-3", patch="refactors/RF13/patch3.diff", silent=["C13", "C14", "C09", "C12", "C31", "C17"]),
  dict(id="ref:RF13-4", patch="refactors/RF13/patch4.diff", silent=["C13", "C14", "C09", "C12", "C31", "C17"]),
  dict(id="ref:RF13-5", patch="refactors/RF13/patch5.diff", silent=["C13", "C14", "C09", "C12", "C31", "C17"]),
  dict(id="ref:RF14-1", patch="refactors/RF14/patch1.diff", silent=["C16", "C17", "C38", "C04", "C05", "C09", "C11", "C12"]),
  dict(id="ref:RF14-2", patch="refactors/RF14/patch2.diff", silent=["C16", "C17", "C38", "C04", "C05", "C09", "C11", "C12"]),
  dict(id="ref:RF14-3", patch="refactors/RF14/patch3.diff", silent=["C16", "C17", "C38", "C04", "C05", "C09", "C11", "C12"]),
  dict(id="ref:RF14-4", patch="refactors/RF14/patch4.diff", silent=["C16", "C17", "C38", "C04", "C05", "C09", "C11", "C12"]),
  dict(id="ref:RF14-5", patch="refactors/RF14/patch5.diff", silent=["C16", "C17", "C38", "C04", "C05", "C09", "C11", "C12"]),
  dict(id="ref:RF15-1", patch="refactors/RF15/patch1.diff", silent=["C02", "C08", "C09", "C10", "C11", "C12", "C05"]),
  dict(id="ref:RF15-2", patch="refactors/RF15/patch2.diff", silent=["C02", "C08", "C09", "C10", "C11", "C12", "C05"]),
  dict(id="ref:RF15-3", patch="refactors/RF15/patch3.diff", silent=["C02", "C08", "C09", "C10", "C11", "C12", "C05"]),
  dict(id="ref:RF15-4", patch="refactors/RF15/patch4.diff", silent=["C02", "C08", "C09", "C10", "C11", "C12", "C05"]),
  dict(id="ref:RF15-5", patch="refactors/RF15/patch5.diff", silent=["C02", "C08", "C09", "C10", "C11", "C12", "C05"]),
  dict(id="ref:RF16-1", patch="refactors/RF16/patch1.diff", silent=["C01", "C02", "C07", "C09", "C11", "C12"]),
  dict(id="ref:RF16-2", patch="refactors/RF16/patch2.diff", silent=["C01", "C02", "C07", "C09", "C11", "C12"]),
  dict(id="ref:RF16-3", patch="refactors/RF16/patch3.diff", silent=["C01", "C02", "C07", "C09", "C11", "C12"]),
  dict(id="ref:RF16-4", patch="refactors/RF16/patch4.diff", silent=["C01", "C02", "C07", "C09", "C11", "C12"]),
  dict(id="ref:RF16-5", patch="refactors/RF16/patch5.diff", silent=["C01", "C02", "C07", "C09", "C11", "C12"]),
  dict(id="ref:RF17-1", patch="refactors/RF17/patch1.diff", silent=["C32", "C26", "C08", "C12", "C37", "C25", "C04"]),
  dict(id="ref:RF17-2", patch="refactors/RF17/patch2.diff", silent=["C32", "C26", "C08", "C12", "C37", "C25", "C04"]),
  dict(id="ref:RF17-3", patch="refactors/RF17/patch3.diff", silent=["C32", "C26", "C08", "C12", "C37", "C25", "C04"]),
  dict(id="ref:RF17-4", patch="refactors/RF17/patch4.diff", silent=["C32", "C26", "C08", "C12", "C37", "C25", "C04"]),
  dict(id="ref:RF17-5", patch="refactors/RF17/patch5.diff", silent=["C32", "C26", "C08", "C12", "C37", "C25", "C04"]),
  dict(id="ref:RF18-1", patch="refactors/RF18/patch1.diff", silent=["C33", "C30", "C15", "C09", "C10", "C12"]),
  dict(id="ref:RF18-2", patch="refactors/RF18/patch2.diff", silent=["C33", "C30", "C15", "C09", "C10", "C12"]),
  dict(id="ref:RF18-3", patch="refactors/RF18/patch3.diff", silent=["C33", "C30", "C15", "C09", "C10", "C12"]),
  dict(id="ref:RF18-4", patch="refactors/RF18/patch4.diff", silent=["C33", "C30", "C15", "C09", "C10", "C12"]),
  dict(id="ref:RF18-5", patch="refactors/RF18/patch5.diff", silent=["C33", "C30", "C15", "C09", "C10", "C12"]),
  dict(id="ref:RF19-1", patch="refactors/RF19/patch1.diff", silent=["C07", "C16", "C17", "C11"]),
  dict(id="ref:RF19-2", patch="refactors/RF19/patch2.diff", silent=["C07", "C16", "C17", "C11"]),
  dict(id="ref:RF19-3", patch="refactors/RF19/patch3.diff", silent=["C07", "C16", "C17", "C11"]),
  dict(id="ref:RF19-4", patch="refactors/RF19/patch4.diff", silent=["C07", "C16", "C17", "C11"]),
  dict(id="ref:RF19-5", patch="refactors/RF19/patch5.diff", silent=["C07", "C16", "C17", "C11"]),
  dict(id="ref:RF20-1", patch="refactors/RF20/patch1.diff", silent=["C04", "C19", "C16", "C11"]),
  dict(id="ref:RF20-2", patch="refactors/RF20/patch2.diff", silent=["C04", "C19", "C16", "C11"]),
  dict(id="ref:RF20-3", patch="refactors/RF20/patch3.diff", silent=["C04", "C19", "C16", "C11"]),
  dict(id="ref:RF20-4", patch="refactors/RF20/patch4.diff", silent=["C04", "C19", "C16", "C11"]),
  dict(id="ref:RF20-5", patch="refactors/RF20/patch5.diff", silent=["C04", "C19", "C16", "C11"]),
  dict(id="ref:RF21-1", patch="refactors/RF21/patch1.diff", silent=["C27", "C39", "C22", "C32"]),
  dict(id="ref:RF21-2", patch="refactors/RF21/patch2.diff", silent=["C27", "C39", "C22", "C32"]),
  dict(id="ref:RF21-3", patch="refactors/RF21/patch3.diff", silent=["C27", "C39", "C22", "C32"]),
  dict(id="ref:RF21-4", patch="refactors/RF21/patch4.diff", silent=["C27", "C39", "C22", "C32"]),
  dict(id="ref:RF21-5", patch="refactors/RF21/patch5.diff", silent=["C27", "C39", "C22", "C32"]),
  dict(id="ref:RF22-1", patch="refactors/RF22/patch1.diff", silent=["C24", "C25", "C11", "C12"]),
  dict(id="ref:RF22-2", patch="refactors/RF22/patch2.diff", silent=["C24", "C25", "C11", "C12"]),
  dict(id="ref:RF22-3", patch="refactors/RF22/patch3.diff", silent=["C24", "C25", "C11", "C12"]),
  dict(id="ref:RF22-4", patch="refactors/RF22/patch4.diff", silent=["C24", "C25", "C11", "C12"]),
  dict(id="ref:RF22-5", patch="refactors/RF22/patch5.diff", silent=["C24", "C25", "C11", "C12"]),
  dict(id="ref:sig-guard-forms", subs=[sub("support.py", "  if sig >= (1 << State.NSTATE):", "  if not (sig < 2 ** State.NSTATE):", nth=0)], silent=["C15"]),
]

CATALOGUE = (
  [dict(id=f"seed:{sid}", patch=f"seeded/{sid}/patch.diff", fire=list(props)) for sid, props in SEEDED]
  + [dict(id=f"unfix:{f[6:-5]}", patch=f"selftest_patches/{f}", fire=list(props)) for f, props in UNFIX]
  + MUTANTS
  + REFACTORS
)
