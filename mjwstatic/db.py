"""Analysis database: glue between the source model, kernel evaluations and launch sites."""

from __future__ import annotations

import ast
import time
from typing import Dict, List, Optional, Tuple

from . import hostir, kir
from .hostir import Const, Event, Expr, Field, KernelV, Temp, View, root_array
from .srcmodel import AnalysisError, FieldSpec, SourceModel
from .terms import T


def field_of_param(sm: SourceModel, name: str) -> Optional[FieldSpec]:
  """Schema field a kernel parameter is named after (the repo's naming convention), or None."""
  base = name
  for suf in ("_in", "_out"):
    if name.endswith(suf):
      base = name[: -len(suf)]
      break
  spec = sm.schema.get(base)
  if spec is None:
    return None
  has_suffix = base != name
  # Model params carry no suffix, Data params must carry one (kernel_analyzer convention)
  if spec.owner == "Model" and has_suffix:
    return None
  if spec.owner == "Data" and not has_suffix:
    return None
  return spec


class LaunchCtx:
  """One launch event together with the evaluation of its kernel under the launch's static values."""

  def __init__(self, db: "DB", ev: Event):
    self.db = db
    self.ev = ev
    self.kv: KernelV = ev.kernel
    self.fi = ev.kernel.fi
    self.binding: Dict[str, hostir.HV] = {p.name: v for p, v in (ev.bindings or [])}
    consts = {p.name: v.v for p, v in (ev.bindings or []) if p.kind == "scalar" and isinstance(v, Const) and isinstance(v.v, (bool, int, float))}
    self.keval: kir.KernelEval = db.kernel_eval(ev.kernel, consts)
    self.formals: Dict[str, kir.ParamInfo] = {p.name: p for p, _ in (ev.bindings or [])}

  def field(self, root: str) -> Optional[FieldSpec]:
    """Schema field behind kernel array parameter `root` at this launch (binding first, then name)."""
    base = root.split(".")[0]
    hv = self.binding.get(base)
    if hv is not None:
      r = root_array(hv)
      if isinstance(r, Field):
        spec = self.db.sm.schema_by_path.get((r.owner, r.path))
        if spec is not None:
          return spec
        return None
      if isinstance(r, Temp):
        return None
    return field_of_param(self.db.sm, base)

  def host(self, root: str):
    return self.binding.get(root.split(".")[0])

  def dim_text(self, k: int) -> str:
    d = self.ev.dim or []
    if k < len(d):
      return d[k].text
    return "?"

  @property
  def name(self):
    return self.fi.key

  def scalar_binding_text(self, pname: str) -> Optional[str]:
    hv = self.binding.get(pname)
    return hv.text if hv is not None else None


class DB:
  def __init__(self, repo: str):
    t0 = time.time()
    self.sm = SourceModel(repo)
    self._kevals: Dict[tuple, kir.KernelEval] = {}
    self.sites: Dict[str, object] = {}
    self.site_events: Dict[str, List[Event]] = {}
    self.shallow_notes: List[str] = []
    self.unresolved: List[str] = []
    self.t_load = time.time() - t0
    self._launch_ctxs: Optional[List[LaunchCtx]] = None
    self._traces: Dict[tuple, hostir.HostInterp] = {}

  # ------------------------------------------------------------------ kernels
  def kernel_eval(self, kv: KernelV, consts=None) -> kir.KernelEval:
    consts = consts or {}
    key = (kv.fi.key, tuple(sorted((k, repr(v)) for k, v in kv.static_vals.items())), tuple(sorted(kv.closure_text.items())), tuple(sorted(consts.items())))
    ev = self._kevals.get(key)
    if ev is None:
      bind = {k: T("cv", f"{k}={v}") for k, v in kv.closure_text.items() if k not in kv.static_vals}
      ev = kir.evaluate(self.sm, kv.fi, kv.static_vals, bind, consts)
      self._kevals[key] = ev
    return ev

  def eval_plain(self, fi) -> kir.KernelEval:
    return self.kernel_eval(KernelV(fi, {}, {}))

  # ------------------------------------------------------------------ launches (package-wide, per function)
  def all_launch_sites(self) -> Dict[str, object]:
    if not self.sites:
      for fi in self.sm.all_funcs():
        if fi.module == "cli":
          continue
        for n in ast.walk(fi.node):
          if isinstance(n, ast.Call) and kir.dotted(n.func) in ("wp.launch", "wp.launch_tiled"):
            self.sites[f"{fi.file}:{n.lineno}"] = fi
    return self.sites

  def resolve_all_launches(self) -> Dict[str, List[Event]]:
    if self.site_events:
      return self.site_events
    self.all_launch_sites()
    for fi in self.sm.all_funcs(kinds=("host",)):
      if fi.parent is not None or fi.module in ("__pkg__", "cli"):
        continue
      hi = hostir.HostInterp(self.sm, shallow=True)
      hi.run(fi.key)
      for e in hi.events:
        if e.kind == "launch":
          self.site_events.setdefault(e.loc, []).append(e)
      self.unresolved += hi.unresolved_launches
      self.shallow_notes += hi.notes
    return self.site_events

  def launch_ctxs(self) -> List[LaunchCtx]:
    """One LaunchCtx per distinct (site, kernel variant, binding) over the whole package."""
    if self._launch_ctxs is None:
      out = []
      seen = set()
      for loc, evs in sorted(self.resolve_all_launches().items()):
        for e in evs:
          if e.kernel is None or not e.arity_ok:
            continue
          sig = (loc, e.kernel.text, tuple(v.text for _, v in e.bindings), tuple(d.text for d in e.dim))
          if sig in seen:
            continue
          seen.add(sig)
          out.append(LaunchCtx(self, e))
      self._launch_ctxs = out
    return self._launch_ctxs

  def missing_sites(self) -> List[str]:
    ev = self.resolve_all_launches()
    return [s for s in self.all_launch_sites() if s not in ev or all(e.kernel is None or not e.arity_ok for e in ev[s])]

  # ------------------------------------------------------------------ deep traces
  def trace(self, entry: str, **lit) -> hostir.HostInterp:
    key = (entry, tuple(sorted(lit.items())))
    if key not in self._traces:
      hi = hostir.HostInterp(self.sm)
      hi.run(entry, **lit)
      self._traces[key] = hi
    return self._traces[key]

  def trace_launch_ctxs(self, entry: str, **lit) -> List[LaunchCtx]:
    hi = self.trace(entry, **lit)
    return [LaunchCtx(self, e) for e in hi.events if e.kind == "launch" and e.kernel is not None and e.arity_ok]

  # ------------------------------------------------------------------ coverage numbers
  def stats(self) -> dict:
    sm = self.sm
    kinds = {}
    for f in sm.all_funcs():
      kinds[f.kind] = kinds.get(f.kind, 0) + 1
    return {
      "modules": len(sm.modules),
      "kernels": kinds.get("kernel", 0),
      "funcs": kinds.get("func", 0),
      "factories": kinds.get("factory", 0),
      "host_functions": kinds.get("host", 0),
      "schema_array_fields": sum(1 for s in sm.schema.values() if s.is_array),
      "launch_sites": len(self.all_launch_sites()),
    }


def is_nworld_dim(hv) -> bool:
  if hv is None:
    return False
  t = hv.text
  return t.endswith(".nworld") or t == "nworld"
