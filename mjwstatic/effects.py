"""Field-level effects of host trace events (reads / writes by stable host-array key)."""

from __future__ import annotations

import dataclasses
from typing import Dict, List, Optional, Set, Tuple

from .db import DB, LaunchCtx
from .hostir import Const, Event, Field, HostInterp, Phi, Temp, View, hv_key, root_array
from .rules.world import array_key

EXT_ROLES = {
  # name -> list of roles per positional argument: r(ead) / w(rite) / rw / - (not an array)
  "wp.utils.array_scan": ["r", "w", "-"],
  "wp.utils.segmented_sort_pairs": ["rw", "rw", "-", "r", "r"],
  "wp.utils.radix_sort_pairs": ["rw", "rw", "-"],
  "wp.utils.array_cast": ["r", "w"],
}


@dataclasses.dataclass
class Effect:
  ev: Event
  reads: Dict[str, str]  # key -> loc of a representative read
  writes: Dict[str, str]  # key -> kind: full | w | rmw
  lc: Optional[LaunchCtx] = None


def _keys(hv) -> List[str]:
  if hv is None:
    return []
  r = root_array(hv)
  if isinstance(r, Phi):
    out = []
    for a in r.alts:
      out += _keys(a)
    return out
  if isinstance(r, (Field, Temp)):
    return [r.key]
  return []


def launch_effect(db: DB, ev: Event) -> Effect:
  lc = LaunchCtx(db, ev)
  reads: Dict[str, str] = {}
  writes: Dict[str, str] = {}
  for a in lc.keval.accesses:
    base = a.root.split(".")[0]
    hv = lc.binding.get(base)
    keys = _keys(hv)
    if not keys:
      continue
    for k in keys:
      if a.kind in ("r", "tile_r", "arr_read"):
        reads.setdefault(k, a.loc)
      elif a.kind in ("w", "tile_w"):
        if getattr(a, "rmw", False):
          reads.setdefault(k, a.loc)
          writes[k] = "rmw" if writes.get(k) in (None, "rmw") else writes[k]
        else:
          writes[k] = "w"
      else:  # atomics accumulate into the existing value
        reads.setdefault(k, a.loc)
        if writes.get(k) != "w":
          writes[k] = "rmw"
  # `x_out[i] = f(x_out[i])`: a read and a plain write of the same key in one kernel is an in-place update, still a def
  return Effect(ev, reads, writes, lc)


def event_effect(db: DB, ev: Event) -> Optional[Effect]:
  if ev.kind == "launch":
    if ev.kernel is None or not ev.arity_ok:
      return None
    return launch_effect(db, ev)
  if ev.kind == "fill":
    return Effect(ev, {}, {k: "full" for k in _keys(ev.dst)})
  if ev.kind == "copy":
    return Effect(ev, {k: ev.loc for k in _keys(ev.src)}, {k: "full" for k in _keys(ev.dst)})
  if ev.kind == "alloc":
    w = {}
    if ev.name in ("zeros", "full", "ones", "clone", "array"):
      w = {k: "full" for k in _keys(ev.dst)}
    r = {k: ev.loc for k in _keys(ev.src)} if ev.name == "clone" else {}
    return Effect(ev, r, w)
  if ev.kind == "ext":
    roles = EXT_ROLES.get(ev.name)
    reads, writes = {}, {}
    for i, a in enumerate(ev.args or []):
      role = roles[i] if roles and i < len(roles) else "rw"
      for k in _keys(a):
        if "r" in role:
          reads[k] = ev.loc
        if "w" in role:
          writes[k] = "w" if role == "w" else "rmw"
    return Effect(ev, reads, writes)
  if ev.kind in ("hostwrite",):
    return Effect(ev, {}, {k: "w" for k in _keys(ev.dst)})
  if ev.kind in ("hostread",):
    return Effect(ev, {k: ev.loc for k in _keys(ev.src)}, {})
  return None


def trace_effects(db: DB, hi: HostInterp) -> List[Effect]:
  out = []
  for ev in hi.events:
    e = event_effect(db, ev)
    if e is not None:
      out.append(e)
  return out


def dominates(def_pc: tuple, use_pc: tuple) -> bool:
  """A definition made under def_pc is available at a use under use_pc when every literal of def_pc also holds at the use."""
  u = set(use_pc)
  return all(l in u for l in def_pc)


def covered(defs: List[tuple], use_pc: tuple) -> bool:
  """Is the use covered by earlier definitions? (one dominating def, or two defs on complementary branches)."""
  for d in defs:
    if dominates(d, use_pc):
      return True
  u = set(use_pc)
  # complementary pair: d1 = common + (c, True), d2 = common + (c, False)
  for i, d1 in enumerate(defs):
    for d2 in defs[i + 1 :]:
      s1, s2 = set(d1) - u, set(d2) - u
      if len(s1) == 1 and len(s2) == 1:
        (t1, p1), (t2, p2) = next(iter(s1)), next(iter(s2))
        if t1 == t2 and p1 != p2:
          return True
  return False


def contradictory(pc1: tuple, pc2: tuple) -> bool:
  """Two path conditions that cannot hold together (some atom with opposite polarity)."""
  d = {}
  for t, p in pc1:
    d[t] = p
  for t, p in pc2:
    if t in d and d[t] != p:
      return True
  return False


def may_covered(defs: List[tuple], use_pc: tuple) -> bool:
  """May-define counts as a kill: some earlier definition lies on a path compatible with the use."""
  return any(not contradictory(d, use_pc) for d in defs)
