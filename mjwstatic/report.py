"""Verdict plumbing: findings, known-findings matching, evidence JSON, VIOLATION lines, replay files."""

from __future__ import annotations

import dataclasses
import hashlib
import json
import os
import re
import time
from typing import Any, Dict, List, Optional

VERIF = os.path.dirname(os.path.dirname(os.path.abspath(__file__)))


@dataclasses.dataclass
class Finding:
  rule: str  # e.g. R-BATCH
  construct: str  # stable key: module.function|array|what  (never a line number)
  message: str
  loc: str = ""  # file:line for the human
  detail: Optional[dict] = None

  def key(self) -> str:
    return f"{self.rule}|{self.construct}"


def norm_stmt(text: str) -> str:
  """Normalised statement text digest (whitespace-insensitive) used inside construct keys."""
  t = re.sub(r"\s+", "", text)
  return hashlib.sha1(t.encode()).hexdigest()[:10]


class Result:
  def __init__(self, prop: str, tier: str):
    self.prop = prop
    self.tier = tier
    self.findings: List[Finding] = []
    self.obligations = 0
    self.discharged = 0
    self.evaluations = 0
    self.constructs = set()
    self.samples: List[Any] = []
    self.rule_text = ""
    self.explanation = ""
    self.assumptions: List[str] = []
    self.extra: Dict[str, Any] = {}
    self.floors: Dict[str, tuple] = {}
    self.errors: List[str] = []
    self.t0 = time.time()

  # obligations ----------------------------------------------------------------------------------
  def ob(self, ok: bool, construct: str, finding: Optional[Finding] = None, sample=None):
    self.obligations += 1
    self.evaluations += 1
    self.constructs.add(construct)
    if ok:
      self.discharged += 1
    elif finding is not None:
      self.add(finding)
    if sample is not None and len(self.samples) < 12:
      self.samples.append(sample)

  def add(self, f: Finding):
    if not any(x.key() == f.key() for x in self.findings):
      self.findings.append(f)

  def floor(self, name: str, count: int, minimum: int):
    """Fail closed when a rule matched fewer instances than confirmed by hand."""
    self.floors[name] = (count, minimum)
    if count < minimum:
      self.errors.append(f"floor {name}: matched {count} < {minimum} confirmed instances (analyser lost sight of the code)")

  def error(self, msg: str):
    self.errors.append(msg)


def load_known(path=None) -> dict:
  path = path or os.path.join(VERIF, "known_findings.json")
  if not os.path.exists(path):
    return {"findings": [], "fixed": []}
  with open(path) as f:
    return json.load(f)


def classify(res: Result):
  """Split the findings of a run into (new, known) according to known_findings.json."""
  known = load_known()
  known_keys = {(k["property"], k["key"]) for k in known.get("findings", [])}
  new, kn = [], []
  for f in res.findings:
    (kn if (res.prop, f.key()) in known_keys else new).append(f)
  return new, kn


def finish(res: Result, seed: int = 0) -> int:
  """Print verdict lines, write evidence and replay files, return the exit code."""
  known = load_known()
  known_keys = {(k["property"], k["key"]): k for k in known.get("findings", [])}
  new, kn = classify(res)
  # stale known findings are fine (defect repaired elsewhere) but are reported in the evidence
  stale = [k["key"] for (p, _), k in known_keys.items() if p == res.prop and not any(f.key() == k["key"] for f in res.findings)]

  ev_dir = os.environ.get("VERIF_EVIDENCE_DIR") or os.path.join(VERIF, "evidence")
  os.makedirs(ev_dir, exist_ok=True)
  rp_dir = os.path.join(os.environ.get("VERIF_REPLAY_DIR") or os.path.join(VERIF, "replay"), res.prop)
  wall = time.time() - res.t0

  code = 0
  lines = []
  if res.errors:
    for e in res.errors:
      lines.append(f"ANALYSIS-ERROR property={res.prop} {e}")
    code = 2
  for f in kn:
    lines.append(f"KNOWN-FINDING: property={res.prop} {f.key()} :: {f.message} [{f.loc}]")
  if new:
    os.makedirs(rp_dir, exist_ok=True)
    for f in new:
      rp = os.path.join(rp_dir, hashlib.sha1(f.key().encode()).hexdigest()[:12] + ".json")
      with open(rp, "w") as fh:
        json.dump({"property": res.prop, "rule": f.rule, "construct": f.construct, "key": f.key(), "message": f.message, "loc": f.loc, "detail": f.detail, "rerun": f"./check {res.prop} --tier {res.tier}"}, fh, indent=1, default=str)
      lines.append(f"VIOLATION property={res.prop} replay={rp}")
      lines.append(f"  {f.rule} {f.construct}: {f.message} [{f.loc}]")
    code = 1

  coverage = {
    "explanation": res.explanation,
    "rule": res.rule_text,
    "evaluations": max(res.evaluations, 0),
    "distinct_nontrivial": len(res.constructs),
    "obligations": res.obligations,
    "discharged": res.discharged,
    "samples": res.samples[:12] or ["(none)"],
    "checker_cmd": f"./check {res.prop} --tier {res.tier}",
    "trusted_base": ["mjwstatic model of the Warp DSL subset used by the repo", "types.py schema and the _in/_out naming convention", "hand-confirmed tables under mjwstatic/tables"],
    "floors": {k: {"matched": v[0], "minimum": v[1]} for k, v in res.floors.items()},
    "known_findings": [f.key() for f in kn],
    "stale_known_findings": stale,
    "new_findings": [f.key() for f in new],
    "exhaustive": True,
  }
  coverage.update(res.extra)
  evidence = {
    "property_id": res.prop,
    "tier": res.tier,
    "seed": seed,
    "level": "other",
    "coverage": coverage,
    "assumptions": res.assumptions,
    "wall_s": round(wall, 3),
    "violations": len(new),
  }
  if True:
    with open(os.path.join(ev_dir, f"{res.prop}.json"), "w") as fh:
      json.dump(evidence, fh, indent=1, default=str)
  for ln in lines:
    print(ln)
  print(f"{res.prop}: obligations={res.obligations} discharged={res.discharged} constructs={len(res.constructs)} known={len(kn)} new={len(new)} errors={len(res.errors)} wall={wall:.2f}s")
  return code
