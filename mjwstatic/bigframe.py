"""Run a callable below one oversized interpreter frame.

CPython >= 3.11 keeps Python frames on a per-thread "data stack" made of 16 KiB chunks that are mmap'ed when a frame does
not fit and munmap'ed as soon as the chunk is left. The recursive evaluators of this analyser oscillate across a chunk
boundary tens of thousands of times per run (measured: 70 000 mmap/munmap pairs for one check), which costs little on an
idle machine but serialises badly when 16 checks run in parallel on a VM (4 s -> 100 s per check). A frame whose code
object declares a huge `co_stacksize` forces one large chunk; every nested frame is then bump-allocated inside it.
The declared stack is never touched, only reserved. Purely a performance device: results are identical.
"""


def _trampoline(f, args, kwargs):
  return f(*args, **kwargs)


try:
  # 1.5M slots * 8 B = 12 MB -> a 16 MiB chunk with ~4 MiB left for nested frames
  _trampoline.__code__ = _trampoline.__code__.replace(co_stacksize=1_500_000)
except Exception:  # pragma: no cover - other interpreters: fall back to a plain call
  pass


def run(f, *args, **kwargs):
  return _trampoline(f, args, kwargs)
