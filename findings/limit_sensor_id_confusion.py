"""jointlimit* / tendonlimit* sensors pick up rows of the other limit kind with the same id."""
import sys
import mujoco, numpy as np, warp as wp
import mujoco_warp as mjw
wp.config.quiet = True
XML = """
<mujoco>
  <option gravity="0 0 -9.81"/>
  <worldbody>
    <body name="a" pos="0 0 1">
      <joint name="j0" type="hinge" axis="0 1 0" limited="true" range="-0.1 0.1"/>
      <geom type="capsule" size="0.02" fromto="0 0 0 0.3 0 0"/>
      <body name="b" pos="0.3 0 0">
        <joint name="j1" type="hinge" axis="0 1 0" limited="true" range="-0.2 0.2"/>
        <geom type="capsule" size="0.02" fromto="0 0 0 0.3 0 0"/>
      </body>
    </body>
  </worldbody>
  <tendon>
    <fixed name="t0" limited="true" range="-0.05 0.05">
      <joint joint="j1" coef="1"/>
    </fixed>
  </tendon>
  <sensor>
    <jointlimitpos name="jl0" joint="j0"/>
    <tendonlimitpos name="tl0" tendon="t0"/>
    <jointlimitvel name="jlv0" joint="j0"/>
    <tendonlimitvel name="tlv0" tendon="t0"/>
    <jointlimitfrc name="jlf0" joint="j0"/>
    <tendonlimitfrc name="tlf0" tendon="t0"/>
  </sensor>
</mujoco>
"""
mjm = mujoco.MjModel.from_xml_string(XML)
mjd = mujoco.MjData(mjm)
bad = 0
rng = np.random.default_rng(0)
for trial in range(6):
  # joint 0 beyond its limit by a, tendon 0 (= qpos[1]) beyond its limit by b != a; joint 1's own limit (id 1) inactive
  mjd.qpos[:] = [0.1 + 0.03 * (trial + 1), 0.05 + 0.011 * (trial + 2)]
  mjd.qvel[:] = rng.normal(size=2)
  mujoco.mj_forward(mjm, mjd)
  m = mjw.put_model(mjm)
  d = mjw.put_data(mjm, mjd)
  mjw.forward(m, d)
  sd = d.sensordata.numpy()[0]
  ok = np.allclose(sd, mjd.sensordata, atol=1e-4, rtol=1e-3)
  print(f"trial {trial}: mujoco={np.round(mjd.sensordata,4)} mjwarp={np.round(sd,4)} {'ok' if ok else 'MISMATCH'}")
  bad += not ok
print("FAIL" if bad else "PASS")
sys.exit(1 if bad else 0)
