"""C17: <flag sleep="enable" island="disable"/> crashed the process in step().

solver.solve() took the compacted-solve branch whenever EnableBit.SLEEP was set, but make_data allocates the
compact workspace (d.cM, d.cJ, ...) only when sleeping AND islands are enabled: zero-extent arrays were indexed.
Run in a child process; exit 1 if the child dies from a signal.
"""
import subprocess, sys, textwrap
child = textwrap.dedent('''
import mujoco, mujoco_warp as mjw
xml = """<mujoco><option><flag sleep="enable" island="disable"/></option><worldbody>
<geom type="plane" size="5 5 .1"/>
<body pos="0 0 .2"><freejoint/><geom size=".1"/></body>
<body pos="1 0 .2"><freejoint/><geom size=".1"/></body></worldbody></mujoco>"""
mjm = mujoco.MjModel.from_xml_string(xml); mjd = mujoco.MjData(mjm)
m = mjw.put_model(mjm); d = mjw.make_data(mjm)
print("cM shape", d.cM.shape, flush=True)
for _ in range(3): mjw.step(m, d)
print("qpos", d.qpos.numpy()[0][:3], flush=True)
''')
r = subprocess.run([sys.executable, "-c", child], capture_output=True, text=True)
print(r.stdout[-400:]); print("returncode", r.returncode)
sys.exit(1 if r.returncode != 0 else 0)
