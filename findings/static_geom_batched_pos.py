"""C10: a world-attached (static) geom ignores per-world geom_pos / geom_quat.
World 1 of a batched Model has its static platform moved up by 0.3; an unbatched Model compiled with that position is the reference."""
import sys
import numpy as np, mujoco, warp as wp
import mujoco_warp as mjw
XML = """
<mujoco>
  <option timestep="0.005"/>
  <worldbody>
    <geom name="platform" type="box" size="1 1 0.05" pos="0 0 {z}"/>
    <body name="ball" pos="0 0 1.0"><freejoint/><geom type="sphere" size="0.1"/></body>
  </worldbody>
</mujoco>
"""
def run(m, d, n):
  for _ in range(n):
    mjw.step(m, d)
  return d.qpos.numpy().copy(), d.geom_xpos.numpy().copy()
zs = [0.0, 0.3]
mjm = mujoco.MjModel.from_xml_string(XML.format(z=zs[0]))
mjd = mujoco.MjData(mjm)
m = mjw.put_model(mjm)
gp = np.tile(mjm.geom_pos[None], (2, 1, 1)).astype(np.float32)
gp[1, 0, 2] = zs[1]
m.geom_pos = wp.array(gp, dtype=wp.vec3)
d = mjw.make_data(mjm, nworld=2)
qb, gxb = run(m, d, 400)
bad = False
for w, z in enumerate(zs):
  mjm_w = mujoco.MjModel.from_xml_string(XML.format(z=z))
  m_w = mjw.put_model(mjm_w)
  d_w = mjw.make_data(mjm_w, nworld=1)
  q, gx = run(m_w, d_w, 400)
  err = np.abs(q[0] - qb[w]).max()
  print(f"world {w}: platform z={z}: batched ball z={qb[w][2]:.4f} platform geom_xpos z={gxb[w][0][2]:.3f} | unbatched reference ball z={q[0][2]:.4f} platform geom_xpos z={gx[0][0][2]:.3f} | max |dqpos|={err:.3e}")
  bad |= err > 1e-4
print("FAIL: per-world geom_pos of a static geom has no effect" if bad else "PASS")
sys.exit(1 if bad else 0)
