"""Stale compact qfrc_constraint for nefc == 0 worlds: sleep + sparse Jacobian + elliptic cone.

With sleeping enabled solver.solve() takes solve_compact(), which runs _solve on a
shallow-replaced model with is_sparse=False.  _solve_init_dof(warmstart, m.is_sparse)
therefore does NOT zero the (compact) qfrc_constraint of worlds with nefc == 0, while
_update_constraint takes the sparse zero/accumulate kernels (because _sparse_compact(ctx)
is True for a sparse full model) and those skip worlds with nefc == 0.  The compact
qfrc_constraint of such a world keeps the value of the previous solve; the solver's
gradient (Ma - qfrc_smooth - qfrc_constraint) is built from it, so the warm-started
solver "converges" at the previous contact solution: a ball lifted off the floor hovers.

Scenario: two worlds, a ball resting on a plane.  5 steps, then the ball of world 1 is
lifted to z = 0.5 (no contact, nefc == 0); world 0 keeps the contact.  100 more steps.
Reference: MuJoCo C (mj_step) on the same model, and MuJoCo Warp on the same model
without the sleep flag.

Exit 1 + FAIL on a defective tree, exit 0 + PASS when fixed.
"""

import sys

import mujoco
import numpy as np
import warp as wp

import mujoco_warp as mjw

wp.config.quiet = True

XML = """
<mujoco>
  <option jacobian="{jac}" cone="{cone}" solver="{solver}">
    <flag {flag}/>
  </option>
  <worldbody>
    <geom type="plane" size="5 5 .1"/>
    <body name="ball" pos="0 0 0.099">
      <freejoint/>
      <geom type="sphere" size=".1" mass="1.2"/>
    </body>
  </worldbody>
</mujoco>
"""

LIFT = 0.5
NPRE = 5
NPOST = 100


def run(jac, cone, solver, sleep):
  flag = 'sleep="enable"' if sleep else 'warmstart="enable"'
  mjm = mujoco.MjModel.from_xml_string(XML.format(jac=jac, cone=cone, solver=solver, flag=flag))
  mjd = mujoco.MjData(mjm)
  mujoco.mj_forward(mjm, mjd)
  m = mjw.put_model(mjm)
  d = mjw.put_data(mjm, mjd, nworld=2)
  for _ in range(NPRE):
    mjw.step(m, d)
    mujoco.mj_step(mjm, mjd)
  qfc_contact = d.qfrc_constraint.numpy()[1, 2]

  # lift the ball of world 1 (and of the MuJoCo C reference) clear of the plane
  qpos = d.qpos.numpy().copy()
  qpos[1, 2] = LIFT
  wp.copy(d.qpos, wp.array(qpos, dtype=float))
  mjd.qpos[2] = LIFT

  # forward only: observable qfrc_constraint / qacc of the world that lost its contact
  mjw.forward(m, d)
  mujoco.mj_forward(mjm, mjd)
  r = dict(
    qfc_contact=qfc_contact,
    nefc=d.nefc.numpy().copy(),
    qfc=d.qfrc_constraint.numpy()[1, 2],
    qacc=d.qacc.numpy()[1, 2],
    c_nefc=mjd.nefc,
    c_qfc=mjd.qfrc_constraint[2],
    c_qacc=mjd.qacc[2],
  )
  for _ in range(NPOST):
    mjw.step(m, d)
    mujoco.mj_step(mjm, mjd)
  r.update(z=d.qpos.numpy()[1, 2], vz=d.qvel.numpy()[1, 2], c_z=mjd.qpos[2], c_vz=mjd.qvel[2])
  return r


def main():
  failures = []
  combos = []
  for jac in ("sparse", "dense"):
    for cone in ("elliptic", "pyramidal"):
      combos.append((jac, cone, "Newton", True))
      combos.append((jac, cone, "Newton", False))
      combos.append((jac, cone, "CG", False))  # put_model rejects sleep + CG
  print(f"{'jacobian':8s} {'cone':9s} {'solver':6s} {'sleep':5s} | world 1 after lift: nefc  qfrc_constraint_z  qacc_z |"
        f" after {NPOST} steps: z  vz | MuJoCo C: qfrc_z qacc_z z vz")
  for jac, cone, solver, sleep in combos:
    r = run(jac, cone, solver, sleep)
    bad = []
    if abs(r["qfc"] - r["c_qfc"]) > 1e-3:
      bad.append(f"qfrc_constraint_z={r['qfc']:.4f} (expected {r['c_qfc']:.4f}; value with contact was {r['qfc_contact']:.4f})")
    if abs(r["qacc"] - r["c_qacc"]) > 1e-2:
      bad.append(f"qacc_z={r['qacc']:.4f} (expected {r['c_qacc']:.4f})")
    if abs(r["z"] - r["c_z"]) > 1e-3 or abs(r["vz"] - r["c_vz"]) > 1e-2:
      bad.append(f"after {NPOST} steps z={r['z']:.4f} vz={r['vz']:.4f} (expected z={r['c_z']:.4f} vz={r['c_vz']:.4f})")
    print(f"{jac:8s} {cone:9s} {solver:6s} {sleep!s:5s} | nefc={r['nefc']} {r['qfc']:9.4f} {r['qacc']:9.4f} |"
          f" {r['z']:.4f} {r['vz']:8.4f} | {r['c_qfc']:.4f} {r['c_qacc']:.4f} {r['c_z']:.4f} {r['c_vz']:.4f}"
          f"  {'<-- WRONG' if bad else 'ok'}")
    if r["nefc"][1] != 0 or r["c_nefc"] != 0:
      failures.append(f"{jac}/{cone}/{solver}/sleep={sleep}: scenario broken, lifted world still has constraints")
    for b in bad:
      failures.append(f"{jac}/{cone}/{solver}/sleep={sleep}: {b}")

  if failures:
    print("\nFAIL: a world with nefc == 0 reports / uses a stale constraint force:")
    for f in failures:
      print("  " + f)
    return 1
  print("\nPASS: worlds with nefc == 0 have qfrc_constraint == 0, qacc == qacc_smooth and fall like MuJoCo C")
  return 0


if __name__ == "__main__":
  sys.exit(main())
