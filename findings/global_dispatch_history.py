"""C36: results depended on which models ran earlier in the process.

collision_primitive accumulated the primitive pair types of every model seen so far in module-level
lists. After a model with NATIVECCD disabled (box-box routed to the primitive narrowphase), a default
model's box-box pair was processed by BOTH narrowphases. Exit 1 if contact counts depend on history.
"""
import sys
import numpy as np, mujoco, warp as wp
import mujoco_warp as mjw
print(mjw.__file__)
XML = """<mujoco><option>{flag}</option><worldbody>
<geom type="box" size="1 1 .1" pos="0 0 -.1"/>
<body pos="0 0 .19"><freejoint/><geom type="box" size=".2 .2 .2"/></body></worldbody></mujoco>"""

def ncon(flag):
  mjm = mujoco.MjModel.from_xml_string(XML.format(flag=flag)); mjd = mujoco.MjData(mjm); mujoco.mj_forward(mjm, mjd)
  m = mjw.put_model(mjm); d = mjw.put_data(mjm, mjd)
  mjw.forward(m, d)
  return int(d.nacon.numpy()[0]), mjd.ncon

alone, ref = ncon("")
print("default model alone: nacon", alone, "mujoco ncon", ref)
print("nativeccd-disabled model:", ncon('<flag nativeccd="disable"/>'))
after, _ = ncon("")
print("default model after the other model: nacon", after)
sys.exit(1 if after != alone else 0)
