"""C12: two Data with the same integration state gave different forward() results.

Connect/weld rows add a Jdot*qvel term computed from d.cvel / d.cdof_dot inside make_constraint
(fwd_position), i.e. before com_vel (fwd_velocity) recomputes them for the current state: the term used
the previous call's velocities (zeros on a fresh Data). Exit 1 if a stepped Data and a fresh Data
holding the same integration state disagree after forward().
"""
import sys
import numpy as np, mujoco, warp as wp
import mujoco_warp as mjw
print(mjw.__file__)
xml = """<mujoco><worldbody>
<body name="a" pos="0 0 1"><joint type="ball"/><geom size=".1"/>
  <body name="b" pos=".3 0 0"><joint type="ball"/><geom size=".1"/></body></body>
<body name="f" pos="1 0 1"><freejoint/><geom size=".1"/></body>
</worldbody><equality><connect body1="b" body2="f" anchor="0.3 0 0"/></equality></mujoco>"""
mjm = mujoco.MjModel.from_xml_string(xml); mjd = mujoco.MjData(mjm)
rng = np.random.default_rng(0)
mjd.qvel[:] = rng.normal(size=mjm.nv); mujoco.mj_forward(mjm, mjd)
m = mjw.put_model(mjm)
d_used = mjw.put_data(mjm, mjd)
for _ in range(5): mjw.step(m, d_used)
sig = int(mjw.State.INTEGRATION)
size = mujoco.mj_stateSize(mjm, sig)
state = wp.zeros((1, size), dtype=float)
mjw.get_state(m, d_used, state, sig)
d_fresh = mjw.make_data(mjm)
mjw.set_state(m, d_fresh, state, sig)
mjw.forward(m, d_used); mjw.forward(m, d_fresh)
dq = np.abs(d_used.qacc.numpy() - d_fresh.qacc.numpy()).max()
da = np.abs(d_used.efc.aref.numpy()[0, :3] - d_fresh.efc.aref.numpy()[0, :3]).max()
print("max |qacc_used - qacc_fresh| =", dq, " max |aref diff| =", da)
sys.exit(1 if dq > 1e-4 else 0)
