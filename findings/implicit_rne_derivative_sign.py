"""Triage demo: does mujoco_warp's integrator="implicit" agree with MuJoCo C at fast joint speeds?

Compares, for several models and random fast states:
  * one step of mujoco.mj_step vs mujoco_warp.step (qvel update and qacc), for
    integrator = implicit (suspect), implicitfast and Euler (controls);
  * the assembled implicit system matrix  M - dt*qDeriv  (MuJoCo C, from mjd.qDeriv / mjd.M)
    versus the matrix mujoco_warp hands to its LU factorisation (deriv_smooth_vel -> map M->D ->
    deriv_rne_vel), replayed exactly as forward.implicit() does it.

Exit 1 if mujoco_warp disagrees with MuJoCo C beyond float32 round-off, else 0.

One control pair is reported but NOT counted: implicitfast on a childless free body.  MuJoCo C 3.13
adds the gyroscopic-torque derivative for such "simple" free bodies even under implicitfast (its
implicitfast step equals its implicit step there, and differs from Euler); mujoco_warp's
implicitfast does not.  That is a separate parity gap, unrelated to the sign of the RNE term in
integrator=implicit, so the model free_box_child (same box with a hinged child, where C
implicitfast carries no gyroscopic term) serves as the free-joint control for implicitfast.
"""

import inspect
import re
import sys

import mujoco
import numpy as np
import warp as wp

import mujoco_warp as mjw
from mujoco_warp._src import derivative
from mujoco_warp._src import forward

wp.config.quiet = True


CHAIN = """
<mujoco>
  <option timestep="0.01" gravity="0 0 -9.81"><flag contact="disable"/></option>
  <worldbody>
    <body pos="0 0 1">
      <joint type="hinge" axis="0 1 0" damping="0.05"/>
      <geom type="capsule" size="0.03" fromto="0 0 0 .3 0 0" mass="1"/>
      <body pos=".3 0 0">
        <joint type="hinge" axis="0 0 1" damping="0.05"/>
        <geom type="capsule" size="0.03" fromto="0 0 0 .25 .1 0" mass="0.8"/>
        <body pos=".25 .1 0">
          <joint type="hinge" axis="1 0 0" damping="0.05"/>
          <geom type="capsule" size="0.03" fromto="0 0 0 0 .2 .1" mass="0.6"/>
        </body>
      </body>
    </body>
  </worldbody>
</mujoco>
"""

FREEBOX = """
<mujoco>
  <option timestep="0.01" gravity="0 0 -9.81"><flag contact="disable"/></option>
  <worldbody>
    <body pos="0 0 1">
      <freejoint/>
      <geom type="box" size=".05 .15 .3" mass="2"/>
    </body>
  </worldbody>
</mujoco>
"""

FREEBOX_CHILD = """
<mujoco>
  <option timestep="0.01" gravity="0 0 -9.81"><flag contact="disable"/></option>
  <worldbody>
    <body pos="0 0 1">
      <freejoint/>
      <geom type="box" size=".05 .15 .3" mass="2"/>
      <body pos=".2 0 .1">
        <joint type="hinge" axis="0 1 0"/>
        <geom type="box" pos=".1 0 0" size=".05 .1 .2" mass="1"/>
      </body>
    </body>
  </worldbody>
</mujoco>
"""

BALL = """
<mujoco>
  <option timestep="0.01" gravity="0 0 -9.81"><flag contact="disable"/></option>
  <worldbody>
    <body pos="0 0 1">
      <joint type="ball" damping="0.02"/>
      <geom type="capsule" size="0.03" fromto="0 0 0 .3 .1 0" mass="1"/>
      <body pos=".3 .1 0">
        <joint type="slide" axis="1 0 0" stiffness="50"/>
        <geom type="box" size=".05 .08 .12" mass="0.7"/>
        <body pos=".1 0 .1">
          <joint type="hinge" axis="0 1 0"/>
          <geom type="capsule" size="0.02" fromto="0 0 0 0 .1 .2" mass="0.5"/>
        </body>
      </body>
    </body>
  </worldbody>
</mujoco>
"""

MODELS = {"hinge_chain3": CHAIN, "free_box": FREEBOX, "free_box_child": FREEBOX_CHILD, "ball_slide_hinge": BALL}
NOT_COUNTED = {("free_box", "implicitfast")}  # separate parity gap, see module docstring
INTEGRATORS = {
  "implicit": mujoco.mjtIntegrator.mjINT_IMPLICIT,
  "implicitfast": mujoco.mjtIntegrator.mjINT_IMPLICITFAST,
  "Euler": mujoco.mjtIntegrator.mjINT_EULER,
}
NSTATE = 4
VMAX = 6.0
TOL = 1e-4  # relative tolerance on the qvel update / qacc / system matrix


def random_state(mjm, rng):
  mjd = mujoco.MjData(mjm)
  qpos = mjd.qpos.copy()
  for j in range(mjm.njnt):
    adr = mjm.jnt_qposadr[j]
    t = mjm.jnt_type[j]
    if t == mujoco.mjtJoint.mjJNT_FREE:
      q = rng.normal(size=4)
      qpos[adr + 3 : adr + 7] = q / np.linalg.norm(q)
    elif t == mujoco.mjtJoint.mjJNT_BALL:
      q = rng.normal(size=4)
      qpos[adr : adr + 4] = q / np.linalg.norm(q)
    elif t == mujoco.mjtJoint.mjJNT_SLIDE:
      qpos[adr] = rng.uniform(-0.05, 0.05)
    else:
      qpos[adr] = rng.uniform(-1.5, 1.5)
  mjd.qpos[:] = qpos
  mjd.qvel[:] = rng.uniform(-VMAX, VMAX, size=mjm.nv)
  mujoco.mj_forward(mjm, mjd)
  return mjd


def rel(a, b):
  return float(np.max(np.abs(a - b)) / max(np.max(np.abs(b)), 1e-12))


def c_system_matrix(mjm, mjd):
  """M - dt*qDeriv from MuJoCo C (mjd must have been stepped/forwarded with integrator implicit)."""
  M = np.zeros((mjm.nv, mjm.nv))
  mujoco.mj_fullM(mjm, mjd, M)
  qDeriv = np.zeros((mjm.nv, mjm.nv))
  mujoco.mju_sparse2dense(qDeriv, mjd.qDeriv, mjm.D_rownnz, mjm.D_rowadr, mjm.D_colind)
  return M - mjm.opt.timestep * qDeriv, qDeriv


def warp_system_matrix(m, d):
  """Replays the assembly in forward.implicit() (same call, same flag as in the source)."""
  src = inspect.getsource(forward.implicit)
  mt = re.search(r"deriv_rne_vel\(m, d, d\.qLU(?:, flg_subtract=(True|False))?\)", src)
  assert mt, "could not find the deriv_rne_vel call in forward.implicit"
  flg = mt.group(1) == "True"
  qH_M = wp.zeros(d.M.shape, dtype=float)
  derivative.deriv_smooth_vel(m, d, qH_M)
  qLU = wp.zeros((d.nworld, m.nD), dtype=float)
  wp.launch(forward._map_m2d, dim=(d.nworld, m.nD), inputs=[m.mapM2D, qH_M], outputs=[qLU])
  derivative.deriv_rne_vel(m, d, qLU, flg_subtract=flg)
  A = np.zeros((m.nv, m.nv))
  vals = qLU.numpy()[0]
  for e, (i, j) in enumerate(zip(m.qD_fullm_i.numpy(), m.qD_fullm_j.numpy())):
    A[i, j] = vals[e]
  return A, flg


def main():
  rng = np.random.default_rng(0)
  bad = False
  for mname, xml in MODELS.items():
    mjm0 = mujoco.MjModel.from_xml_string(xml)
    states = [random_state(mjm0, rng) for _ in range(NSTATE)]
    for iname, integ in INTEGRATORS.items():
      mjm = mujoco.MjModel.from_xml_string(xml)
      mjm.opt.integrator = integ
      m = mjw.put_model(mjm)
      worst_dv, worst_qacc, worst_A = 0.0, 0.0, 0.0
      for s in states:
        mjd = mujoco.MjData(mjm)
        mjd.qpos[:] = s.qpos
        mjd.qvel[:] = s.qvel
        mujoco.mj_forward(mjm, mjd)
        qvel0 = mjd.qvel.copy()
        d = mjw.put_data(mjm, mjd)

        if iname == "implicit":
          # system matrix at the pre-step state
          mjw.forward(m, d)
          A_w, flg = warp_system_matrix(m, d)
          mjd_c = mujoco.MjData(mjm)
          mjd_c.qpos[:] = s.qpos
          mjd_c.qvel[:] = s.qvel
          mujoco.mj_step(mjm, mjd_c)  # fills qDeriv/qM at the pre-step state
          A_c, _ = c_system_matrix(mjm, mjd_c)
          worst_A = max(worst_A, rel(A_w, A_c))
          d = mjw.put_data(mjm, mjd)

        mujoco.mj_step(mjm, mjd)
        mjw.step(m, d)
        qvel_w = d.qvel.numpy()[0]
        dv_c = mjd.qvel - qvel0
        dv_w = qvel_w - qvel0
        worst_dv = max(worst_dv, rel(dv_w, dv_c))
        # qacc after step is the pre-step forward qacc in both; compare the effective implicit qacc
        worst_qacc = max(worst_qacc, rel(dv_w / mjm.opt.timestep, dv_c / mjm.opt.timestep))
      line = f"{mname:18s} {iname:13s} rel.err qvel-update={worst_dv:9.2e}  eff.qacc={worst_qacc:9.2e}"
      if iname == "implicit":
        line += f"  system-matrix(M-dt*qDeriv)={worst_A:9.2e}  [source passes flg_subtract={flg}]"
      fail = worst_dv > TOL or (iname == "implicit" and worst_A > TOL)
      if (mname, iname) in NOT_COUNTED:
        line += "   (separate issue, not counted)" if fail else "   ok"
        fail = False
      else:
        line += "   FAIL" if fail else "   ok"
      print(line)
      bad = bad or fail
  print("RESULT:", "mujoco_warp DISAGREES with MuJoCo C" if bad else "mujoco_warp agrees with MuJoCo C")
  return 1 if bad else 0


if __name__ == "__main__":
  sys.exit(main())
