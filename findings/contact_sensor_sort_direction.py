"""Contact sensor with reduce="mindist"/"maxforce": direction (sign) is not sorted with the contact ids.

A sphere B sits between a static sphere A (lower geom id) and a sphere C (higher geom id), so B is
the SECOND geom of contact A-B (direction -1) and the FIRST geom of contact B-C (direction +1).
A <contact geom1="B"> sensor therefore matches two contacts with mixed directions.  With
reduce="mindist"/"maxforce" the matches are sorted; if the sort permutes them, mujoco_warp pairs the
sorted contact ids with the unsorted directions and reports force/torque/normal/tangent with the
wrong sign (compared with MuJoCo C).  reduce="none" (no sort) is the control.

Two states are run so that, whatever the order in which the matches were handed out, one of the
two states needs a permutation.

exit 0 + PASS: sensordata agrees with MuJoCo C everywhere; exit 1 + FAIL otherwise.
"""

import sys

import mujoco
import numpy as np
import warp as wp

import mujoco_warp as mjw

wp.config.quiet = True
np.set_printoptions(precision=3, suppress=True, linewidth=220)

DATA = "found force torque dist normal tangent"  # 1 + 3 + 3 + 1 + 3 + 3 = 14 per slot
SENSORS = [
  ("none    geom1=B", f'<contact geom1="B" num="2" data="{DATA}"/>'),
  ("mindist geom1=B", f'<contact geom1="B" num="2" reduce="mindist" data="{DATA}"/>'),
  ("maxforce geom1=B", f'<contact geom1="B" num="2" reduce="maxforce" data="{DATA}"/>'),
  ("mindist body1=B", f'<contact body1="B" num="2" reduce="mindist" data="{DATA}"/>'),
  ("maxforce geom2=B", f'<contact geom2="B" num="2" reduce="maxforce" data="{DATA}"/>'),
]


def xml(zb, zc):
  return f"""
<mujoco>
  <default><geom condim="6" friction="1 .05 .05"/></default>
  <worldbody>
    <geom name="A" type="sphere" size=".1" pos="0 0 0"/>
    <body name="B" pos="0.01 0 {zb}">
      <freejoint/>
      <geom name="B" type="sphere" size=".1"/>
    </body>
    <body name="C" pos="0 0.01 {zc}">
      <joint type="slide" axis="0 0 1"/>
      <geom name="C" type="sphere" size=".1"/>
    </body>
  </worldbody>
  <sensor>
    {"".join(s for _, s in SENSORS)}
  </sensor>
</mujoco>
"""


# (label, z of B, z of C, qvel)
STATES = [
  # B-C is the deeper contact and carries the larger force: sorted order is [B-C, A-B]
  ("B-C deeper/stronger", 0.19, 0.36, [0.3, -0.2, 1.0, 1.0, 2.0, 3.0, -1.0]),
  # A-B is the deeper contact and carries the larger force: sorted order is [A-B, B-C]
  ("A-B deeper/stronger", 0.17, 0.36, [0.3, -0.2, 0.0, 1.0, 2.0, 3.0, 0.0]),
]

COLS = "found | force xyz | torque xyz | dist | normal xyz | tangent xyz"


def main():
  bad = 0
  for label, zb, zc, qvel in STATES:
    mjm = mujoco.MjModel.from_xml_string(xml(zb, zc))
    mjd = mujoco.MjData(mjm)
    mjd.qvel[:] = qvel
    mujoco.mj_forward(mjm, mjd)

    m = mjw.put_model(mjm)
    d = mjw.put_data(mjm, mjd)
    mjw.forward(m, d)
    sd = d.sensordata.numpy()[0]

    pairs = [tuple(int(g) for g in c.geom) for c in mjd.contact]
    print(f"state '{label}': contacts (geom1, geom2) = {pairs}   [A=0, B=1, C=2]")
    assert mjd.ncon == 2 and d.nacon.numpy()[0] == 2

    for i, (name, _) in enumerate(SENSORS):
      adr, dim = mjm.sensor_adr[i], mjm.sensor_dim[i]
      ref = mjd.sensordata[adr : adr + dim].reshape(2, -1)
      got = sd[adr : adr + dim].reshape(2, -1)
      ok = np.allclose(got, ref, rtol=1e-3, atol=1e-3)
      print(f"  sensor {name:18s}: {'ok' if ok else 'MISMATCH'}  (max abs diff {np.abs(got - ref).max():.4g})")
      if not ok:
        bad += 1
        print(f"    columns: {COLS}")
        print(f"    MuJoCo C   : {ref[0]}\n                 {ref[1]}")
        print(f"    mujoco_warp: {got[0]}\n                 {got[1]}")

  if bad:
    print(f"FAIL: {bad} contact sensor readings differ from MuJoCo C (sign of force/torque z, normal, tangent)")
    return 1
  print("PASS: contact sensor data agrees with MuJoCo C for reduce none/mindist/maxforce")
  return 0


if __name__ == "__main__":
  sys.exit(main())
