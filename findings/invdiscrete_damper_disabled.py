"""C26: with DAMPER disabled (EULERDAMP still enabled) the Euler step integrates no joint damping implicitly, but the
discrete-time inverse dynamics (INVDISCRETE) still applies the M + dt*diag(damping) correction: inverse(forward) != identity."""
import sys
import numpy as np, mujoco, warp as wp
import mujoco_warp as mjw
XML = """
<mujoco>
  <option timestep="0.01" integrator="Euler">
    <flag invdiscrete="enable" {flags}/>
  </option>
  <worldbody>
    <body><joint name="a" type="hinge" axis="0 1 0" damping="5"/><geom type="capsule" size="0.05" fromto="0 0 0 0.5 0 0"/>
      <body pos="0.5 0 0"><joint name="b" type="hinge" axis="0 1 0" damping="3"/><geom type="capsule" size="0.05" fromto="0 0 0 0.5 0 0"/></body>
    </body>
  </worldbody>
</mujoco>
"""
def run(flags):
  mjm = mujoco.MjModel.from_xml_string(XML.format(flags=flags))
  m = mjw.put_model(mjm)
  d = mjw.make_data(mjm, nworld=1)
  qpos0 = np.array([[0.3, -0.5]], dtype=np.float32); qvel0 = np.array([[1.5, -2.0]], dtype=np.float32)
  applied = np.array([[0.7, -0.4]], dtype=np.float32)
  d.qpos = wp.array(qpos0, dtype=float); d.qvel = wp.array(qvel0, dtype=float); d.qfrc_applied = wp.array(applied, dtype=float)
  mjw.step(m, d)
  qvel1 = d.qvel.numpy().copy()
  qacc_discrete = (qvel1 - qvel0) / mjm.opt.timestep
  # back to the pre-step state, feed the discrete acceleration to inverse dynamics
  d.qpos = wp.array(qpos0, dtype=float); d.qvel = wp.array(qvel0, dtype=float); d.time = wp.array(np.zeros(1, np.float32), dtype=float)
  d.qacc = wp.array(qacc_discrete.astype(np.float32), dtype=float)
  mjw.inverse(m, d)
  qi = d.qfrc_inverse.numpy()[0]
  # MuJoCo C reference on the same experiment
  mjd = mujoco.MjData(mjm); mjd.qpos[:] = qpos0[0]; mjd.qvel[:] = qvel0[0]; mjd.qfrc_applied[:] = applied[0]
  mujoco.mj_step(mjm, mjd); qa = (mjd.qvel - qvel0[0]) / mjm.opt.timestep
  mjd.qpos[:] = qpos0[0]; mjd.qvel[:] = qvel0[0]; mjd.time = 0; mjd.qacc[:] = qa
  mujoco.mj_inverse(mjm, mjd)
  return qi, applied[0], mjd.qfrc_inverse.copy()
bad = False
for name, flags in (("default", ""), ("damper disabled", 'damper="disable"'), ("eulerdamp disabled", 'eulerdamp="disable"')):
  qi, ap, ref = run(flags)
  err = np.abs(qi - ap).max()
  print(f"{name:20s}: mjwarp qfrc_inverse={qi} applied={ap} | MuJoCo C qfrc_inverse={ref} | max err={err:.3e}")
  bad |= err > 1e-3
print("FAIL: inverse(forward) is not the identity" if bad else "PASS")
sys.exit(1 if bad else 0)
