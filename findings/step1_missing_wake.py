"""Does step1();step2() wake a sleeping tree like step() does?

Compares, on the same tiny model with sleeping enabled:
  mujoco_warp:  step(m, d)            vs  step1(m, d); step2(m, d)
  MuJoCo C:     mj_step(m, d)         vs  mj_step1(m, d); mj_step2(m, d)
after a user perturbation (xfrc_applied / qfrc_applied / qvel) is written to a sleeping body.

Exit code: 1 if mujoco_warp step and step1;step2 disagree, 0 if they agree.
"""

import sys

import mujoco
import numpy as np
import warp as wp

import mujoco_warp as mjw

wp.config.quiet = True

XML = """
<mujoco>
  <option sleep_tolerance="0.01" {integrator}>
    <flag sleep="{sleep}"/>
  </option>
  <worldbody>
    <geom type="plane" size="10 10 .1"/>
    <body name="box" pos="0 0 0.1">
      <joint type="free"/>
      <geom type="box" size=".1 .1 .1" mass="1.0"/>
    </body>
  </worldbody>
</mujoco>
"""

NSETTLE = 60  # steps to let the box settle and fall asleep (MJ_MINAWAKE is 10)
REPORT_AT = (1, 2, 5, 20)
TOL = 1e-5


def perturb_xfrc(get, set_):
  x = get("xfrc_applied")
  x[..., 1, 2] = 30.0  # 30 N upward on the 1 kg box (weight 9.81 N): must lift off
  set_("xfrc_applied", x)


def perturb_qfrc(get, set_):
  q = get("qfrc_applied")
  q[..., 2] = 30.0
  set_("qfrc_applied", q)


def perturb_qvel(get, set_):
  v = get("qvel")
  v[..., 2] = 1.0  # 1 m/s upward
  set_("qvel", v)


PERTURBATIONS = {"xfrc_applied": perturb_xfrc, "qfrc_applied": perturb_qfrc, "qvel": perturb_qvel}


# ----------------------------------------------------------------------------- mujoco_warp
def mjw_accessors(d):
  def get(name):
    return getattr(d, name).numpy().copy()

  def set_(name, val):
    wp.copy(getattr(d, name), wp.array(val, dtype=getattr(d, name).dtype))

  return get, set_


def mjw_state(d):
  return dict(
    qpos=d.qpos.numpy()[0].copy(),
    qvel=d.qvel.numpy()[0].copy(),
    tree_asleep=d.tree_asleep.numpy()[0].copy(),
    tree_awake=d.tree_awake.numpy()[0].copy(),
    body_awake=d.body_awake.numpy()[0].copy(),
  )


def run_mjw(sleep, integrator, pert):
  mjm = mujoco.MjModel.from_xml_string(XML.format(sleep=sleep, integrator=integrator))
  m = mjw.put_model(mjm)
  ds = []
  for _ in range(2):
    mjd = mujoco.MjData(mjm)
    mujoco.mj_forward(mjm, mjd)
    ds.append(mjw.put_data(mjm, mjd))
  d_full, d_split = ds

  # drive both identically with step() until the box is at rest (and asleep if enabled)
  for _ in range(NSETTLE):
    mjw.step(m, d_full)
    mjw.step(m, d_split)
  s0, s1 = mjw_state(d_full), mjw_state(d_split)
  for k in s0:
    assert np.array_equal(s0[k], s1[k]), f"settle phase diverged in {k}"
  print(f"    after settle: z={s0['qpos'][2]:.6f} tree_asleep={s0['tree_asleep']} tree_awake={s0['tree_awake']} body_awake={s0['body_awake']}")
  if sleep == "enable":
    assert s0["tree_asleep"][0] >= 0 and s0["tree_awake"][0] == 0, "box did not fall asleep"

  for d in ds:
    PERTURBATIONS[pert](*mjw_accessors(d))

  agree = True
  n = 0
  for target in REPORT_AT:
    while n < target:
      mjw.step(m, d_full)
      mjw.step1(m, d_split)
      mjw.step2(m, d_split)
      n += 1
    a, b = mjw_state(d_full), mjw_state(d_split)
    dq = np.abs(a["qpos"] - b["qpos"]).max()
    dv = np.abs(a["qvel"] - b["qvel"]).max()
    same_sleep = np.array_equal(a["tree_asleep"], b["tree_asleep"]) and np.array_equal(a["tree_awake"], b["tree_awake"])
    ok = dq <= TOL and dv <= TOL and same_sleep
    agree &= ok
    print(
      f"    n={n:3d}  step: z={a['qpos'][2]:.6f} vz={a['qvel'][2]:+.5f} asleep={a['tree_asleep']} awake={a['tree_awake']}"
      f" | step1;step2: z={b['qpos'][2]:.6f} vz={b['qvel'][2]:+.5f} asleep={b['tree_asleep']} awake={b['tree_awake']}"
      f" | max|dqpos|={dq:.3g} max|dqvel|={dv:.3g} {'OK' if ok else 'DISAGREE'}"
    )
  return agree


# ----------------------------------------------------------------------------- MuJoCo C
def mj_accessors(d):
  def get(name):
    return np.array(getattr(d, name))

  def set_(name, val):
    getattr(d, name)[...] = val

  return get, set_


def mj_state(d):
  return dict(
    qpos=np.array(d.qpos),
    qvel=np.array(d.qvel),
    tree_asleep=np.array(d.tree_asleep),
    tree_awake=np.array(d.tree_awake),
    body_awake=np.array(d.body_awake),
  )


def run_mj(sleep, integrator, pert):
  mjm = mujoco.MjModel.from_xml_string(XML.format(sleep=sleep, integrator=integrator))
  d_full, d_split = mujoco.MjData(mjm), mujoco.MjData(mjm)
  for _ in range(NSETTLE):
    mujoco.mj_step(mjm, d_full)
    mujoco.mj_step(mjm, d_split)
  s0 = mj_state(d_full)
  print(f"    after settle: z={s0['qpos'][2]:.6f} tree_asleep={s0['tree_asleep']} tree_awake={s0['tree_awake']} body_awake={s0['body_awake']}")
  if sleep == "enable":
    assert s0["tree_asleep"][0] >= 0 and s0["tree_awake"][0] == 0, "box did not fall asleep (MuJoCo C)"

  for d in (d_full, d_split):
    PERTURBATIONS[pert](*mj_accessors(d))

  agree = True
  n = 0
  for target in REPORT_AT:
    while n < target:
      mujoco.mj_step(mjm, d_full)
      mujoco.mj_step1(mjm, d_split)
      mujoco.mj_step2(mjm, d_split)
      n += 1
    a, b = mj_state(d_full), mj_state(d_split)
    dq = np.abs(a["qpos"] - b["qpos"]).max()
    dv = np.abs(a["qvel"] - b["qvel"]).max()
    same_sleep = np.array_equal(a["tree_asleep"], b["tree_asleep"]) and np.array_equal(a["tree_awake"], b["tree_awake"])
    ok = dq <= 1e-10 and dv <= 1e-10 and same_sleep
    agree &= ok
    print(
      f"    n={n:3d}  mj_step: z={a['qpos'][2]:.6f} vz={a['qvel'][2]:+.5f} asleep={a['tree_asleep']} awake={a['tree_awake']}"
      f" | mj_step1;mj_step2: z={b['qpos'][2]:.6f} vz={b['qvel'][2]:+.5f} asleep={b['tree_asleep']} awake={b['tree_awake']}"
      f" | max|dqpos|={dq:.3g} max|dqvel|={dv:.3g} {'OK' if ok else 'DISAGREE'}"
    )
  return agree


def main():
  print(f"mujoco {mujoco.__version__}, warp {wp.__version__}, mjMINAWAKE={mujoco.mjMINAWAKE}")
  results = {}
  for integrator in ('integrator="Euler"', 'integrator="implicitfast"'):
    for sleep in ("enable", "disable"):
      for pert in PERTURBATIONS:
        if sleep == "disable" and pert != "xfrc_applied":
          continue  # one control case is enough
        key = (integrator, f"sleep={sleep}", pert)
        print(f"\n=== {integrator}  sleep={sleep}  perturbation={pert}")
        print("  [mujoco_warp]")
        results[("mjw",) + key] = run_mjw(sleep, integrator, pert)
        print("  [MuJoCo C]")
        results[("mjc",) + key] = run_mj(sleep, integrator, pert)

  print("\n=== summary (True = full step and split step agree)")
  for k, v in results.items():
    print(f"  {k}: {v}")

  mjw_ok = all(v for k, v in results.items() if k[0] == "mjw")
  mjc_ok = all(v for k, v in results.items() if k[0] == "mjc")
  print(f"\nmujoco_warp step == step1;step2 in all cases: {mjw_ok}")
  print(f"MuJoCo C   mj_step == mj_step1;mj_step2 in all cases: {mjc_ok}")
  sys.exit(0 if mjw_ok else 1)


if __name__ == "__main__":
  main()
