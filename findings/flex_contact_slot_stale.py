"""Stale contact.efc_address / contact.adhesion in slots re-used by flex contacts.

collision_core.write_contact (all rigid-geom contact writers) resets
contact.efc_address[cid, :] = -1 and writes contact.adhesion[cid] for the slot it fills.
collision_flex._write_filtered_contacts (the only flex contact writer) fills a slot of the same
flat contact buffer but writes neither.  constraint._efc_contact_init_flex only assigns
efc_address[cid, 0:ndim] for contacts that get rows.  Everything that trusts
"efc_address[cid, j] < 0 means no row" therefore sees the PREVIOUS occupant's row addresses (and
adhesion) whenever a flex contact re-uses a slot and gets fewer rows than the old occupant.

Every scenario below puts one Data object through an earlier state and then a later state, and
compares mjw.forward() on it with mjw.forward() on a FRESH Data (mjw.make_data) that is given the
identical integration state.  forward() is a function of (qpos, qvel, act, ctrl, time, mocap, ...)
only, so any difference is a defect.

  A  inactive in-gap flex contact keeps the rows of the old occupant (dense + sparse, any cone)
  B  condim-1 flex contact re-uses the slot of a condim-3 rigid contact (sparse Jacobian)
  C  flex contact re-uses the slot of an adhesive rigid contact (stale contact.adhesion)
  D  plain mjw.step() loop, no state edits at all: used Data diverges from fresh Data

exit 0 / PASS if used == fresh everywhere, exit 1 / FAIL otherwise.
"""

import sys

import mujoco
import numpy as np
import warp as wp

import mujoco_warp as mjw

wp.config.log_level = getattr(wp, "LOG_WARNING", 0)
TOL = 1e-4
failures = []


def put_state(d, qpos, qvel=None):
  d.qpos.assign(np.asarray(qpos, dtype=np.float32)[None])
  if qvel is not None:
    d.qvel.assign(np.asarray(qvel, dtype=np.float32)[None])


def efc_rows(mjm, m, d):
  """All constraint rows as a lexicographically sorted matrix (order-independent multiset)."""
  nefc = int(d.nefc.numpy()[0])
  nv = mjm.nv
  if m.is_sparse:
    J = np.zeros((nefc, nv))
    rownnz = d.efc.J_rownnz.numpy()[0, :nefc]
    rowadr = d.efc.J_rowadr.numpy()[0, :nefc]
    colind = d.efc.J_colind.numpy()[0, 0]
    val = d.efc.J.numpy()[0, 0]
    for r in range(nefc):
      for k in range(rowadr[r], rowadr[r] + rownnz[r]):
        if 0 <= colind[k] < nv:
          J[r, colind[k]] += val[k]
  else:
    J = d.efc.J.numpy()[0, :nefc, :nv].astype(float)
  cols = [d.efc.type.numpy()[0, :nefc], d.efc.pos.numpy()[0, :nefc], d.efc.D.numpy()[0, :nefc], d.efc.aref.numpy()[0, :nefc]]
  rows = np.column_stack(cols + [J]) if nefc else np.zeros((0, 4 + nv))
  rows = np.round(rows, 5)
  return rows[np.lexsort(rows.T[::-1])] if nefc else rows


def contact_forces(m, d):
  nacon = int(d.nacon.numpy()[0])
  out = wp.zeros(max(nacon, 1), dtype=wp.spatial_vector)
  mjw.contact_force(m, d, wp.array(np.arange(max(nacon, 1)), dtype=int), False, out)
  return out.numpy()[:nacon]


def describe(d):
  nacon = int(d.nacon.numpy()[0])
  lines = []
  for c in range(nacon):
    lines.append(
      "      slot %d geom %s vert %s dist %+.4f includemargin %.4f dim %d adhesion %.2f efc_address %s"
      % (
        c,
        d.contact.geom.numpy()[c].tolist(),
        d.contact.vert.numpy()[c].tolist(),
        d.contact.dist.numpy()[c],
        d.contact.includemargin.numpy()[c],
        d.contact.dim.numpy()[c],
        d.contact.adhesion.numpy()[c],
        d.contact.efc_address.numpy()[c].tolist(),
      )
    )
  return "\n".join(lines)


def compare(tag, mjm, m, used, fresh, mjd=None):
  bad = []
  for name in ("qacc", "qfrc_constraint", "qfrc_passive"):
    a = getattr(used, name).numpy()[0]
    b = getattr(fresh, name).numpy()[0]
    if not np.allclose(a, b, atol=TOL, rtol=TOL, equal_nan=False):
      if not np.isfinite(a - b).any():
        bad.append("%s: used is all-NaN (%d NaN of %d), fresh is finite (fresh[0]=%.5g)" % (name, np.isnan(a).sum(), a.size, b[0]))
      else:
        i = int(np.nanargmax(np.abs(a - b)))
        bad.append("%s: used[%d]=%.5g fresh[%d]=%.5g (max |diff| %.5g)" % (name, i, a[i], i, b[i], np.nanmax(np.abs(a - b))))
  ra, rb = efc_rows(mjm, m, used), efc_rows(mjm, m, fresh)
  if ra.shape != rb.shape or not np.allclose(ra, rb, atol=1e-3, equal_nan=False):
    ndiff = int((~np.isclose(ra, rb, atol=1e-3)).any(axis=1).sum()) if ra.shape == rb.shape else -1
    bad.append("efc rows (type,pos,D,aref,J) as multiset differ: nefc used %d fresh %d, %d rows differ" % (len(ra), len(rb), ndiff))
  fa, fb = contact_forces(m, used), contact_forces(m, fresh)
  if fa.shape != fb.shape or not np.allclose(fa, fb, atol=TOL, rtol=TOL, equal_nan=False):
    bad.append("contact_force normal: used %s fresh %s" % (np.round(fa[:, 0], 4).tolist(), np.round(fb[:, 0], 4).tolist()))
  ea = used.contact.efc_address.numpy()[: int(used.nacon.numpy()[0])]
  eb = fresh.contact.efc_address.numpy()[: int(fresh.nacon.numpy()[0])]
  if ea.shape != eb.shape or not np.array_equal(ea, eb):
    bad.append("contact.efc_address differs")
  if mjd is not None:
    qc = mjd.qacc
    du = np.abs(qc - used.qacc.numpy()[0])
    print("    MuJoCo C     max|qacc_C - qacc_fresh| = %.3g   max|qacc_C - qacc_used| = %s"
          % (np.abs(qc - fresh.qacc.numpy()[0]).max(), "nan" if np.isnan(du).any() else "%.3g" % du.max()))
  if bad:
    failures.append(tag)
    print("  [%s] MISMATCH used Data vs fresh Data (identical state):" % tag)
    for b in bad:
      print("    -", b)
    print("    used Data contacts:\n" + describe(used))
    print("    fresh Data contacts:\n" + describe(fresh))
  else:
    print("  [%s] ok: used Data == fresh Data" % tag)


# ---------------------------------------------------------------------------------------------
# A. plane (margin .02, gap .01) + 3x3 cloth.  state 1: vertex 0 hovers in the gap band
#    (written, inactive, no rows), vertex 8 penetrates (slot 1 -> rows 0..3).  state 2: swapped.
#    Slot 1 now holds the inactive vertex-8 contact and still says "my rows are 0..3".
# ---------------------------------------------------------------------------------------------
XML_A = """
<mujoco>
  <option jacobian="{jac}"/>
  <worldbody>
    <geom type="plane" size="1 1 0.1" margin="0.02" gap="0.01"/>
    <flexcomp name="cloth" type="grid" count="3 3 1" spacing="0.1 0.1 0.1" pos="0 0 0.2" dim="2" mass="1" radius="0.001">
      <contact condim="3" selfcollide="none"/>
      <edge equality="false" damping="0.1"/>
    </flexcomp>
  </worldbody>
</mujoco>
"""


def scenario_a(jac):
  mjm = mujoco.MjModel.from_xml_string(XML_A.format(jac=jac))
  m = mjw.put_model(mjm)

  def q(z0, z8):
    x = np.zeros(mjm.nq)
    x[2], x[26] = z0 - 0.2, z8 - 0.2
    return x

  q1, q2 = q(0.016, -0.005), q(-0.005, 0.016)
  used = mjw.make_data(mjm, nconmax=16, njmax=64)
  put_state(used, q1)
  mjw.forward(m, used)
  put_state(used, q2)
  mjw.forward(m, used)
  fresh = mjw.make_data(mjm, nconmax=16, njmax=64)
  put_state(fresh, q2)
  mjw.forward(m, fresh)
  compare("A/" + jac, mjm, m, used, fresh)


# ---------------------------------------------------------------------------------------------
# B. sparse Jacobian.  plane(condim 1), ball s1 (condim 1), ball s3 (condim 3), cloth (condim 1).
#    state 1: both balls on the plane -> slot 0 = s1 (row 0), slot 1 = s3 (rows 1..4).
#    state 2: s1 lifted, s3 on the plane, cloth vertex 0 penetrates ->
#             slot 0 = s3 (rows 0..3), slot 1 = flex condim 1 (row 4) but efc_address[1] = [4,2,3,4]:
#             _efc_contact_jac_sparse_flex (launched over (naconmax, nmaxdim), no dim guard)
#             rewrites rows 2,3 of s3's friction pyramid with the cloth vertex Jacobian.
# ---------------------------------------------------------------------------------------------
XML_B = """
<mujoco>
  <option jacobian="sparse"/>
  <worldbody>
    <geom type="plane" size="2 2 0.1" condim="1"/>
    <body name="s1" pos="0.6 0 0.5"><joint type="slide" axis="0 0 1"/><geom size="0.1" condim="1"/></body>
    <body name="s3" pos="-0.6 0 0.5"><joint type="slide" axis="0 0 1"/><geom size="0.1" condim="3"/></body>
    <flexcomp name="cloth" type="grid" count="3 3 1" spacing="0.1 0.1 0.1" pos="0 0 0.5" dim="2" mass="1" radius="0.001">
      <contact condim="1" selfcollide="none"/>
      <edge equality="false" damping="0.1"/>
    </flexcomp>
  </worldbody>
</mujoco>
"""


def scenario_b():
  mjm = mujoco.MjModel.from_xml_string(XML_B)
  mjd = mujoco.MjData(mjm)
  m = mjw.put_model(mjm)

  def q(z1, z3, zv0):
    x = np.zeros(mjm.nq)
    x[0], x[1], x[2 + 2] = z1 - 0.5, z3 - 0.5, zv0 - 0.5
    return x

  q1, q2 = q(0.09, 0.09, 0.5), q(1.0, 0.09, -0.005)
  used = mjw.make_data(mjm, nconmax=16, njmax=64)
  put_state(used, q1)
  mjw.forward(m, used)
  put_state(used, q2)
  mjw.forward(m, used)
  fresh = mjw.make_data(mjm, nconmax=16, njmax=64)
  put_state(fresh, q2)
  mjw.forward(m, fresh)
  mjd.qpos[:] = q2
  mujoco.mj_forward(mjm, mjd)
  compare("B/sparse", mjm, m, used, fresh, mjd)


# ---------------------------------------------------------------------------------------------
# C. stale contact.adhesion.  An adhesive ball rests on the plane (slot 0, adhesion 5).
#    Then the ball is lifted away and a cloth vertex penetrates the plane: the flex contact takes
#    slot 0 and inherits adhesion 5, which _efc_contact_update_flex adds to efc_aref.
# ---------------------------------------------------------------------------------------------
XML_C = """
<mujoco>
  <worldbody>
    <geom type="plane" size="2 2 0.1"/>
    <body name="ball" pos="0.6 0 0.5"><joint type="slide" axis="0 0 1"/><geom size="0.1" adhesion="5"/></body>
    <flexcomp name="cloth" type="grid" count="3 3 1" spacing="0.1 0.1 0.1" pos="0 0 0.5" dim="2" mass="1" radius="0.001">
      <contact condim="3" selfcollide="none"/>
      <edge equality="false" damping="0.1"/>
    </flexcomp>
  </worldbody>
</mujoco>
"""


def scenario_c():
  mjm = mujoco.MjModel.from_xml_string(XML_C)
  mjd = mujoco.MjData(mjm)
  m = mjw.put_model(mjm)

  def q(zb, zv0):
    x = np.zeros(mjm.nq)
    x[0], x[1 + 2] = zb - 0.5, zv0 - 0.5
    return x

  q1, q2 = q(0.09, 0.5), q(1.0, -0.005)
  used = mjw.make_data(mjm, nconmax=16, njmax=64)
  put_state(used, q1)
  mjw.forward(m, used)
  put_state(used, q2)
  mjw.forward(m, used)
  fresh = mjw.make_data(mjm, nconmax=16, njmax=64)
  put_state(fresh, q2)
  mjw.forward(m, fresh)
  mjd.qpos[:] = q2
  mujoco.mj_forward(mjm, mjd)
  compare("C/adhesion", mjm, m, used, fresh, mjd)


# ---------------------------------------------------------------------------------------------
# D. no state edits: a tilted cloth settles on a plane with margin/gap under plain mjw.step().
#    Before each step, forward() on the long-lived Data is compared with forward() on a brand-new
#    Data that received the same qpos/qvel/time/qacc_warmstart.
# ---------------------------------------------------------------------------------------------
XML_D = """
<mujoco>
  <option timestep="0.002"/>
  <worldbody>
    <geom type="plane" size="1 1 0.1" margin="0.02" gap="0.015"/>
    <flexcomp name="cloth" type="grid" count="4 4 1" spacing="0.1 0.1 0.1" pos="0 0 0.06" euler="8 5 0" dim="2" mass="1" radius="0.001">
      <contact condim="3" selfcollide="none"/>
      <edge equality="true"/>
    </flexcomp>
  </worldbody>
</mujoco>
"""


def scenario_d(nstep=150):
  mjm = mujoco.MjModel.from_xml_string(XML_D)
  m = mjw.put_model(mjm)
  used = mjw.make_data(mjm, nconmax=64, njmax=256)
  for k in range(nstep):
    fresh = mjw.make_data(mjm, nconmax=64, njmax=256)
    for name in ("qpos", "qvel", "time", "qacc_warmstart"):
      getattr(fresh, name).assign(getattr(used, name).numpy())
    mjw.forward(m, used)
    mjw.forward(m, fresh)
    a, b = used.qacc.numpy()[0], fresh.qacc.numpy()[0]
    if not np.allclose(a, b, atol=1e-2, rtol=1e-3):
      print("  [D/step-loop] first divergence at step %d (t=%.3f)" % (k, k * 0.002))
      compare("D/step-loop", mjm, m, used, fresh)
      return
    mjw.step(m, used)
  print("  [D/step-loop] ok: used Data == fresh Data for %d steps" % nstep)


if __name__ == "__main__":
  print("A. inactive in-gap flex contact inherits rows of the slot's previous occupant")
  scenario_a("dense")
  scenario_a("sparse")
  print("B. condim-1 flex contact in a slot that held a condim-3 rigid contact (sparse Jacobian)")
  scenario_b()
  print("C. flex contact in a slot that held an adhesive rigid contact")
  scenario_c()
  print("D. plain step loop, cloth settling on a plane with margin+gap")
  scenario_d()
  if failures:
    print("FAIL: forward() depends on Data history in scenarios: " + ", ".join(failures))
    sys.exit(1)
  print("PASS: forward() on used Data matches fresh Data in all scenarios")
  sys.exit(0)
