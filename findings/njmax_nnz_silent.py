"""C16: sparse Jacobian non-zero capacity (njmax_nnz) overflow was silent.

A connect equality in a sparse model needs 3*rownnz non-zeros; with a smaller njmax_nnz the row
builder returns before writing the rows, and _next_time reconstructed the count from the last
row's J_rowadr/J_rownnz, which the dropping path never writes -> overflow == 0, rows missing.
Exit 1 if the overflow goes unreported.
"""
import sys
import numpy as np, mujoco, warp as wp
import mujoco_warp as mjw
print(mjw.__file__)
xml = """<mujoco><option jacobian="sparse"/><worldbody>
<body name="a" pos="0 0 1"><freejoint/><geom size=".1"/>
  <body name="b" pos=".3 0 0"><joint type="ball"/><geom size=".1"/>
    <body name="c" pos=".3 0 0"><joint type="ball"/><geom size=".1"/></body></body></body>
<body name="f" pos="1 0 1"><freejoint/><geom size=".1"/></body>
</worldbody><equality><connect body1="c" body2="f" anchor="0 0 0"/></equality></mujoco>"""
mjm = mujoco.MjModel.from_xml_string(xml); mjd = mujoco.MjData(mjm); mujoco.mj_forward(mjm, mjd)
m = mjw.put_model(mjm)
bad = 0
d_full = mjw.make_data(mjm, nworld=1, njmax=8)
mjw.forward(m, d_full)
need = int((d_full.efc.J_rowadr.numpy()[0, 2] + d_full.efc.J_rownnz.numpy()[0, 2]))
print("nnz needed", need)
for nnz in (need - 1, need // 2, 5):
  d = mjw.make_data(mjm, nworld=1, njmax=8, njmax_nnz=nnz)
  mjw.step(m, d)
  ov = int(d.overflow.numpy()[0]); D = d.efc.D.numpy()[0, :3]
  print(f"njmax_nnz={nnz}: nefc={d.nefc.numpy()[0]} overflow={ov:#x} efc.D[:3]={D}")
  if not (ov & int(mjw.OverflowType.NJMAX_NNZ)) and not np.all(D > 0):
    bad += 1
print("silent overflows:", bad)
sys.exit(1 if bad else 0)
