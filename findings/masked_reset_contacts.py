"""Demo: mjw.reset_data(m, d, reset=mask) corrupts contacts of unselected worlds.

io.py reset_data:
  * reset_nworld zeroes the global counter d.nacon[0] only `if worldid == 0` and world 0 is selected;
  * reset_contact clears the records of selected worlds in place and stamps contact.worldid = 0,
    without compacting the contact list or adjusting d.nacon.

Exit 1 if the reported contacts of an unselected world change, 0 otherwise.
"""

import sys

import mujoco
import numpy as np
import warp as wp

import mujoco_warp as mjw

np.set_printoptions(linewidth=200, precision=5, suppress=True)

XML = """
<mujoco>
  <option timestep="0.005"/>
  <worldbody>
    <geom name="floor" type="plane" size="5 5 0.1"/>
    <body pos="0 0 0.1">
      <freejoint/>
      <geom name="ball" type="sphere" size="0.1"/>
    </body>
  </worldbody>
</mujoco>
"""

NWORLD = 3


def snapshot(d):
  """Per-world view of active contacts, as any consumer (e.g. get_data_into) would compute it."""
  nacon = int(d.nacon.numpy()[0])
  n = min(nacon, d.naconmax)
  worldid = d.contact.worldid.numpy()[:n]
  dist = d.contact.dist.numpy()[:n]
  geom = d.contact.geom.numpy()[:n]
  dim = d.contact.dim.numpy()[:n]
  per_world = {}
  for w in range(d.nworld):
    sel = worldid == w
    per_world[w] = {
      "count": int(sel.sum()),
      "dist": dist[sel].round(6).tolist(),
      "geom": geom[sel].tolist(),
      "dim": dim[sel].tolist(),
    }
  return nacon, worldid.tolist(), per_world


def show(title, snap):
  nacon, worldid, per_world = snap
  print(f"  {title}: nacon={nacon} contact.worldid[:nacon]={worldid}")
  for w, info in per_world.items():
    print(f"    world {w}: count={info['count']} dist={info['dist']} geom={info['geom']} dim={info['dim']}")


def fresh(mjm, m):
  d = mjw.make_data(mjm, nworld=NWORLD, nconmax=4, njmax=16)
  for _ in range(5):
    mjw.step(m, d)
  return d


def run_case(mjm, m, mask):
  print(f"\n=== reset mask = {mask} ===")
  d = fresh(mjm, m)
  before = snapshot(d)
  show("before reset", before)
  qpos_before = d.qpos.numpy().copy()
  time_before = d.time.numpy().copy()

  mjw.reset_data(m, d, reset=wp.array(mask, dtype=bool))
  after = snapshot(d)
  show("after reset ", after)
  print(f"  time before={time_before} after={d.time.numpy()}")

  bad = False
  for w, selected in enumerate(mask):
    b, a = before[2][w], after[2][w]
    if selected:
      status = "ok (cleared)" if a["count"] == 0 else f"NOT CLEARED: still reports {a['count']} contact(s)"
      print(f"  world {w} (selected): {status}")  # reported only; exit code is keyed on unselected worlds
    else:
      unchanged = a == b
      qpos_same = np.array_equal(qpos_before[w], d.qpos.numpy()[w])
      print(f"  world {w} (unselected): qpos untouched={qpos_same}; contacts unchanged={unchanged}")
      if not unchanged:
        print(f"      before: {b}")
        print(f"      after : {a}")
        bad = True
  return bad


def main():
  mjm = mujoco.MjModel.from_xml_string(XML)
  m = mjw.put_model(mjm)

  bad1 = run_case(mjm, m, [False, True, False])
  bad2 = run_case(mjm, m, [True, False, False])

  print()
  if bad1 or bad2:
    print("DEFECT: masked reset_data changed the reported contacts of unselected world(s).")
    return 1
  print("OK: masked reset_data left unselected worlds' contacts untouched.")
  return 0


if __name__ == "__main__":
  sys.exit(main())
