"""C16: with sleeping enabled the broadphase pair counter of collision pass 1 is zeroed by the incremental pass 2 before
forward._next_time compares it with naconmax: a pass-1 broadphase overflow (pairs dropped) raises no overflow bit."""
import sys
import numpy as np, mujoco, warp as wp
import mujoco_warp as mjw
N = 10
balls = "".join(f'<body pos="{0.5*i} 0 0.1"><freejoint/><geom type="sphere" size="0.1"/></body>' for i in range(N))
XML = f"""
<mujoco>
  <option timestep="0.005"><flag {{flags}}/></option>
  <worldbody><geom type="plane" size="10 10 0.1"/>{balls}</worldbody>
</mujoco>
"""
def run(flags, naconmax):
  mjm = mujoco.MjModel.from_xml_string(XML.format(flags=flags))
  m = mjw.put_model(mjm)
  d = mjw.make_data(mjm, nworld=1, naconmax=naconmax, njmax=200)
  mjw.step(m, d)
  return int(d.overflow.numpy()[0]), int(d.nacon.numpy()[0]), int(d.ncollision.numpy()[0])
bad = False
for cap in (4, 64):
  o_plain = run('sleep="disable"', cap)
  o_sleep = run('sleep="enable"', cap)
  print(f"naconmax={cap:3d}: sleep disabled -> overflow={o_plain[0]:#05x} nacon={o_plain[1]} ncollision={o_plain[2]} | sleep enabled -> overflow={o_sleep[0]:#05x} nacon={o_sleep[1]} ncollision={o_sleep[2]}")
  if (o_plain[0] != 0) != (o_sleep[0] != 0):
    bad = True
print("FAIL: the same capacity overflow is reported without sleeping but silent with sleeping enabled" if bad else "PASS")
sys.exit(1 if bad else 0)
