"""Demonstrates the _equality_flexstrain JTDAJ block-descriptor defect (nrow = 6 for a 1-row block).

Run from /tmp:   /venv/bin/python /tmp/flexstrain_demo/demo.py
Exit status 1 if the defect manifests, 0 otherwise.

Parts:
  A  descriptors + row visit multiplicity (2-cell trilinear flex, sparse Newton)
  B  Hessian assembled by _JTDACJ_sparse vs numpy reference M + J^T D J
  C  solver result: sparse vs dense vs MuJoCo C
  D  index arithmetic when the last flexstrain rows sit near njmax (7 cells, nefc=126, njmax=128)
  E  same configuration under Warp debug mode (array bounds assertions) in a child process
"""

import subprocess
import sys

CHILD = len(sys.argv) > 1 and sys.argv[1] == "--debug-child"

import warp as wp

if CHILD:
  wp.config.mode = "debug"  # must be set before kernels are built: enables array bounds assertions
wp.config.log_level = wp.LOG_WARNING

import mujoco
import numpy as np

import mujoco_warp as mjw
from mujoco_warp._src import solver
from mujoco_warp._src import types

XML = """
<mujoco>
  <option jacobian="{jac}" solver="Newton" tolerance="1e-10" iterations="100"/>
  <worldbody>
    <flexcomp name="a" type="grid" count="3 3 3" spacing="0.1 0.1 0.1" dim="3" mass="1"
              dof="trilinear" cellcount="{ncell} 1 1">
      <contact selfcollide="none"/>
      <edge equality="strain"/>
    </flexcomp>
  </worldbody>
</mujoco>
"""


def build(jac, ncell, nworld, njmax, perturb=True):
  mjm = mujoco.MjModel.from_xml_string(XML.format(jac=jac, ncell=ncell))
  assert (mjm.eq_type == mujoco.mjtEq.mjEQ_FLEXSTRAIN).all() and mjm.neq == ncell
  mjd = mujoco.MjData(mjm)
  if perturb:
    rng = np.random.default_rng(0)
    mjd.qpos[:] += 0.02 * rng.standard_normal(mjm.nq)
    mjd.qvel[:] = 0.1 * rng.standard_normal(mjm.nv)
  mujoco.mj_forward(mjm, mjd)
  m = mjw.put_model(mjm)
  d = mjw.put_data(mjm, mjd, nworld=nworld, njmax=njmax)
  return mjm, mjd, m, d


def descriptors(d, w=0):
  nb = int(d.efc.jtdaj_nblock.numpy()[w])
  return d.efc.jtdaj_adr.numpy()[w, :nb].copy(), d.efc.jtdaj_nrow.numpy()[w, :nb].copy()


def dense_J(d, nefc, nv, w=0):
  J = np.zeros((nefc, nv))
  mujoco.mju_sparse2dense(
    J,
    d.efc.J.numpy()[w, 0].astype(np.float64),
    d.efc.J_rownnz.numpy()[w, :nefc],
    d.efc.J_rowadr.numpy()[w, :nefc],
    d.efc.J_colind.numpy()[w, 0],
  )
  return J


def child(njmax):
  """Run the near-njmax configuration stage by stage; a bounds assertion aborts the process."""
  mjm, mjd, m, d = build("sparse", 7, 2, njmax, perturb=False)
  mjw.fwd_position(m, d)  # includes make_constraint
  mjw.fwd_velocity(m, d)
  mjw.fwd_actuation(m, d)
  mjw.fwd_acceleration(m, d)
  wp.synchronize()
  print("  child: constraint assembly ok, nefc", d.nefc.numpy(), flush=True)
  ctx = solver._create_solver_context(m, d)
  solver.init_context(m, d, ctx, grad=False)
  wp.synchronize()
  print("  child: init_context(grad=False) ok; launching _update_gradient (-> _JTDACJ_sparse)", flush=True)
  solver._update_gradient(m, d, ctx)
  wp.synchronize()
  print("  child: _JTDACJ_sparse ok (no bounds assertion)", flush=True)
  mjw.solve(m, d)
  wp.synchronize()
  print("  child: solve ok", flush=True)


def main():
  defect = False
  print("mujoco_warp from", mjw.__file__)

  # ---------------------------------------------------------------- A: descriptors
  print("\n[A] descriptors, 2-cell trilinear flex, jacobian=sparse solver=Newton, njmax=64")
  mjm, mjd, m, d = build("sparse", 2, 1, 64)
  assert m.is_sparse
  mjw.forward(m, d)
  nefc = int(d.nefc.numpy()[0])
  nv = mjm.nv
  adr, nrow = descriptors(d)
  etype = d.efc.type.numpy()[0, :nefc]
  print("  nefc", nefc, "(MuJoCo C:", mjd.nefc, ") nv", nv, "njmax", d.njmax)
  print("  efc.type all EQUALITY:", bool((etype == int(types.ConstraintType.EQUALITY)).all()), " efc.id:", d.efc.id.numpy()[0, :nefc])
  print("  jtdaj_nblock", len(adr))
  print("  jtdaj_adr ", adr)
  print("  jtdaj_nrow", nrow)
  visits = np.zeros(d.njmax + 8, dtype=int)
  for a, n in zip(adr, nrow):
    visits[a : a + n] += 1
  print("  visits per efc row (rows 0..nefc+5):", visits[: nefc + 6])
  print("  rows visited more than once:", int((visits[:nefc] > 1).sum()), " rows >= nefc visited:", np.flatnonzero(visits[nefc:]) + nefc)
  if (nrow != 1).any() or (visits[:nefc] != 1).any():
    print("  DEFECT: single-row flexstrain constraints recorded as", sorted(set(nrow.tolist())), "-row blocks; blocks overlap")
    defect = True

  # ---------------------------------------------------------------- B: Hessian
  print("\n[B] Hessian from _JTDACJ_sparse vs numpy reference M + J^T diag(D*[state==QUADRATIC]) J")
  ctx = solver._create_solver_context(m, d)
  solver.init_context(m, d, ctx, grad=True)
  h = ctx.h.numpy()[0, :nv, :nv].astype(np.float64)
  H_kernel = np.triu(h) + np.triu(h, 1).T
  M = np.zeros((nv, nv))
  mujoco.mj_fullM(mjm, mjd, M)
  J = dense_J(d, nefc, nv)
  D = d.efc.D.numpy()[0, :nefc].astype(np.float64)
  state = d.efc.state.numpy()[0]
  act = (state[:nefc] == int(types.ConstraintState.QUADRATIC.value)).astype(np.float64)
  H_ref = M + J.T @ (J * (D * act)[:, None])
  # what the consumer computes given the descriptors: each block uses the HEAD row's column indices
  # and reads member rows' J values at the same offsets
  colind = d.efc.J_colind.numpy()[0, 0]
  Jv = d.efc.J.numpy()[0, 0].astype(np.float64)
  rowadr = d.efc.J_rowadr.numpy()[0]
  rownnz = d.efc.J_rownnz.numpy()[0]
  H_pred = M.copy()
  for a, n in zip(adr, nrow):
    cols = colind[rowadr[a] : rowadr[a] + rownnz[a]]
    for r in range(a, a + n):
      if state[r] == int(types.ConstraintState.QUADRATIC.value):
        jr = Jv[rowadr[r] : rowadr[r] + rownnz[a]]
        H_pred[np.ix_(cols, cols)] += D[r] * np.outer(jr, jr) if r < nefc else d.efc.D.numpy()[0, r] * np.outer(jr, jr)
  scale = np.abs(H_ref).max()
  err_ref = np.abs(H_kernel - H_ref).max() / scale
  err_pred = np.abs(H_kernel - H_pred).max() / scale
  print("  max|H_kernel - H_ref| / max|H_ref|            = %.3e" % err_ref)
  print("  max|H_kernel - H_predicted_from_blocks| / ... = %.3e  (model of the overlapping-block arithmetic)" % err_pred)
  print("  trace(H_kernel - M) / trace(H_ref - M)        = %.3f" % (np.trace(H_kernel - M) / np.trace(H_ref - M)))
  if err_ref > 1e-3:
    print("  DEFECT: sparse Newton Hessian is wrong (rows multiply counted)")
    defect = True

  # ---------------------------------------------------------------- C: solver result
  print("\n[C] solver result vs MuJoCo C (mj_forward) and vs dense Jacobian")
  res = {}
  for jac in ("sparse", "dense"):
    mjm_, mjd_, m_, d_ = build(jac, 2, 1, 64)
    mjw.forward(m_, d_)
    n_ = int(d_.nefc.numpy()[0])
    qacc = d_.qacc.numpy()[0]
    force = d_.efc.force.numpy()[0, :n_]
    res[jac] = qacc.copy()
    print(
      "  %-6s niter warp %d (C %d)  max|qacc-C| %.3e (max|qacc_C| %.3e)  max|efc_force-C| %.3e (max|force_C| %.3e)"
      % (
        jac,
        int(d_.solver_niter.numpy()[0]),
        int(mjd_.solver_niter[0]),
        np.abs(qacc - mjd_.qacc).max(),
        np.abs(mjd_.qacc).max(),
        np.abs(force - mjd_.efc_force[:n_]).max(),
        np.abs(mjd_.efc_force[:n_]).max(),
      )
    )
    if jac == "sparse":
      sparse_rel = np.abs(qacc - mjd_.qacc).max() / np.abs(mjd_.qacc).max()
  print("  max|qacc_sparse - qacc_dense| = %.3e" % np.abs(res["sparse"] - res["dense"]).max())
  if sparse_rel > 1e-2:
    print("  DEFECT: sparse Newton solve terminates at a wrong qacc (relative error %.2f)" % sparse_rel)
    defect = True

  # ---------------------------------------------------------------- D: near njmax
  print("\n[D] index arithmetic near njmax: 7 cells (126 flexstrain rows), nworld=2, njmax=128")
  mjm7, mjd7, m7, d7 = build("sparse", 7, 2, 128, perturb=False)
  mjw.fwd_position(m7, d7)
  njmax = d7.njmax
  print("  nefc", d7.nefc.numpy(), "njmax", njmax, "(no overflow)")
  print("  extents: efc.state", d7.efc.state.shape, "efc.D", d7.efc.D.shape, "efc.J_rowadr", d7.efc.J_rowadr.shape, "efc.J_rownnz", d7.efc.J_rownnz.shape)
  oob_any = False
  for w in range(2):
    a, n = descriptors(d7, w)
    rows = np.concatenate([np.arange(x, x + y) for x, y in zip(a, n)]) if len(a) else np.zeros(0, int)
    over_nefc = np.unique(rows[rows >= int(d7.nefc.numpy()[w])])
    over_njmax = np.unique(rows[rows >= njmax])
    over_state = np.unique(rows[rows >= d7.efc.state.shape[1]])
    print("  world %d: max member_row %d; member rows >= nefc %s; >= njmax %s; >= efc.state extent %s" % (w, rows.max(), over_nefc, over_njmax, over_state))
    oob_any |= len(over_state) > 0
  if oob_any:
    print("  efc_state_in[worldid, member_row] is evaluated unconditionally for every member -> reads past the row extent.")
    print("  For world 0 the flat address lands in world 1's rows 0.. (state QUADRATIC there), so efc_J_rowadr_in / efc_D_in")
    print("  are then also read out of bounds; for the last world the reads are past the end of the allocation.")
    print("  DEFECT: out-of-bounds reads in _JTDACJ_sparse")
    defect = True

  # ---------------------------------------------------------------- E: debug mode child
  print("\n[E] same configuration under wp.config.mode='debug' (child process)")
  for nj in (128, 160):
    p = subprocess.run([sys.executable, __file__, "--debug-child", str(nj)], capture_output=True, text=True, cwd="/tmp")
    out = [l for l in (p.stdout + p.stderr).splitlines() if l.startswith("  child") or "Assertion" in l or l.startswith("At '")]
    print("  njmax=%d -> return code %d" % (nj, p.returncode))
    for l in out:
      print("   ", l.strip())
    if p.returncode != 0 and any("Assertion failed" in l for l in out):
      print("    DEFECT: Warp bounds assertion fired (process aborted)")
      defect = True

  print("\nRESULT:", "DEFECT MANIFESTS" if defect else "no defect observed")
  return 1 if defect else 0


if __name__ == "__main__":
  if CHILD:
    child(int(sys.argv[2]))
    sys.exit(0)
  sys.exit(main())
