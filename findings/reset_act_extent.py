"""C13: reset_data left act[nu:na] untouched when a model has more activations than actuators."""
import sys
import numpy as np, mujoco, warp as wp
import mujoco_warp as mjw
print(mjw.__file__)
xml = """<mujoco><worldbody><body><joint name="j" type="hinge"/><geom size=".1"/></body></worldbody>
<actuator><dcmotor joint="j" motorconst="0.05" resistance="2.0" inductance="0.01 0" thermal="50 100 0.01 100 293 0.004"/></actuator></mujoco>"""
mjm = mujoco.MjModel.from_xml_string(xml)
print("nu", mjm.nu, "na", mjm.na)
m = mjw.put_model(mjm); d = mjw.make_data(mjm)
wp.copy(d.act, wp.array(np.full((1, mjm.na), 7.0), dtype=float))
mjw.reset_data(m, d)
act = d.act.numpy()[0]
print("act after reset:", act)
sys.exit(1 if np.any(act != 0) else 0)
