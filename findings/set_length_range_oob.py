import numpy as np, mujoco, warp as wp
import mujoco_warp as mjw
xml = """<mujoco><worldbody><body><joint name="j" type="hinge" limited="true" range="-1 1"/><geom size=".1"/></body></worldbody>
<actuator><motor joint="j" gear="2"/></actuator></mujoco>"""
mjm = mujoco.MjModel.from_xml_string(xml); mjd = mujoco.MjData(mjm)
m = mjw.put_model(mjm); d = mjw.put_data(mjm, mjd, nworld=4)
print('lengthrange shape', m.actuator_lengthrange.shape)
# sentinel array allocated right after? show OOB by checking index with numpy: emulate
guard = wp.zeros((64,), dtype=float)
mjw.set_length_range(m, d)
print('lengthrange', m.actuator_lengthrange.numpy())
# kernel writes actuator_lengthrange_out[worldid, actid] for worldid in 0..3 with shape[0]==1 -> OOB for worldid>=1
