"""With <flag energy=enable sensor=disable> and an e_potential / e_kinetic sensor, Data.energy is not computed."""
import sys
import mujoco, numpy as np, warp as wp
import mujoco_warp as mjw
wp.config.quiet = True
XML = """
<mujoco>
  <option><flag energy="enable" sensor="disable"/></option>
  <worldbody>
    <body pos="0 0 1">
      <joint type="hinge" axis="0 1 0" stiffness="3"/>
      <geom type="capsule" size="0.02" fromto="0 0 0 0.3 0 0" mass="1"/>
    </body>
  </worldbody>
  <sensor>%s</sensor>
</mujoco>
"""
bad = 0
for name, sens in (("no energy sensor", "<jointpos joint='0'/>".replace("joint='0'", "")), ("e_potential", "<e_potential/>"), ("e_kinetic", "<e_kinetic/>"), ("both", "<e_potential/><e_kinetic/>")):
  try:
    mjm = mujoco.MjModel.from_xml_string(XML % (sens if "jointpos" not in sens else ""))
  except Exception as e:
    print(name, "xml rejected", e); continue
  mjd = mujoco.MjData(mjm)
  m = mjw.put_model(mjm)
  d = mjw.put_data(mjm, mjd)
  for k in range(3):
    mjd.qpos[0] = 0.3 + 0.2 * k
    mjd.qvel[0] = 1.0 + k
    mujoco.mj_forward(mjm, mjd)
    wp.copy(d.qpos, wp.array(np.array([mjd.qpos], dtype=np.float32)))
    wp.copy(d.qvel, wp.array(np.array([mjd.qvel], dtype=np.float32)))
    mjw.forward(m, d)
    e = d.energy.numpy()[0]
    ok = np.allclose(e, mjd.energy, atol=1e-4)
    print(f"{name:18s} k={k} mujoco={np.round(mjd.energy,4)} mjwarp={np.round(e,4)} {'ok' if ok else 'MISMATCH'}")
    bad += not ok
print("FAIL" if bad else "PASS"); sys.exit(1 if bad else 0)
