"""Demo: mjw.forward() mutates d.history (integration state) and is not idempotent.

forward() -> sensor_pos/vel/acc -> history.apply_sensor_delay(), which launches
_insert_sensor_history_stage and writes into d.history.  In MuJoCo C the history
insert only happens in mj_step (mj_advance); mj_forward leaves mjData.history alone.

Exit 1 if the defect manifests, 0 otherwise.
"""

import sys

import mujoco
import numpy as np
import warp as wp

import mujoco_warp as mjw

np.set_printoptions(linewidth=200, precision=5, suppress=True)

XML = """
<mujoco>
  <option timestep="0.01" gravity="0 0 0"/>
  <worldbody>
    <body>
      <joint name="slide" type="slide"/>
      <geom size="0.1"/>
    </body>
  </worldbody>
  <sensor>
    <jointpos name="delayed" joint="slide" delay="0.005" nsample="3" interp="linear"/>
    <jointpos name="interval" joint="slide" interval="0.03 0" nsample="3"/>
  </sensor>
</mujoco>
"""

QPOS = 5.0


def integration_state(m, d, mjm):
  size = mujoco.mj_stateSize(mjm, mujoco.mjtState.mjSTATE_INTEGRATION)
  state = wp.zeros((d.nworld, size), dtype=float)
  mjw.get_state(m, d, state, int(mjw.State.INTEGRATION))
  return state.numpy().copy()


def main():
  mjm = mujoco.MjModel.from_xml_string(XML)
  print(f"nhistory = {mjm.nhistory}, nsensordata = {mjm.nsensordata}")

  # ---------------- MuJoCo C reference ----------------
  mjd = mujoco.MjData(mjm)
  mjd.qpos[0] = QPOS
  c_hist0 = mjd.history.copy()
  c_size = mujoco.mj_stateSize(mjm, mujoco.mjtState.mjSTATE_INTEGRATION)
  c_state0 = np.zeros(c_size)
  mujoco.mj_getState(mjm, mjd, c_state0, mujoco.mjtState.mjSTATE_INTEGRATION)
  mujoco.mj_forward(mjm, mjd)
  c_sens1 = mjd.sensordata.copy()
  c_hist1 = mjd.history.copy()
  mujoco.mj_forward(mjm, mjd)
  c_sens2 = mjd.sensordata.copy()
  c_hist2 = mjd.history.copy()
  c_state2 = np.zeros(c_size)
  mujoco.mj_getState(mjm, mjd, c_state2, mujoco.mjtState.mjSTATE_INTEGRATION)
  print("\n[MuJoCo C]")
  print("  history before mj_forward :", c_hist0)
  print("  history after 1x mj_forward:", c_hist1)
  print("  history after 2x mj_forward:", c_hist2)
  print("  sensordata after 1x / 2x   :", c_sens1, "/", c_sens2)
  c_hist_changed = not (np.array_equal(c_hist0, c_hist1) and np.array_equal(c_hist0, c_hist2))
  c_state_changed = not np.array_equal(c_state0, c_state2)
  c_sens_diff = not np.array_equal(c_sens1, c_sens2)
  print(f"  mj_forward changed mjData.history: {c_hist_changed}")
  print(f"  mj_forward changed INTEGRATION state: {c_state_changed}")
  print(f"  sensordata differs 1st vs 2nd mj_forward: {c_sens_diff}")

  # ---------------- MuJoCo Warp ----------------
  failed = False
  for label in ("put_data (history initialised as in C)", "make_data"):
    m = mjw.put_model(mjm)
    if label.startswith("put_data"):
      mjd0 = mujoco.MjData(mjm)
      mjd0.qpos[0] = QPOS
      d = mjw.put_data(mjm, mjd0, nworld=1)
    else:
      d = mjw.make_data(mjm, nworld=1)
      wp.copy(d.qpos, wp.array(np.full((1, 1), QPOS), dtype=float))

    hist0 = d.history.numpy().copy()
    state0 = integration_state(m, d, mjm)
    time0 = d.time.numpy().copy()

    mjw.forward(m, d)
    hist1 = d.history.numpy().copy()
    state1 = integration_state(m, d, mjm)
    sens1 = d.sensordata.numpy().copy()

    mjw.forward(m, d)
    hist2 = d.history.numpy().copy()
    state2 = integration_state(m, d, mjm)
    sens2 = d.sensordata.numpy().copy()

    print(f"\n[MuJoCo Warp, {label}]")
    print("  time before / after        :", time0, "/", d.time.numpy())
    print("  history before forward     :", hist0[0])
    print("  history after 1x forward   :", hist1[0])
    print("  history after 2x forward   :", hist2[0])
    print("  sensordata after 1x / 2x   :", sens1[0], "/", sens2[0])
    hist_changed = not (np.array_equal(hist0, hist1) and np.array_equal(hist0, hist2))
    state_changed = not (np.array_equal(state0, state1) and np.array_equal(state0, state2))
    sens_diff = not np.array_equal(sens1, sens2)
    idx = np.nonzero(state0[0] != state1[0])[0]
    print(f"  forward changed d.history: {hist_changed}")
    print(f"  forward changed INTEGRATION state (get_state): {state_changed}; differing state indices: {idx.tolist()}")
    print(f"  sensordata differs 1st vs 2nd forward: {sens_diff}")
    if label.startswith("put_data"):
      print(f"  sensordata after 1x forward matches C: {np.allclose(sens1[0], c_sens1)}")
      print(f"  sensordata after 2x forward matches C: {np.allclose(sens2[0], c_sens2)}")
    failed = failed or hist_changed or state_changed or sens_diff

  print()
  if failed:
    print("DEFECT: mjw.forward() wrote d.history / is not idempotent (MuJoCo C mj_forward does not touch history).")
    return 1
  print("OK: forward() left the integration state untouched.")
  return 0


if __name__ == "__main__":
  sys.exit(main())
