import mujoco, numpy as np, warp as wp, sys
import mujoco_warp as mjw
wp.config.quiet=True
xml = """
<mujoco>
  <option integrator="implicitfast" density="1000" viscosity="2" timestep="0.005"/>
  <worldbody>
    <body pos="0 0 1">
      <joint name="j1" type="hinge" axis="0 1 0" stiffness="2" damping="0.3"/>
      <geom type="ellipsoid" size="0.1 0.05 0.3" pos="0 0 -0.3" fluidshape="ellipsoid"/>
      <body pos="0 0 -0.6">
        <joint name="j2" type="hinge" axis="1 0 0" damping="0.2"/>
        <geom type="ellipsoid" size="0.05 0.1 0.2" pos="0 0 -0.2" fluidshape="ellipsoid"/>
      </body>
    </body>
  </worldbody>
  <actuator><motor joint="j1" gear="1"/></actuator>
</mujoco>
"""
bad=0
for name,flags in [("none",0),("spring",mujoco.mjtDisableBit.mjDSBL_SPRING),("damper",mujoco.mjtDisableBit.mjDSBL_DAMPER),("spring+damper",mujoco.mjtDisableBit.mjDSBL_SPRING|mujoco.mjtDisableBit.mjDSBL_DAMPER)]:
  mjm=mujoco.MjModel.from_xml_string(xml); mjm.opt.disableflags|=int(flags)
  mjd=mujoco.MjData(mjm); mjd.qvel[:]=[2.0,-3.0]; mjd.ctrl[:]=0.5
  mujoco.mj_forward(mjm,mjd)
  m=mjw.put_model(mjm); d=mjw.put_data(mjm,mjd)
  for _ in range(5):
    mujoco.mj_step(mjm,mjd); mjw.step(m,d)
  err=np.abs(d.qvel.numpy()[0]-mjd.qvel).max()
  print(name,"qvel err",err)
  if err>1e-4: bad=1
sys.exit(bad)
